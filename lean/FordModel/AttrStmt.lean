/-
  C18 - attributes given by separate attribute statements (`intent(in) :: n`, `dimension a(n, *)`,
  `optional :: flag`, `value w`, `target :: r`, `allocatable :: x(:)`, `private :: g`,
  `parameter (p = 1)` ...) and how they reach the variable that is displayed.

  Mirrors the clean-up of a program unit in `ford/sourceform.py` *as it is*:

  * `applyAttr`     : the body of the `for attr in self.attr_dict[var.name.lower()]` loop of
                      `FortranCodeUnit.process_attribs` (permission / intent / the `DIM_RE` split of
                      `allocatable(..)`, `pointer(..)` / parameter + value / everything else appended
                      to `attribs`)
  * `attachGo`      : the `for var in self.variables` loop with its `del self.attr_dict[...]`
  * `dropExternal`  : `self.variables = [v for v in self.variables if "external" not in v.attribs]`
  * `matchArgs`     : the loop of `FortranProcedure._cleanup` that turns the names of the dummy
                      arguments into the declared variables (removed from `self.variables`), into
                      interface procedures, or into implicitly typed variables
  * `matchResult`   : the head of `FortranFunction._cleanup` (result variable)
  * `runCleanup`    : the steps in the order in which the source has them; that order is
                      regenerated from the code on every run (`Generated/C18.lean`:
                      `procCleanupSteps`, `funcCleanupSteps`).
  Import-free apart from `FordModel.*` (compiled driver).
-/
import FordModel.Generated.C18Cfg
import FordModel.Basic.Chars
import FordModel.TypeSpec
namespace Ford.AttrStmt

/-- what the variable tables display of one variable -/
structure DVar where
  name : Str
  ftype : Str            -- `full_type` (opaque here)
  permission : Str
  intent : Str
  optional : Bool
  parameter : Bool
  attribs : List Str
  dimension : Str
  initial : Option Str
  deriving DecidableEq, Repr

/-- one entry of `self.args` / `self.retvar` -/
inductive Slot where
  | name (s : Str)        -- still the name taken from the procedure statement
  | var (v : DVar)        -- a variable (declared or implicitly typed)
  | proc (s : Str)        -- a dummy procedure described by an interface block
  deriving DecidableEq, Repr

inductive CleanStep where
  | attribs        -- `self.process_attribs()` (through `FortranCodeUnit._cleanup`)
  | dropExternal   -- `self.variables = [v for v in self.variables if "external" not in v.attribs]`
  | matchArgs      -- `for i, arg in enumerate(self.args): ...`
  | matchResult    -- `if not isinstance(self.retvar, FortranVariable): ...`
  deriving DecidableEq, Repr

abbrev Dict := List (Str × List Str)

/-- a procedure, derived type or interface of the unit, as `process_attribs` sees it: lower-cased name and
    whether the object has an `attribs` list (procedures and types have, interface entries have not) -/
structure Item where
  name : Str
  hasAttribs : Bool
  deriving DecidableEq, Repr

structure PState where
  vars : List DVar
  args : List Slot
  ret : Option Slot                 -- functions only
  ifaces : List Str                 -- names of the non-generic, non-abstract interface procedures
  items : List Item                 -- the unit's procedures / types / interfaces (in `iterator` order)
  dict : Option Dict                -- `attr_dict` (insertion order); `none` after `del self.attr_dict`
  params : List (Str × Str)         -- `param_dict`
  deriving DecidableEq, Repr

/-! ## process_attribs -/

def lookupAttrs : Dict → Str → List Str
  | [], _ => []
  | (k, as) :: d, key => if k == key then as else lookupAttrs d key

def eraseKey : Dict → Str → Dict
  | [], _ => []
  | (k, as) :: d, key => if k == key then d else (k, as) :: eraseKey d key

def lookupParam : List (Str × Str) → Str → Option Str
  | [], _ => none
  | (k, v) :: d, key => if k == key then some v else lookupParam d key

/-- `sub in s` -/
def containsSub (sub : Str) : Str → Bool
  | [] => sub.isEmpty
  | c :: cs => startsWith (c :: cs) sub || containsSub sub cs

/-- `DIM_RE.match(attr)` = `^\w+\s*(\(.*\))\s*$` (no line feeds in an attribute) -/
def dimRe (attr : Str) : Bool :=
  let w := attr.takeWhile isWord
  let rest := rstrip ((attr.dropWhile isWord).dropWhile isSpace)
  !w.isEmpty && rest.head? == some '(' && rest.getLast? == some ')' && rest.length ≥ 2

def isPermission (attr : Str) : Bool :=
  attr == (chars! "public") || attr == (chars! "private") || attr == (chars! "protected")

/-- the branch `DIM_RE.match(attr) and ("pointer" in attr or "allocatable" in attr or ...)`: the keywords are read
    from the source (`Generated.C18Cfg.shapeStmtKeywords`) -/
def isShapeAttr (attr : Str) : Bool :=
  dimRe attr && Generated.C18Cfg.shapeStmtKeywords.any (fun k => containsSub k attr)

/-- what the shape branch stores as the dimension: the array spec of the statement; in the repaired code
    (`Generated.C18Cfg.shapeKeepsLength`) followed by what the declaration wrote behind the name unless that is an
    array spec itself (`c*(80)`, `x[*]`) -/
def shapeDimensionV (keeps : Bool) (old attr : Str) : Str :=
  attr.dropWhile (· != '(') ++ (if keeps && old.head? != some '(' then old else [])

def shapeDimension (old attr : Str) : Str := shapeDimensionV Generated.C18Cfg.shapeKeepsLength old attr

/-- the attributes that `process_attribs` does not append to `var.attribs` as they are -/
def isPlainAttr (attr : Str) : Bool :=
  !isPermission attr && attr.take 6 != (chars! "intent") && !isShapeAttr attr &&
  attr != (chars! "parameter")

/-- one attribute of an attribute statement applied to the variable it names -/
def applyAttr (params : List (Str × Str)) (v : DVar) (attr : Str) : DVar :=
  if isPermission attr then { v with permission := attr }
  else if attr.take 6 == (chars! "intent") then { v with intent := (attr.drop 7).dropLast }
  else if isShapeAttr attr then
    { v with attribs := v.attribs ++ [attr.takeWhile (· != '(')], dimension := shapeDimension v.dimension attr }
  else if attr == (chars! "parameter") then
    { v with attribs := v.attribs ++ [attr], initial := lookupParam params (lower v.name) }
  else { v with attribs := v.attribs ++ [attr] }

def applyAttrs (params : List (Str × Str)) (v : DVar) (attrs : List Str) : DVar :=
  attrs.foldl (applyAttr params) v

/-- the `for var in self.variables` loop: each variable receives the attributes recorded for its
    lower-cased name, and the entry is deleted -/
def attachGo (params : List (Str × Str)) : Dict → List DVar → List DVar
  | _, [] => []
  | d, v :: vs =>
    applyAttrs params v (lookupAttrs d (lower v.name)) :: attachGo params (eraseKey d (lower v.name)) vs

/-- the first loop of `process_attribs` for one item: visibility and `bind` are stored in fields,
    everything else is `item.attribs.append(attr)` - which raises AttributeError for an item without
    `attribs` (the entry of an interface block: `optional :: callback` for a dummy procedure that is
    described by an interface block) -/
def itemRaises (attrs : List Str) (it : Item) : Bool :=
  !it.hasAttribs && attrs.any (fun a => !isPermission a && a.take 4 != (chars! "bind"))

/-- ... over all items: their entries are consumed; `none` = raised -/
def consumeItems : Dict → List Item → Option Dict
  | d, [] => some d
  | d, it :: its =>
    if itemRaises (lookupAttrs d it.name) it then none else consumeItems (eraseKey d it.name) its

/-- `process_attribs`: items first, then the variables -/
def attach (params : List (Str × Str)) (items : List Item) (d : Dict) (vars : List DVar) : Option (List DVar) :=
  match consumeItems d items with
  | none => none
  | some d' => some (attachGo params d' vars)

/-- the test of the `external` filter: `"external" in v.attribs`, or - since fix 04d703a -
    `"external" in [attr.lower() for attr in v.attribs]` (`Generated.C18Cfg.externalCI`, read from the source) -/
def isExternal (v : DVar) : Bool :=
  if Generated.C18Cfg.externalCI then v.attribs.any (fun a => lower a == (chars! "external"))
  else v.attribs.contains (chars! "external")

def dropExternal (vars : List DVar) : List DVar := vars.filter (fun v => !isExternal v)

/-! ## matching the dummy arguments and the result -/

/-- first variable whose lower-cased name is `key`, and the list without it
    (`for var in self.variables: if arg.lower() == var.name.lower(): ... self.variables.remove(var)`) -/
def takeVar (key : Str) : List DVar → Option (DVar × List DVar)
  | [] => none
  | v :: vs =>
    if lower v.name == key then some (v, vs)
    else match takeVar key vs with
      | some (x, r) => some (x, v :: r)
      | none => none

def takeIface (key : Str) : List Str → Option (Str × List Str)
  | [] => none
  | p :: ps =>
    if lower p == key then some (p, ps)
    else match takeIface key ps with
      | some (x, r) => some (x, p :: r)
      | none => none

/-- `implicit_type` -/
def implicitType (name : Str) : Str :=
  match name with
  | c :: _ => if (chars! "ijklmn").contains (lowerChar c) then (chars! "integer") else (chars! "real")
  | [] => (chars! "real")

/-- `FortranVariable(arg, implicit_type(arg), self, doc="")` -/
def implicitVar (name : Str) : DVar :=
  ⟨name, implicitType name, (chars! "public"), [], false, false, [], [], none⟩

/-- the argument loop of `FortranProcedure._cleanup`; entries that are no longer names are kept -/
def matchArgs : List Slot → List DVar → List Str → List Slot × List DVar × List Str
  | [], vars, ifs => ([], vars, ifs)
  | .name a :: rest, vars, ifs =>
    match takeVar (lower a) vars with
    | some (v, vars') =>
      let r := matchArgs rest vars' ifs
      (.var v :: r.1, r.2)
    | none =>
      match takeIface (lower a) ifs with
      | some (p, ifs') =>
        let r := matchArgs rest vars ifs'
        (.proc p :: r.1, r.2)
      | none =>
        let r := matchArgs rest vars ifs
        (.var (implicitVar a) :: r.1, r.2)
  | s :: rest, vars, ifs =>
    let r := matchArgs rest vars ifs
    (s :: r.1, r.2)

/-- the head of `FortranFunction._cleanup` -/
def matchResult (ret : Option Slot) (vars : List DVar) : Option Slot × List DVar :=
  match ret with
  | some (.name r) =>
    match takeVar (lower r) vars with
    | some (v, vars') => (some (.var v), vars')
    | none => (some (.var (implicitVar r)), vars)
  | other => (other, vars)

/-! ## the clean-up as a list of steps -/

/-- one step; `none` = the step raises (`process_attribs` after `del self.attr_dict`, or an attribute for
    an item without `attribs`) -/
def cleanStep (st : PState) : CleanStep → Option PState
  | .attribs =>
    match st.dict with
    | none => none
    | some d =>
      match attach st.params st.items d st.vars with
      | none => none
      | some vars => some { st with vars := vars, dict := none }
  | .dropExternal => some { st with vars := dropExternal st.vars }
  | .matchArgs =>
    let r := matchArgs st.args st.vars st.ifaces
    some { st with args := r.1, vars := r.2.1, ifaces := r.2.2 }
  | .matchResult =>
    let r := matchResult st.ret st.vars
    some { st with ret := r.1, vars := r.2 }

def runCleanup : List CleanStep → PState → Option PState
  | [], st => some st
  | s :: ss, st =>
    match cleanStep st s with
    | none => none
    | some st' => runCleanup ss st'

/-- `FortranProcedure._cleanup` with the attribute statements processed before the arguments are
    matched / `FortranFunction._cleanup` with the result matched after them: the orders in which
    every declared dummy argument and the result keep the attributes of the attribute statements -/
def procStepsSound : List CleanStep := [.attribs, .dropExternal, .matchArgs]
def funcStepsSound : List CleanStep := [.attribs, .dropExternal, .matchArgs, .matchResult]
/-- the order `FortranFunction._cleanup` has today (finding C18-result-attribute-statements-lost) -/
def funcStepsResultFirst : List CleanStep := [.matchResult, .attribs, .dropExternal, .matchArgs]

/-! ## what the tables must show (specification side) -/

/-- the declaration of `key` (a lower-cased name): the first of the unit's variables with that name -/
def firstVar (key : Str) (vars : List DVar) : Option DVar := (takeVar key vars).map (·.1)

end Ford.AttrStmt
