/-
  Model of `FortranEnum._cleanup` (ford/sourceform.py) - the values of the enumerators of an
  `enum, bind(c)` block - as the code is, and of its place in the life of a source file.

  `_cleanup` runs when the END of the ENUM block is read, i.e. *inside* the constructor of the
  source file and so inside the per-file `try/except` of `Project.__init__`:

      prev_val = -1
      for var in self.variables:
          if not var.initial: var.initial = prev_val + 1
          initial = remove_kind_suffix(var.initial) if isinstance(var.initial, str) else var.initial
          try: prev_val = int(initial)
          except ValueError: raise ValueError("Non-integer ('...') assigned to enumerator '...'.")

  * `remove_kind_suffix` = `KIND_SUFFIX_RE.match`, pattern `(?P<initial>.*)_(?P<kind>[a-z]\w*)`
    (IGNORECASE, not anchored at the end): the greedy `.*` stops at the *last* underscore that is
    followed by a letter - `2_int8` -> `2`, but `3_c_int` -> `3_c` (then rejected) and `10_8`
    stays (then `int` reads it as 108).
  * `int(str)` of Python: blanks stripped, an optional sign, decimal digits with single
    underscores between digits.  ASCII only here (Python also takes other Unicode digits).

  A file is registered only if every one of its ENUM blocks came through `_cleanup`
  (`fileWithEnums`): after registration no enumerator is left whose value still has to be
  worked out - and could fail - in a later stage, outside the per-file handler.
-/
import FordModel.ProjectLoop
namespace Ford.EnumValues
open Ford

def isDigitC (c : Char) : Bool := '0' ≤ c && c ≤ '9'
def isAlphaC (c : Char) : Bool := ('a' ≤ c && c ≤ 'z') || ('A' ≤ c && c ≤ 'Z')
/-- what `str.strip()` / `int` strip (ASCII) -/
def isWsC (c : Char) : Bool := c == ' ' || c == '\t' || c == '\n' || c == '\r' || c == '\x0b' || c == '\x0c'

def headIsAlpha : Str → Bool
  | c :: _ => isAlphaC c
  | [] => false

/-- the text before the last `_` that is followed by a letter (`none`: there is none) -/
def cutAtLastKind : Str → Option Str
  | [] => none
  | c :: rest =>
    match cutAtLastKind rest with
    | some pre => some (c :: pre)
    | none => if c == '_' && headIsAlpha rest then some [] else none

/-- `remove_kind_suffix(literal)` -/
def removeKindSuffix (s : Str) : Str := (cutAtLastKind s).getD s

/-- decimal digits with single underscores between digits (`prev` = the previous character was a digit) -/
def digitsVal : Str → Nat → Bool → Option Nat
  | [], acc, prev => if prev then some acc else none
  | c :: cs, acc, prev =>
    if isDigitC c then digitsVal cs (acc * 10 + (c.toNat - '0'.toNat)) true
    else if c == '_' && prev then digitsVal cs acc false
    else none

def stripWs (s : Str) : Str := ((s.dropWhile isWsC).reverse.dropWhile isWsC).reverse

/-- `int(s)` of Python for an ASCII `str` (`none` = ValueError) -/
def pyInt (s : Str) : Option Int :=
  match stripWs s with
  | '-' :: r => (digitsVal r 0 false).map (fun n => - (n : Int))
  | '+' :: r => (digitsVal r 0 false).map (fun n => (n : Int))
  | r => (digitsVal r 0 false).map (fun n => (n : Int))

/-- one enumerator: its name and the text after `=` (blanks removed by the declaration parser), if any -/
structure Enumerator where
  name : Str
  initial : Option Str
  deriving Repr, DecidableEq

/-- the value `_cleanup` works out for one enumerator, given its predecessor's (`none`: it raises) -/
def valueOf (prev : Int) (e : Enumerator) : Option Int :=
  match e.initial with
  | none => some (prev + 1)
  | some s => if s.isEmpty then some (prev + 1) else pyInt (removeKindSuffix s)

/-- the loop of `_cleanup`: the values, or the name of the enumerator it raises for -/
def cleanupFrom (prev : Int) : List Enumerator → Except Str (List Int)
  | [] => .ok []
  | e :: es =>
    match valueOf prev e with
    | none => .error e.name
    | some v =>
      match cleanupFrom v es with
      | .ok vs => .ok (v :: vs)
      | .error n => .error n

def enumCleanup (es : List Enumerator) : Except Str (List Int) := cleanupFrom (-1) es

/-- the values, when `_cleanup` comes through -/
def valuesOf (es : List Enumerator) : Option (List Int) :=
  match enumCleanup es with
  | .ok vs => some vs
  | .error _ => none

/-- the enumerator `_cleanup` raises for -/
def raisedFor (es : List Enumerator) : Option Str :=
  match enumCleanup es with
  | .ok _ => none
  | .error n => some n

def enumOk (es : List Enumerator) : Bool :=
  match enumCleanup es with
  | .ok _ => true
  | .error _ => false

/-- an enumerator whose value is given and is not an integer literal for `int` -/
def badEnumerator (e : Enumerator) : Bool :=
  match e.initial with
  | none => false
  | some s => !s.isEmpty && (pyInt (removeKindSuffix s)).isNone

/-- the constructor of a source file whose statements alone give `o` and whose ENUM blocks (all closed:
    `o` is only `registered` when every END was read) have the enumerators `enums`: the first `_cleanup`
    that raises rejects the file, inside the constructor -/
def fileWithEnums (o : Outcome) (enums : List (List Enumerator)) : Outcome :=
  match o with
  | .skipped e r => .skipped e r
  | .registered p r => if enums.all enumOk then .registered p r else .skipped .enumValue r

/-- the values of the enumerators that have no `= value` (what the probes of the translator observe) -/
def impliedOf : List Enumerator → List Int → List Int
  | e :: es, v :: vs => if (e.initial.getD []).isEmpty then v :: impliedOf es vs else impliedOf es vs
  | _, _ => []

/-- the model in the vocabulary of the generated table `Gen.enumProbes` -/
def probeObs (es : List (Str × Option Str)) : Option (List Int) :=
  match enumCleanup (es.map (fun p => ⟨p.1, p.2⟩)) with
  | .ok vs => some (impliedOf (es.map (fun p => ⟨p.1, p.2⟩)) vs)
  | .error _ => none

end Ford.EnumValues
