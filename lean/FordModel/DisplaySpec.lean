/-
  C05 - specification side: which entities the display options *select*.
  Written from the property statement and the user guide (`display`, `proc_internals`,
  `hide_undoc`), without reference to `prune`, list names or the generated tables.
-/
import FordModel.Display
namespace Ford.Display.Spec
open Ford.Display

/-- the three accessibility words -/
def isPerm : Word → Bool
  | .pub | .prot | .priv => true
  | _ => false

/-- the set of permissions a `display` list denotes: `none` = nothing -/
def denotes (ws : List Word) (p : Word) : Bool := !ws.contains .none && ws.contains p

/-- the list names `none` or at least one of the three words -/
def saysSomething (ws : List Word) : Bool :=
  ws.contains .none || ws.contains .pub || ws.contains .prot || ws.contains .priv

/-- display set in force *below* an entity whose metadata is `md`, when `outer` is in force
    around it.  `none` is ignored in source files; a list without any known word says nothing. -/
def inForce (isFile : Bool) (outer : Word → Bool) (md : List Word) : Word → Bool :=
  let md' := if isFile then md.filter (fun w => w != .none) else md
  if saysSomething md' then denotes md' else outer

/-- kinds that belong to their parent's own description and carry no accessibility:
    dummy arguments, final procedures -/
def alwaysShown : Kind → Bool
  | .arg | .finalproc => true
  | _ => false

/-- a procedure whose internals are switched off (`proc_internals`, own metadata first) -/
def procOff (cfg : Cfg) (i : Info) : Bool :=
  isProc i.kind && !(i.pint.getD cfg.procInternals)

mutual
/-- ids selected at and below a *selected* entity; `D` is the display set in force below it,
    `pproc`: its parent is a procedure (then a procedure has no page of its own and its
    description consists of its doc and dummy arguments) -/
def sel (cfg : Cfg) (pproc : Bool) (D : Word → Bool) : Ent → List Nat
  | .mk i cs => i.id ::
      (if isProc i.kind && pproc then cs.argIds
       else selKids cfg (isProc i.kind) (procOff cfg i) D cs)
/-- a child is selected iff it belongs to the parent's own description, or the parent is not a
    procedure with internals off, its permission is in the display set in force and - under
    `hide_undoc` - it is documented -/
def selKids (cfg : Cfg) (pproc off : Bool) (D : Word → Bool) : Ents → List Nat
  | .nil => []
  | .cons c rest =>
    (if alwaysShown c.info.kind || (!off && D c.info.perm && (!cfg.hideUndoc || c.info.doc))
     then sel cfg pproc (inForce false D c.info.disp) c else [])
    ++ selKids cfg pproc off D rest
end

/-- program units of a file are always selected -/
def selUnits (cfg : Cfg) (D : Word → Bool) : Ents → List Nat
  | .nil => []
  | .cons u rest => sel cfg false (inForce false D u.info.disp) u ++ selUnits cfg D rest

def selFile (cfg : Cfg) : Ent → List Nat
  | .mk i cs => i.id :: selUnits cfg (inForce true (denotes cfg.display) i.disp) cs

def selProject (cfg : Cfg) : List Ent → List Nat
  | [] => []
  | f :: fs => selFile cfg f ++ selProject cfg fs

/-! ### which entities have a page of their own -/

/-- kinds that get a page when they stand directly in a module / program -/
def pageKind : Kind → Bool
  | .subroutine | .function | .type | .generic | .iface | .absint | .modproc => true
  | _ => false

def isUnitWithKids : Kind → Bool
  | .module | .submodule | .program | .blockdata => true
  | _ => false

/-- ids (among the direct children) of page kinds -/
def pageKidsSpec : Ents → List Nat
  | .nil => []
  | .cons e rest => (if pageKind e.info.kind then [e.info.id] else []) ++ pageKidsSpec rest

/-- children of a module / program that are selected and of a page kind -/
def selPageKids (cfg : Cfg) (D : Word → Bool) : Ents → List Nat
  | .nil => []
  | .cons c rest =>
    (if pageKind c.info.kind && (D c.info.perm && (!cfg.hideUndoc || c.info.doc)) then [c.info.id] else [])
    ++ selPageKids cfg D rest

/-- every program unit has a page; modules and programs also give pages to their selected
    procedures, interfaces and types -/
def selUnitPages (cfg : Cfg) (D : Word → Bool) : Ents → List Nat
  | .nil => []
  | .cons u rest =>
    (u.info.id :: (if isUnitWithKids u.info.kind then selPageKids cfg (inForce false D u.info.disp) u.kids else []))
    ++ selUnitPages cfg D rest

def selFilePages (cfg : Cfg) : Ent → List Nat
  | .mk i cs => i.id :: selUnitPages cfg (inForce true (denotes cfg.display) i.disp) cs

def selPages (cfg : Cfg) : List Ent → List Nat
  | [] => []
  | f :: fs => selFilePages cfg f ++ selPages cfg fs

/-! ### well-formed entity trees (what the Fortran grammar / FORD's parser can produce) -/

def kidOk (pk ck : Kind) : Bool :=
  match pk with
  | .file => ck == .module || ck == .submodule || ck == .program || ck == .subroutine || ck == .function
  | .submodule =>
    ck == .variable || ck == .type || ck == .subroutine || ck == .function || ck == .modproc || ck == .generic
      || ck == .iface || ck == .absint || ck == .enum
  | .module | .program =>
    ck == .variable || ck == .type || ck == .subroutine || ck == .function || ck == .generic
      || ck == .iface || ck == .absint || ck == .enum
  | .subroutine | .function | .modproc =>
    ck == .arg || ck == .variable || ck == .type || ck == .subroutine || ck == .function
      || ck == .iface || ck == .absint || ck == .enum
  | .type => ck == .variable || ck == .boundproc || ck == .finalproc
  | .generic | .iface | .absint => ck == .arg
  | .enum => ck == .variable
  | _ => false

mutual
def wf : Ent → Bool
  | .mk i cs => isPerm i.perm && wfKids i.kind cs
def wfKids (pk : Kind) : Ents → Bool
  | .nil => true
  | .cons e rest => kidOk pk e.info.kind && wf e && wfKids pk rest
end

mutual
/-- no enumeration anywhere -/
def noEnum : Ent → Bool
  | .mk i cs => i.kind != .enum && noEnumKids cs
def noEnumKids : Ents → Bool
  | .nil => true
  | .cons e rest => noEnum e && noEnumKids rest
end

/-- a well-formed source file -/
def wfFile : Ent → Bool
  | .mk i cs => i.kind == .file && wfKids .file cs && noEnumKids cs

def wfProject : List Ent → Bool
  | [] => true
  | f :: fs => wfFile f && wfProject fs

/-- no file carries `display` metadata that says something -/
def noFileDisplay : List Ent → Bool
  | [] => true
  | f :: fs => !saysSomething (f.info.disp.filter (fun w => w != .none)) && noFileDisplay fs

/-- project-level `none` is not mixed with permission words -/
def cfgOk (cfg : Cfg) : Bool :=
  !cfg.display.contains .none || (!cfg.display.contains .pub && !cfg.display.contains .prot && !cfg.display.contains .priv)

/-! ### witness inputs used by Props/C05 -/

/-- file `display: private`, project `display: public`; module with a private and a public variable -/
def wFile : List Ent :=
  [.mk { id := 1, kind := .file, perm := .pub, doc := true, disp := [.priv], pint := none, refs := [], visible := false }
    (.cons (.mk { id := 2, kind := .module, perm := .pub, doc := true, disp := [], pint := none, refs := [], visible := false }
      (.cons (.mk { id := 3, kind := .variable, perm := .priv, doc := true, disp := [], pint := none, refs := [], visible := false } .nil)
      (.cons (.mk { id := 4, kind := .variable, perm := .pub, doc := true, disp := [], pint := none, refs := [], visible := false } .nil)
       .nil))) .nil)]

def wCfg (inh : Bool) : Cfg := { display := [.pub], procInternals := false, hideUndoc := false, fileInherits := inh }

/-- module (default private) with a private enum and enumerator, project `display: public` -/
def wEnum : List Ent :=
  [.mk { id := 1, kind := .file, perm := .pub, doc := false, disp := [], pint := none, refs := [], visible := false }
    (.cons (.mk { id := 2, kind := .module, perm := .pub, doc := true, disp := [], pint := none, refs := [], visible := false }
      (.cons (.mk { id := 3, kind := .enum, perm := .priv, doc := true, disp := [], pint := none, refs := [], visible := false }
        (.cons (.mk { id := 4, kind := .variable, perm := .priv, doc := true, disp := [], pint := none, refs := [], visible := false } .nil) .nil))
       .nil)) .nil)]

end Ford.Display.Spec
