/-
  C05 - specification side: which entities the display options *select*.
  Written from the property statement and the user guide (`display`, `proc_internals`,
  `hide_undoc`), without reference to `prune`, list names or the generated tables.
-/
import FordModel.Display
namespace Ford.Display.Spec
open Ford.Display

/-- the three accessibility words -/
def isPerm : Word → Bool
  | .pub | .prot | .priv => true
  | _ => false

/-- the set of permissions a `display` list denotes: `none` = nothing -/
def denotes (ws : List Word) (p : Word) : Bool := !ws.contains .none && ws.contains p

/-- the list names `none` or at least one of the three words -/
def saysSomething (ws : List Word) : Bool :=
  ws.contains .none || ws.contains .pub || ws.contains .prot || ws.contains .priv

/-- display set in force *below* an entity whose metadata is `md`, when `outer` is in force
    around it.  `none` is ignored in source files; a list without any known word says nothing. -/
def inForce (isFile : Bool) (outer : Word → Bool) (md : List Word) : Word → Bool :=
  let md' := if isFile then md.filter (fun w => w != .none) else md
  if saysSomething md' then denotes md' else outer

/-- kinds that belong to their parent's own description and carry no accessibility:
    dummy arguments, the function result, final procedures -/
def alwaysShown : Kind → Bool
  | .arg | .retvar | .finalproc => true
  | _ => false

/-- a child of kind `ck` of a `pk` is part of the parent's own description: the kinds above, and the
    interface bodies written inside a generic interface block (its specific procedures) -/
def ownDescr (pk ck : Kind) : Bool := alwaysShown ck || (pk == .generic && isProc ck)

/-- kinds that have no accessibility of their own, so that `display` cannot deselect them
    (`hide_undoc` and `proc_internals` can): a common block -/
def noAccess : Kind → Bool
  | .common => true
  | _ => false

/-- a procedure standing in a `pk` has no page of its own (an internal procedure, an interface body in a
    generic interface block): its description is its doc, its dummy arguments and its result -/
def summarised (pk : Kind) : Bool := isProc pk || pk == .generic

/-- a procedure whose internals are switched off (`proc_internals`, own metadata first) -/
def procOff (cfg : Cfg) (i : Info) : Bool :=
  isProc i.kind && !(i.pint.getD cfg.procInternals)

/-- a child `c` of a selected `pk` is selected iff it belongs to the parent's own description, or the
    parent is not a procedure with internals off, its permission (if its kind has one) is in the
    display set in force and - under `hide_undoc` - it is documented -/
def selects (cfg : Cfg) (pk : Kind) (off : Bool) (D : Word → Bool) (c : Info) : Bool :=
  ownDescr pk c.kind || (!off && (noAccess c.kind || D c.perm) && (!cfg.hideUndoc || c.doc))

mutual
/-- ids selected at and below a *selected* entity; `D` is the display set in force below it,
    `pk` the kind of its parent (a procedure in a procedure or in a generic interface block has no
    page of its own and its description consists of its doc, dummy arguments and result) -/
def sel (cfg : Cfg) (pk : Kind) (D : Word → Bool) : Ent → List Nat
  | .mk i cs => i.id ::
      (if isProc i.kind && summarised pk then cs.argIds
       else selKids cfg i.kind (procOff cfg i) D cs)
def selKids (cfg : Cfg) (pk : Kind) (off : Bool) (D : Word → Bool) : Ents → List Nat
  | .nil => []
  | .cons c rest =>
    (if selects cfg pk off D c.info then sel cfg pk (inForce false D c.info.disp) c else [])
    ++ selKids cfg pk off D rest
end

/-- program units of a file are always selected -/
def selUnits (cfg : Cfg) (D : Word → Bool) : Ents → List Nat
  | .nil => []
  | .cons u rest => sel cfg .file (inForce false D u.info.disp) u ++ selUnits cfg D rest

def selFile (cfg : Cfg) : Ent → List Nat
  | .mk i cs => i.id :: selUnits cfg (inForce true (denotes cfg.display) i.disp) cs

def selProject (cfg : Cfg) : List Ent → List Nat
  | [] => []
  | f :: fs => selFile cfg f ++ selProject cfg fs

/-! ### which entities have a page of their own -/

/-- kinds that get a page when they stand directly in a module / program -/
def pageKind : Kind → Bool
  | .subroutine | .function | .type | .generic | .iface | .absint | .modproc => true
  | _ => false

def isUnitWithKids : Kind → Bool
  | .module | .submodule | .program | .blockdata => true
  | _ => false

/-- ids (among the direct children) of page kinds -/
def pageKidsSpec : Ents → List Nat
  | .nil => []
  | .cons e rest => (if pageKind e.info.kind then [e.info.id] else []) ++ pageKidsSpec rest

/-- children of a module / program / block data unit that are selected and of a page kind -/
def selPageKids (cfg : Cfg) (D : Word → Bool) : Ents → List Nat
  | .nil => []
  | .cons c rest =>
    (if pageKind c.info.kind && (D c.info.perm && (!cfg.hideUndoc || c.info.doc)) then [c.info.id] else [])
    ++ selPageKids cfg D rest

/-! ### namelist pages: a namelist has a page of its own when it stands in a program or in a procedure
that has a page (module-level namelists are listed on the module's page) -/

/-- selected namelists among the children of a selected `pk` -/
def selNmlKids (cfg : Cfg) (pk : Kind) (off : Bool) (D : Word → Bool) : Ents → List Nat
  | .nil => []
  | .cons c rest =>
    (if c.info.kind == .namelist && selects cfg pk off D c.info then [c.info.id] else [])
    ++ selNmlKids cfg pk off D rest

/-- selected namelists of the selected procedures among the children of a unit `pk` -/
def selRoutineNmls (cfg : Cfg) (pk : Kind) (D : Word → Bool) : Ents → List Nat
  | .nil => []
  | .cons c rest =>
    (if isProc c.info.kind && selects cfg pk false D c.info
     then selNmlKids cfg c.info.kind (procOff cfg c.info) (inForce false D c.info.disp) c.kids else [])
    ++ selRoutineNmls cfg pk D rest

def selUnitNmls (cfg : Cfg) (D : Word → Bool) : Ents → List Nat
  | .nil => []
  | .cons u rest =>
    (let Du := inForce false D u.info.disp
     if isProc u.info.kind then selNmlKids cfg u.info.kind (procOff cfg u.info) Du u.kids
     else if u.info.kind == .program then
       selNmlKids cfg .program false Du u.kids ++ selRoutineNmls cfg .program Du u.kids
     else if u.info.kind == .module || u.info.kind == .submodule then selRoutineNmls cfg u.info.kind Du u.kids
     else [])
    ++ selUnitNmls cfg D rest

def selFileNmls (cfg : Cfg) : Ent → List Nat
  | .mk i cs => selUnitNmls cfg (inForce true (denotes cfg.display) i.disp) cs

/-- the selected namelists that have a page of their own -/
def selNmlPages (cfg : Cfg) : List Ent → List Nat
  | [] => []
  | f :: fs => selFileNmls cfg f ++ selNmlPages cfg fs

/-- every program unit has a page; modules and programs also give pages to their selected
    procedures, interfaces and types -/
def selUnitPages (cfg : Cfg) (D : Word → Bool) : Ents → List Nat
  | .nil => []
  | .cons u rest =>
    (u.info.id :: (if isUnitWithKids u.info.kind then selPageKids cfg (inForce false D u.info.disp) u.kids else []))
    ++ selUnitPages cfg D rest

def selFilePages (cfg : Cfg) : Ent → List Nat
  | .mk i cs => i.id :: selUnitPages cfg (inForce true (denotes cfg.display) i.disp) cs

def selPages (cfg : Cfg) : List Ent → List Nat
  | [] => []
  | f :: fs => selFilePages cfg f ++ selPages cfg fs

/-! ### well-formed entity trees (what the Fortran grammar / FORD's parser can produce) -/

def kidOk (pk ck : Kind) : Bool :=
  match pk with
  | .file =>
    ck == .module || ck == .submodule || ck == .program || ck == .subroutine || ck == .function
      || ck == .blockdata
  | .submodule =>
    ck == .variable || ck == .type || ck == .subroutine || ck == .function || ck == .modproc || ck == .generic
      || ck == .iface || ck == .absint || ck == .enum || ck == .namelist || ck == .common
  | .module | .program =>
    ck == .variable || ck == .type || ck == .subroutine || ck == .function || ck == .generic
      || ck == .iface || ck == .absint || ck == .enum || ck == .namelist || ck == .common
  | .subroutine | .function | .modproc =>
    ck == .arg || ck == .retvar || ck == .variable || ck == .type || ck == .subroutine || ck == .function
      || ck == .iface || ck == .absint || ck == .enum || ck == .namelist || ck == .common
  | .blockdata => ck == .variable || ck == .type || ck == .common
  | .type => ck == .variable || ck == .boundproc || ck == .finalproc
  | .generic => ck == .arg || ck == .subroutine || ck == .function
  | .iface | .absint => ck == .arg
  | .enum => ck == .variable
  | .common => ck == .variable
  | _ => false

mutual
def wf : Ent → Bool
  | .mk i cs => isPerm i.perm && wfKids i.kind cs
def wfKids (pk : Kind) : Ents → Bool
  | .nil => true
  | .cons e rest => kidOk pk e.info.kind && wf e && wfKids pk rest
end

/-! ### the positions no `prune()` reaches (known findings)

Enumerations, namelists and common blocks are kept in lists that no `prune()` filters or empties, and
so are the enumerators of an enumeration and the member variables of a common block; a namelist of a
module or submodule is described by no page template.  `outsideFindings` says that a project meets none
of these: every such entity that stands in a selected position is itself selected, and no namelist of a
module / submodule is.  (A project without enumerations, namelists and common blocks satisfies it
trivially: `noGapKinds`.) -/

def gapKind : Kind → Bool
  | .enum | .namelist | .common => true
  | _ => false

/-- a child of kind `ck` of a `pk` is in a list that no `prune()` filters although it carries docs -/
def unfiltered (pk ck : Kind) : Bool := gapKind ck || pk == .enum || pk == .common

/-- the pages that describe the namelists of an entity: procedure pages and program pages -/
def namelistDescribed (pk : Kind) : Bool := isProc pk || pk == .program

mutual
def outside (cfg : Cfg) (pk : Kind) (D : Word → Bool) : Ent → Bool
  | .mk i cs =>
    if isProc i.kind && summarised pk then true else outsideKids cfg i.kind (procOff cfg i) D cs
def outsideKids (cfg : Cfg) (pk : Kind) (off : Bool) (D : Word → Bool) : Ents → Bool
  | .nil => true
  | .cons c rest =>
    (if unfiltered pk c.info.kind
     then selects cfg pk off D c.info == (c.info.kind != .namelist || namelistDescribed pk) else true)
    && (if selects cfg pk off D c.info then outside cfg pk (inForce false D c.info.disp) c else true)
    && outsideKids cfg pk off D rest
end

def outsideUnits (cfg : Cfg) (D : Word → Bool) : Ents → Bool
  | .nil => true
  | .cons u rest => outside cfg .file (inForce false D u.info.disp) u && outsideUnits cfg D rest

def outsideFile (cfg : Cfg) : Ent → Bool
  | .mk i cs => outsideUnits cfg (inForce true (denotes cfg.display) i.disp) cs

/-- the project meets none of the never-filtered positions with an unselected entity -/
def outsideFindings (cfg : Cfg) : List Ent → Bool
  | [] => true
  | f :: fs => outsideFile cfg f && outsideFindings cfg fs

mutual
/-- no enumeration, namelist or common block anywhere -/
def noGap : Ent → Bool
  | .mk i cs => !gapKind i.kind && noGapKids cs
def noGapKids : Ents → Bool
  | .nil => true
  | .cons e rest => noGap e && noGapKids rest
end

def noGapKinds : List Ent → Bool
  | [] => true
  | f :: fs => noGap f && noGapKinds fs

mutual
/-- no enumeration anywhere -/
def noEnum : Ent → Bool
  | .mk i cs => i.kind != .enum && noEnumKids cs
def noEnumKids : Ents → Bool
  | .nil => true
  | .cons e rest => noEnum e && noEnumKids rest
end

/-- a well-formed source file -/
def wfFile : Ent → Bool
  | .mk i cs => i.kind == .file && wfKids .file cs

def wfProject : List Ent → Bool
  | [] => true
  | f :: fs => wfFile f && wfProject fs

/-- no file carries `display` metadata that says something -/
def noFileDisplay : List Ent → Bool
  | [] => true
  | f :: fs => !saysSomething (f.info.disp.filter (fun w => w != .none)) && noFileDisplay fs

/-- project-level `none` is not mixed with permission words -/
def cfgOk (cfg : Cfg) : Bool :=
  !cfg.display.contains .none || (!cfg.display.contains .pub && !cfg.display.contains .prot && !cfg.display.contains .priv)

/-! ### witness inputs used by Props/C05 -/

/-- file `display: private`, project `display: public`; module with a private and a public variable -/
def wFile : List Ent :=
  [.mk { id := 1, kind := .file, perm := .pub, doc := true, disp := [.priv], pint := none, refs := [], visible := false }
    (.cons (.mk { id := 2, kind := .module, perm := .pub, doc := true, disp := [], pint := none, refs := [], visible := false }
      (.cons (.mk { id := 3, kind := .variable, perm := .priv, doc := true, disp := [], pint := none, refs := [], visible := false } .nil)
      (.cons (.mk { id := 4, kind := .variable, perm := .pub, doc := true, disp := [], pint := none, refs := [], visible := false } .nil)
       .nil))) .nil)]

def wCfg (inh : Bool) : Cfg := { display := [.pub], procInternals := false, hideUndoc := false, fileInherits := inh }

/-- module (default private) with a private enum and enumerator, project `display: public` -/
def wEnum : List Ent :=
  [.mk { id := 1, kind := .file, perm := .pub, doc := false, disp := [], pint := none, refs := [], visible := false }
    (.cons (.mk { id := 2, kind := .module, perm := .pub, doc := true, disp := [], pint := none, refs := [], visible := false }
      (.cons (.mk { id := 3, kind := .enum, perm := .priv, doc := true, disp := [], pint := none, refs := [], visible := false }
        (.cons (.mk { id := 4, kind := .variable, perm := .priv, doc := true, disp := [], pint := none, refs := [], visible := false } .nil) .nil))
       .nil)) .nil)]

private def wi (id : Nat) (k : Kind) (p : Word) (refs : List Nat := []) (ext : Option Nat := none)
    (disp : List Word := []) : Info :=
  { id := id, kind := k, perm := p, doc := true, disp := disp, pint := none, refs := refs, visible := false, ext := ext }

/-- module (default private) with the public subroutine 3: local variable 4 and `namelist /nl5/ v4`
    (both private, like everything declared in a procedure of that module) -/
def wNamelist : List Ent :=
  [.mk (wi 1 .file .pub)
    (.cons (.mk (wi 2 .module .pub)
      (.cons (.mk (wi 3 .subroutine .pub)
        (.cons (.mk (wi 4 .variable .priv) .nil)
        (.cons (.mk (wi 5 .namelist .priv [4]) .nil) .nil))) .nil)) .nil)]

/-- module with the public variable 3 and the public `namelist /nl4/ v3` -/
def wModuleNamelist : List Ent :=
  [.mk (wi 1 .file .pub)
    (.cons (.mk (wi 2 .module .pub)
      (.cons (.mk (wi 3 .variable .pub) .nil)
      (.cons (.mk (wi 4 .namelist .pub [3]) .nil) .nil))) .nil)]

/-- module (default private) with `common /cb3/ v4`, `v4` private -/
def wCommon : List Ent :=
  [.mk (wi 1 .file .pub)
    (.cons (.mk (wi 2 .module .pub)
      (.cons (.mk (wi 3 .common .pub) (.cons (.mk (wi 4 .variable .priv) .nil) .nil)) .nil)) .nil)]

/-- module (default private) with the private type 3 (public binding 4 of the subroutine 7) and the
    public type 5 that extends 3 (component 6) -/
def wInheritedBinding : List Ent :=
  [.mk (wi 1 .file .pub)
    (.cons (.mk (wi 2 .module .pub)
      (.cons (.mk (wi 3 .type .priv) (.cons (.mk (wi 4 .boundproc .pub [7]) .nil) .nil))
      (.cons (.mk (wi 5 .type .pub [] (some 3)) (.cons (.mk (wi 6 .variable .pub) .nil) .nil))
      (.cons (.mk (wi 7 .subroutine .priv) (.cons (.mk (wi 8 .arg .pub) .nil) .nil)) .nil)))) .nil)]

/-- block data unit 2 with the private type 3 (component 4) and the public type 5 that extends it -/
def wBlockDataExtends : List Ent :=
  [.mk (wi 1 .file .pub)
    (.cons (.mk (wi 2 .blockdata .pub)
      (.cons (.mk (wi 3 .type .priv) (.cons (.mk (wi 4 .variable .pub) .nil) .nil))
      (.cons (.mk (wi 5 .type .pub [] (some 3)) .nil) .nil))) .nil)]

/-- `display: public`, internals of procedures shown -/
def wCfgInt : Cfg := { display := [.pub], procInternals := true, hideUndoc := false, fileInherits := true }

/-- a project with the kinds of round 3 that meets none of the known-finding positions: module 2 with the
    type 3 (public component 4, private component 5, binding 6 of the function 14), the type 7 that extends 3
    (own component 8), the generic interface 9 with the interface body 10 (dummy argument 11, result 12) and the
    module procedure 14 (dummy argument 15, declared result 16); the program 17 with variable 18 and
    `namelist /nl19/ v18`; the block data unit 20 with variable 21 (public), variable 22 (private) and type 23
    (component 24) -/
def wRound3 : List Ent :=
  [.mk (wi 1 .file .pub)
    (.cons (.mk (wi 2 .module .pub)
      (.cons (.mk (wi 3 .type .pub)
        (.cons (.mk (wi 4 .variable .pub) .nil)
        (.cons (.mk (wi 5 .variable .priv) .nil)
        (.cons (.mk (wi 6 .boundproc .pub [14]) .nil) .nil))))
      (.cons (.mk (wi 7 .type .pub [] (some 3)) (.cons (.mk (wi 8 .variable .pub) .nil) .nil))
      (.cons (.mk (wi 9 .generic .pub [14])
        (.cons (.mk (wi 10 .function .pub)
          (.cons (.mk (wi 11 .arg .pub) .nil) (.cons (.mk (wi 12 .retvar .pub) .nil) .nil))) .nil))
      (.cons (.mk (wi 14 .function .priv)
        (.cons (.mk (wi 15 .arg .pub) .nil) (.cons (.mk (wi 16 .retvar .pub) .nil) .nil))) .nil)))))
    (.cons (.mk (wi 17 .program .pub)
      (.cons (.mk (wi 18 .variable .pub) .nil) (.cons (.mk (wi 19 .namelist .pub [18]) .nil) .nil)))
    (.cons (.mk (wi 20 .blockdata .pub)
      (.cons (.mk (wi 21 .variable .pub) .nil)
      (.cons (.mk (wi 22 .variable .priv) .nil)
      (.cons (.mk (wi 23 .type .pub) (.cons (.mk (wi 24 .variable .pub) .nil) .nil)) .nil)))) .nil)))]

end Ford.Display.Spec
