/-
  C09 — the "Read more" link that `FortranBase.markdown` appends to an entity's summary.

      if self.meta.summary is not None:                      # explicit `summary:` metadata
          self.meta.summary = md.convert(...)
      elif paragraph := PARA_CAPTURE_RE.search(self.doc):    # first <p>..</p> of the documentation
          self.meta.summary = paragraph.group() if self.get_url() else self.doc
      else:
          self.meta.summary = ""
      if self.meta.summary.strip() != self.doc.strip():
          self.meta.summary += f'<a href="../{self.get_url()}" ...>Read more…</a>'

  The summary is printed on list pages and on the pages of the entity's host (all one
  directory below the root), so the link `../<url>` resolves when the entity has a URL;
  for an entity without one (`get_url()` is `None`: a derived type or interface block
  local to a procedure, the components of such a type) the f-string prints `../None`.
  The only thing that keeps the link away from such entities is the rule that their
  summary *is* their documentation.  The rule and the guard of the link are regenerated
  from the source (Generated/C09.lean).  Import-free (driver).
-/
import FordModel.Basic.Chars
import FordModel.Path
namespace Ford.ReadMore
open Ford.Path

/-- the value assigned to `meta.summary` in the `PARA_CAPTURE_RE` branch -/
inductive CutRule where
  | cutIfUrl    -- `paragraph.group() if self.get_url() else self.doc`
  | cutAlways   -- `paragraph.group()`
  deriving DecidableEq, Repr

structure Tables where
  rule : CutRule
  /-- is the `+=` of the link also guarded by `self.get_url()`? (as is: no) -/
  linkNeedsUrl : Bool
  deriving DecidableEq, Repr

/-- the code as it is at the time of writing -/
def asIs : Tables := { rule := .cutIfUrl, linkNeedsUrl := false }

/-- `meta.summary` before the link is appended.  `explicit`: the converted `summary:` metadata when
    the doc comment has it; `para`: the first `<p>…</p>` of the converted documentation, if any. -/
def summaryOf (T : Tables) (hasUrl : Bool) (explicit para : Option Str) (doc : Str) : Str :=
  match explicit with
  | some s => s
  | none =>
    match para with
    | some p => (match T.rule with
                 | .cutIfUrl => if hasUrl then p else doc
                 | .cutAlways => p)
    | none => []

/-- is the "Read more" link appended? -/
def readMore (T : Tables) (hasUrl : Bool) (explicit para : Option Str) (doc : Str) : Bool :=
  (strip (summaryOf T hasUrl explicit para doc) != strip doc) && (!T.linkNeedsUrl || hasUrl)

/-- the path part of its `href`: `../{self.get_url()}` (Python prints `None` for no URL) -/
def readMoreHref (url : Option (List Seg)) : List Seg :=
  up :: (url.getD [['N', 'o', 'n', 'e']])

end Ford.ReadMore
