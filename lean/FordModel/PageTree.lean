/-
  C17 - model of FORD's static-page mechanism *as the code is*:
    ford/pagetree.py   PageNode, get_page_tree
    ford/output.py     PagetreePage (output path, mkdir, copy_subdir / file copies)
    ford/_markdown.py  AliasPreprocessor (|url| |media| |page|), RelativeLinksTreeProcessor
    ford/output.py     relative_url (the `relurl` filter of info_page.html)
  Paths are lists of segments; `os.path.relpath` / `Path.resolve` are the
  segment-list functions `relpath` / `norm`.  The constants (alias table,
  "page" directory segments, "index.md", ".md", skip characters) come from
  `Generated/C17.lean`, which the translator rewrites from the source on every run.
-/
import FordModel.Basic.Chars
import FordModel.Generated.C17
namespace Ford.PT
open Ford
open Ford.Gen.C17

abbrev PathS := List Str

/-! ## Python `sorted()` on `str` : code-point lexicographic order -/

def strLe : Str → Str → Bool
  | [], _ => true
  | _ :: _, [] => false
  | a :: as, b :: bs =>
    if a.toNat < b.toNat then true
    else if b.toNat < a.toNat then false
    else strLe as bs

def insertS (x : Str) : List Str → List Str
  | [] => [x]
  | y :: ys => if strLe x y then x :: y :: ys else y :: insertS x ys

/-- `sorted(os.listdir(topdir))` -/
def sortNames : List Str → List Str
  | [] => []
  | x :: xs => insertS x (sortNames xs)

/-- `list(OrderedDict.fromkeys(l))`: first occurrences, in order -/
def dedup : List Str → List Str
  | [] => []
  | x :: xs => x :: (dedup xs).filter (fun y => y != x)

/-- the two `continue` tests on `name[0]` / `name[-1]` -/
def skipName (n : Str) : Bool :=
  (match n.head? with | some c => skipFirst.contains c | none => false) ||
  (match n.getLast? with | some c => skipLast.contains c | none => false)

/-- `mergedfilelist` of `get_page_tree` -/
def mergedList (ordered names : List Str) : List Str :=
  let filelist := (sortNames names).erase indexName
  let ord := ordered.filter (fun x => x != indexName)
  if ord.isEmpty then filelist else dedup (ord ++ filelist)

/-! ## pathlib name arithmetic -/

/-- index of the last `.` -/
def rfindDot (s : Str) : Option Nat :=
  let rec go : Str → Nat → Option Nat → Option Nat
    | [], _, r => r
    | c :: cs, i, r => go cs (i + 1) (if c == '.' then some i else r)
  go s 0 none

/-- length of `PurePath(name).suffix` -/
def suffixLen (s : Str) : Nat :=
  match rfindDot s with
  | some i => if 0 < i ∧ i + 1 < s.length then s.length - i else 0
  | none => 0

def pySuffix (s : Str) : Str := s.drop (s.length - suffixLen s)
def pyStem (s : Str) : Str := s.take (s.length - suffixLen s)

/-- `filename.suffix == ".md"` -/
def isMd (n : Str) : Bool := pySuffix n == mdSuffix

/-- `Path(path.stem).with_suffix(".html")` -/
def htmlName (n : Str) : Str := pyStem (pyStem n) ++ ".html".toList

/-! ## paths -/

def dotdot : Str := ['.', '.']

def commonLen : PathS → PathS → Nat
  | a :: as, b :: bs => if a == b then commonLen as bs + 1 else 0
  | _, _ => 0

/-- `os.path.relpath(t, start)` on normalised absolute segment lists -/
def relpath (t start : PathS) : PathS :=
  let c := commonLen t start
  List.replicate (start.length - c) dotdot ++ t.drop c

/-- `normpath` / `Path.resolve()` of an absolute path: `acc` is the reversed stack -/
def normAux (acc : PathS) : PathS → PathS
  | [] => acc.reverse
  | s :: rest =>
    if s == dotdot then normAux acc.tail rest
    else if s == ['.'] || s == [] then normAux acc rest
    else normAux (s :: acc) rest

def norm (p : PathS) : PathS := normAux [] p

/-- what a browser does with a relative href on a page that lives in directory `cur` -/
def resolveFrom (cur rel : PathS) : PathS := norm (cur ++ rel)

def splitSlash (s : Str) : List Str :=
  let rec go : Str → Str → List Str
    | [], cur => [cur.reverse]
    | c :: cs, cur => if c == '/' then cur.reverse :: go cs [] else go cs (c :: cur)
  go s []

def showPath (p : PathS) : Str := if p.isEmpty then ['.'] else joinSep '/' p
def showAbs (p : PathS) : Str := '/' :: joinSep '/' p

/-- `base in path.parents` -/
def properPrefix : PathS → PathS → Bool
  | [], _ :: _ => true
  | [], [] => false
  | _ :: _, [] => false
  | a :: as, b :: bs => a == b && properPrefix as bs

/-- the decision of `_fix_attrib` on the resolved target `full`: rewritten to `relpath(full, cur)`
    iff `base` is a proper ancestor of it -/
def fixSegs (base cur full : PathS) : Option PathS :=
  if properPrefix base full then some (relpath full cur) else none

/-- `RelativeLinksTreeProcessor._fix_attrib`: `base` = resolved `md.base_url`,
    `cur` = `md.current_path`, `cwd` = process working directory, `href` the attribute text. -/
def fixAttrib (base cur cwd : PathS) (href : Str) : Str :=
  let full := if href.head? == some '/' then norm (splitSlash href) else norm (cwd ++ splitSlash href)
  match fixSegs base cur full with
  | some r => showPath r
  | none => href

/-! ## page sources -/

structure Link where
  alias : Str   -- `""` : no alias; otherwise the text between the pipes
  rest : Str    -- the text after the alias (or the whole href)

structure Meta where
  title : Option Str
  ordered : List Str
  copySub : List Str
  links : List Link

inductive Entry where
  | dir (name : Str) (children : List Entry)
  | file (name : Str) (m : Meta)

def Entry.name : Entry → Str
  | .dir n _ => n
  | .file n _ => n

def Entry.isDir : Entry → Bool
  | .dir _ _ => true
  | .file _ _ => false

def names (es : List Entry) : List Str := es.map Entry.name

/-- recursive listing of everything below an entry (`shutil.copytree`), paths relative to
    the entry's parent; `true` marks a directory -/
def listAll : Entry → List (PathS × Bool)
  | .file n _ => [([n], false)]
  | .dir n cs => ([n], true) :: (listAllL cs).map (fun p => (n :: p.1, p.2))
where listAllL : List Entry → List (PathS × Bool)
  | [] => []
  | e :: es => listAll e ++ listAllL es

def findEntry (n : Str) : List Entry → Option Entry
  | [] => none
  | e :: es => if e.name == n then some e else findEntry n es

/-- `PageNode`: `loc` = location, `file` = html file name, `src` = source file / directory name,
    `hier` = locations and titles of `hierarchy` (all of them index pages),
    `copies` = for every `copy_subdir` item the listing of the source directory if it is one. -/
inductive Node where
  | mk (loc : PathS) (file : Str) (src : Str) (title : Str) (hier : List (PathS × Str))
       (copySub : List Str) (copies : List (Str × Option (List (PathS × Bool))))
       (links : List Link) (files : List Str) (subs : List Node)

def Node.loc : Node → PathS | .mk l _ _ _ _ _ _ _ _ _ => l
def Node.file : Node → Str | .mk _ f _ _ _ _ _ _ _ _ => f
def Node.src : Node → Str | .mk _ _ s _ _ _ _ _ _ _ => s
def Node.title : Node → Str | .mk _ _ _ t _ _ _ _ _ _ => t
def Node.hier : Node → List (PathS × Str) | .mk _ _ _ _ h _ _ _ _ _ => h
def Node.copySub : Node → List Str | .mk _ _ _ _ _ c _ _ _ _ => c
def Node.copies : Node → List (Str × Option (List (PathS × Bool))) | .mk _ _ _ _ _ _ c _ _ _ => c
def Node.links : Node → List Link | .mk _ _ _ _ _ _ _ l _ _ => l
def Node.files : Node → List Str | .mk _ _ _ _ _ _ _ _ f _ => f
def Node.subs : Node → List Node | .mk _ _ _ _ _ _ _ _ _ s => s
/-- `PageNode.path` -/
def Node.path (n : Node) : PathS := n.loc ++ [n.file]

/-- what one directory entry contributes to the node of its directory -/
inductive Res where
  | page (n : Node)
  | nothing            -- untitled page, directory without (titled) index.md
  | file               -- `node.files.append(name)`
  | abort (p : PathS)  -- `raise ValueError("Requested page file ... does not exist")`

inductive Walk where
  | ok (subs : List Node) (files : List Str)
  | abort (p : PathS)

def Walk.consSub (n : Node) : Walk → Walk
  | .ok s f => .ok (n :: s) f
  | .abort p => .abort p

def Walk.consFile (x : Str) : Walk → Walk
  | .ok s f => .ok s (x :: f)
  | .abort p => .abort p

def lookupRes (n : Str) : List (Str × Bool × Res) → Option (Bool × Res)
  | [] => none
  | (k, v) :: r => if k == n then some v else lookupRes n r

/-- Which variant of the `copy_subdir` recursion test is modelled.
    `asIs`: `if parent and name in parent.copy_subdir` where `parent` is the node of the
    directory *above* the one being listed.  `ignored`: directories are never skipped
    (the reading of the property statement: a directory with an index.md becomes a sub-tree). -/
inductive CopyCheck where
  | asIs | ignored
deriving DecidableEq

/-- `MissingOrdered.raises`: the code as it is; `.skips`: candidate repair (warn and continue) -/
inductive MissingOrdered where
  | raises | skips
deriving DecidableEq

structure Variant where
  cc : CopyCheck
  mo : MissingOrdered

def Variant.asIs : Variant := ⟨.asIs, .raises⟩

def pcContains (v : Variant) (pc : Option (List Str)) (n : Str) : Bool :=
  match v.cc, pc with
  | .asIs, some l => l.contains n
  | _, _ => false

/-- the `for name in mergedfilelist` loop; `rs` = what each entry of the directory would contribute -/
def walk (v : Variant) (pc : Option (List Str)) (loc : PathS) (rs : List (Str × Bool × Res)) :
    List Str → Walk
  | [] => .ok [] []
  | n :: ns =>
    if skipName n then walk v pc loc rs ns
    else match lookupRes n rs with
      | none =>
        (match v.mo with
         | .raises => .abort (loc ++ [n])
         | .skips => walk v pc loc rs ns)
      | some (isDir, r) =>
        if isDir && pcContains v pc n then walk v pc loc rs ns
        else match r with
          | .abort p => .abort p
          | .nothing => walk v pc loc rs ns
          | .file => (walk v pc loc rs ns).consFile n
          | .page nd => (walk v pc loc rs ns).consSub nd

/-- index.md of a directory: its metadata and title if it is a titled regular file -/
def indexMeta (cs : List Entry) : Option (Meta × Str) :=
  match findEntry indexName cs with
  | some (.file _ m) => (match m.title with | some t => some (m, t) | none => none)
  | _ => none

def copyListing (sibs : List Entry) (item : Str) : Str × Option (List (PathS × Bool)) :=
  match findEntry item sibs with
  | some (.dir n cs) => (item, some (listAll (.dir n cs)))
  | _ => (item, none)

def ordNoIndex (m : Meta) : List Str := m.ordered.filter (fun x => x != indexName)

mutual
/-- contribution of entry `e` of the directory at `loc` whose index node has `copy_subdir = own`
    and whose sub-pages have hierarchy `hier`; `sibs` = all entries of that directory -/
def entryRes (v : Variant) (own : List Str) (hier : List (PathS × Str)) (loc : PathS)
    (sibs : List Entry) : Entry → Res
  | .file n m =>
    if isMd n then
      match m.title with
      | none => .nothing
      | some t => .page (.mk loc (htmlName n) n t hier m.copySub (m.copySub.map (copyListing sibs)) m.links [] [])
    else .file
  | .dir n cs =>
    match indexMeta cs with
    | none => .nothing
    | some (m, t) =>
      match walk v (some own) (loc ++ [n]) (entriesRes v m.copySub (hier ++ [(loc ++ [n], t)]) (loc ++ [n]) cs cs)
              (mergedList m.ordered (names cs)) with
      | .abort p => .abort p
      | .ok subs files =>
        .page (.mk (loc ++ [n]) (htmlName indexName) n t hier m.copySub (m.copySub.map (copyListing cs)) m.links files subs)

def entriesRes (v : Variant) (own : List Str) (hier : List (PathS × Str)) (loc : PathS)
    (sibs : List Entry) : List Entry → List (Str × Bool × Res)
  | [] => []
  | e :: es => (e.name, e.isDir, entryRes v own hier loc sibs e) :: entriesRes v own hier loc sibs es
end

/-- `get_page_tree(page_dir, ...)` with `parent = None` -/
def getPageTree (v : Variant) (cs : List Entry) : Res :=
  match indexMeta cs with
  | none => .nothing
  | some (m, t) =>
    match walk v none [] (entriesRes v m.copySub [([], t)] [] cs cs) (mergedList m.ordered (names cs)) with
    | .abort p => .abort p
    | .ok subs files =>
      .page (.mk [] (htmlName indexName) [] t [] m.copySub (m.copySub.map (copyListing cs)) m.links files subs)

/-- `PageNode.__iter__`: the node, then its sub-pages, depth first -/
def preorder : Node → List Node
  | .mk l f s t h c cp lk fs subs => .mk l f s t h c cp lk fs subs :: preorderL subs
where preorderL : List Node → List Node
  | [] => []
  | n :: ns => preorder n ++ preorderL ns

/-! ## output (`PagetreePage.writeout` for every node of the tree, in `__iter__` order) -/

/-- one node: write the page, `copytree` every `copy_subdir` item whose source is a directory
    and whose destination does not exist yet, copy the files.  State = paths that exist
    below `<output>/page` (`true` = directory). -/
def copyItems (loc : PathS) : List (Str × Option (List (PathS × Bool))) → List (PathS × Bool) → List (PathS × Bool)
  | [], st => st
  | (_, none) :: r, st => copyItems loc r st
  | (item, some listing) :: r, st =>
    if st.any (fun p => p.1 == loc ++ [item]) then copyItems loc r st
    else copyItems loc r (st ++ listing.map (fun p => (loc ++ p.1, p.2)))

def addNew (st : List (PathS × Bool)) (p : PathS × Bool) : List (PathS × Bool) :=
  if st.any (fun q => q.1 == p.1) then st else st ++ [p]

def writeNode (st : List (PathS × Bool)) (n : Node) : List (PathS × Bool) :=
  let st1 := if n.file == htmlName indexName && !n.loc.isEmpty then addNew st (n.loc, true) else st
  let st2 := addNew st1 (n.path, false)
  let st3 := copyItems n.loc n.copies st2
  n.files.foldl (fun s f => addNew s (n.loc ++ [f], false)) st3

def outputs (top : Node) : List (PathS × Bool) := (preorder top).foldl writeNode []

/-! ## links -/

def aliasText (base : PathS) (a : Str) : Option Str :=
  match aliasTable.lookup a with
  | some segs => some (showAbs (base ++ segs))
  | none => none

/-- href text after `AliasPreprocessor` -/
def linkHref (base : PathS) (l : Link) : Str :=
  if l.alias.isEmpty then l.rest
  else match aliasText base l.alias with
    | some t => t ++ l.rest
    | none => ('|' :: l.alias) ++ ('|' :: l.rest)

/-- the alias dictionary that `ford.main` hands to `MetaMarkdown` for the predefined aliases:
    `str(url_path / <segments>)` for every entry of the table -/
def mainAliases (base : PathS) : List (Str × Str) :=
  aliasTable.map (fun p => (p.1, showAbs (base ++ p.2)))

/-- directory of the output file of a page = `md.current_path` during its conversion -/
def pageDir (base : PathS) (n : Node) : PathS := base ++ convPathSeg ++ n.loc
def outDir (base : PathS) (n : Node) : PathS := base ++ pageDirSeg ++ n.loc
/-- `PagetreePage.outfile` -/
def outFile (base : PathS) (n : Node) : PathS := base ++ pageDirSeg ++ n.path
/-- `PageNode.url` -/
def nodeUrl (base : PathS) (n : Node) : PathS := base ++ nodeUrlSeg ++ n.path

/-- hrefs in the converted body of page `n` -/
def bodyHrefs (base cwd : PathS) (n : Node) : List Str :=
  n.links.map (fun l => fixAttrib base (pageDir base n) cwd (linkHref base l))

/-- `url | relurl(page_url)` for the page `q` being rendered -/
def relurl (base : PathS) (q : Node) (url : PathS) : Str := showPath (relpath url (outDir base q))

/-- the sidebar of info_page.html: the top page, then all other pages depth first;
    only rendered when the top page has sub-pages -/
def navHrefs (base : PathS) (top q : Node) : List Str :=
  if top.subs.isEmpty then [] else (preorder top).map (fun p => relurl base q (nodeUrl base p))

/-- the breadcrumb: one link per element of `hierarchy` -/
def crumbHrefs (base : PathS) (q : Node) : List Str :=
  q.hier.map (fun h => relurl base q (base ++ nodeUrlSeg ++ h.1 ++ [htmlName indexName]))

/-! ## the encoding handed down the walk

`get_page_tree` and `PageNode` take the project's `encoding` as a per-call argument; every file is
decoded with whatever value arrives at the `PageNode(...)` call that reads it.  The page directory
on disk is a tree of `RawEntry`: a file carries the encoding its bytes were written in (`[]` = pure
ASCII, readable under every encoding FORD is used with) and the metadata it holds when decoded
correctly.  Reading a non-ASCII file with another encoding raises (`UnicodeDecodeError`, a
`ValueError`: caught by the same handlers as "no title") - exact for the combinations the harness
generates (bytes that are invalid UTF-8 read as UTF-8), an over-approximation otherwise (mojibake).
The call sites (which expression each call passes for which parameter) are the generated tables. -/

/-- `(pt! "abc")` is the literal `['a', 'b', 'c']` -/
macro "pt! " s:str : term => do
  let elems := s.getString.toList.toArray.map fun c => Lean.Syntax.mkCharLit c
  `([$elems,*])

inductive RawEntry where
  | dir (name : Str) (children : List RawEntry)
  | file (name : Str) (wenc : Str) (m : Meta)

/-- the calls by which one level of the walk hands its arguments to the next -/
structure CallSites where
  gptParams : List (Str × Str)
  pageNodeParams : List (Str × Str)
  recCall : List (Str × Str)
  indexNodeCall : List (Str × Str)
  subNodeCall : List (Str × Str)
  readTextArg : Str

/-- the call sites of the source under test -/
def CallSites.gen : CallSites :=
  ⟨Gen.C17.gptParams, Gen.C17.pageNodeParams, Gen.C17.recCall, Gen.C17.indexNodeCall,
   Gen.C17.subNodeCall, Gen.C17.readTextArg⟩

/-- the parameter that carries the encoding (same name in `get_page_tree` and `PageNode.__init__`) -/
def encParam : Str := pt! "encoding"

/-- value of a (string-valued) argument expression where the caller's own parameters have the values
    `env`: `'text` is a literal, a name is looked up, anything else is unknown (`[]`) -/
def evalExpr (env : List (Str × Str)) : Str → Str
  | '\'' :: lit => lit
  | ex => (env.lookup ex).getD []

/-- value that parameter `p` of a callee (parameter list `params`) receives from the call `call` -/
def argValue (params call env : List (Str × Str)) (p : Str) : Str :=
  match call.lookup p with
  | some ex => evalExpr env ex
  | none => (match params.lookup p with | some d => evalExpr [] d | none => [])

/-- `encoding` of the recursive call when the current call runs with `enc` -/
def CallSites.encRec (c : CallSites) (enc : Str) : Str :=
  argValue c.gptParams c.recCall [(encParam, enc)] encParam

/-- the encoding `read_text` gets inside a `PageNode(...)` made by `call` -/
def CallSites.encNode (c : CallSites) (call : List (Str × Str)) (enc : Str) : Str :=
  evalExpr [(encParam, argValue c.pageNodeParams call [(encParam, enc)] encParam)] c.readTextArg

def CallSites.encIndex (c : CallSites) (enc : Str) : Str := c.encNode c.indexNodeCall enc
def CallSites.encSub (c : CallSites) (enc : Str) : Str := c.encNode c.subNodeCall enc

/-- `Path(path).read_text(enc)` succeeds -/
def readable (enc wenc : Str) : Bool := wenc.isEmpty || wenc == enc

/-- what `PageNode` sees of a file: its metadata, or (decoding raised) nothing that has a title -/
def readMeta (enc wenc : Str) (m : Meta) : Meta :=
  if readable enc wenc then m else { m with title := none }

mutual
/-- the directory as the walk reads it when the call for the enclosing directory runs with `enc` -/
def decodeE (c : CallSites) (enc : Str) : RawEntry → Entry
  | .file n w m => .file n (readMeta (if n == indexName then c.encIndex enc else c.encSub enc) w m)
  | .dir n cs => .dir n (decodeL c (c.encRec enc) cs)
def decodeL (c : CallSites) (enc : Str) : List RawEntry → List Entry
  | [] => []
  | e :: es => decodeE c enc e :: decodeL c enc es
end

/-- `get_page_tree(page_dir, ..., encoding=enc)` on the directory as it is on disk -/
def getPageTreeRaw (c : CallSites) (v : Variant) (enc : Str) (cs : List RawEntry) : Res :=
  getPageTree v (decodeL c enc cs)

/-! ## the project's `copy_subdir` handed down the walk

`PageNode.__init__`: `self.copy_subdir = self.meta.copy_subdir or proj_copy_subdir` - the option of the file
itself first, otherwise whatever arrives as `proj_copy_subdir` at the `PageNode(...)` call that makes the node.
`ford.main` starts the walk with the project setting; what arrives further down is decided by the call sites
(the generated tables): each level hands a list to the two `PageNode(...)` calls and to the recursive call. -/

/-- the parameter that carries the project's list (same name in `get_page_tree` and `PageNode.__init__`) -/
def copyParam : Str := pt! "proj_copy_subdir"
/-- how the translator names "the `copy_subdir` of the enclosing call's own index node" -/
def nodeCopyExpr : Str := pt! "<node>.copy_subdir"

/-- `self.meta.copy_subdir or proj_copy_subdir` -/
def effCopy (pcs own : List Str) : List Str := if own.isEmpty then pcs else own

/-- value of a list-valued argument expression inside a `get_page_tree` call that received `pcs` and whose
    index node has the effective list `nodeCopy`; anything else is unknown (`[]`) -/
def evalCopyExpr (pcs nodeCopy : List Str) (ex : Str) : List Str :=
  if ex == copyParam then pcs else if ex == nodeCopyExpr then nodeCopy else []

/-- what `call` passes for `proj_copy_subdir` (the parameter has no default in either callee) -/
def copyArg (call : List (Str × Str)) (pcs nodeCopy : List Str) : List Str :=
  match call.lookup copyParam with
  | some ex => evalCopyExpr pcs nodeCopy ex
  | none => []

def CallSites.copyRec (c : CallSites) (pcs nodeCopy : List Str) : List Str := copyArg c.recCall pcs nodeCopy
/-- (the index node does not exist yet when its own `PageNode(...)` call is made) -/
def CallSites.copyIndex (c : CallSites) (pcs : List Str) : List Str := copyArg c.indexNodeCall pcs []
def CallSites.copySubNode (c : CallSites) (pcs nodeCopy : List Str) : List Str := copyArg c.subNodeCall pcs nodeCopy

/-- the `copy_subdir` option written in the index.md of a directory -/
def ownIndexCopy (cs : List Entry) : List Str :=
  match findEntry indexName cs with
  | some (.file _ m) => m.copySub
  | _ => []

mutual
/-- the directory with every page's `copy_subdir` replaced by the effective one, when the `get_page_tree`
    call for the enclosing directory received `pcs` and its index node has the effective list `nodeCopy` -/
def projE (c : CallSites) (pcs nodeCopy : List Str) : Entry → Entry
  | .file n m =>
    .file n { m with copySub := effCopy (if n == indexName then c.copyIndex pcs else c.copySubNode pcs nodeCopy) m.copySub }
  | .dir n cs =>
    .dir n (projL c (c.copyRec pcs nodeCopy)
              (effCopy (c.copyIndex (c.copyRec pcs nodeCopy)) (ownIndexCopy cs)) cs)
def projL (c : CallSites) (pcs nodeCopy : List Str) : List Entry → List Entry
  | [] => []
  | e :: es => projE c pcs nodeCopy e :: projL c pcs nodeCopy es
end

/-- the page directory as the walk started with the project list `pcs` sees the `copy_subdir` of its pages -/
def projTop (c : CallSites) (pcs : List Str) (cs : List Entry) : List Entry :=
  projL c pcs (effCopy (c.copyIndex pcs) (ownIndexCopy cs)) cs

/-- `get_page_tree(page_dir, pcs, ..., encoding=enc)` on the directory as it is on disk -/
def getPageTreeProj (c : CallSites) (v : Variant) (enc : Str) (pcs : List Str) (cs : List RawEntry) : Res :=
  getPageTree v (projTop c pcs (decodeL c enc cs))

/-! ## the rest of the generated documentation that the pages point into

`Documentation.writeout` copies the project's `media_dir` (whatever it is called) to
`<output>/<mediaDestSeg>`; the `|media|` alias must name that place.  The fixed navigation bar of
every page (`base.html`) starts with a link to the top static page. -/

/-- `copytree(self.data["media_dir"], out_dir / "media")`: what exists below `<output>` afterwards
    (`none`: the project has no `media_dir`, `self.data` has no such key, nothing is copied) -/
def mediaOutputs : Option (List Entry) → List (PathS × Bool)
  | none => []
  | some es => (mediaDestSeg, true) :: (listAll.listAllL es).map (fun p => (mediaDestSeg ++ p.1, p.2))

/-- `{{ pages.url | relurl(page_url) }}` in the navigation bar of page `q` -/
def topNavHref (base : PathS) (top q : Node) : Str := relurl base q (nodeUrl base top)

/-! ## the containment guard of `get_page_tree`

`relname = os.path.relpath(filename, topdir)` with `filename = topdir / name`, then
`relname in (os.curdir, os.pardir) or relname.startswith(os.pardir + os.sep)`: purely lexical (pathlib's `/`
and `relpath` never look at the file system), so whether `name` is a link, and where it leads, plays no role. -/

/-- `relname in (".", "..") or relname.startswith("../")` on the segments of `relname` (`.` = no segment) -/
def escapes (rel : PathS) : Bool := rel.isEmpty || rel.head? == some dotdot

/-- the guard for the entry `name` of the directory `topdir` (absolute, normalised) -/
def guardSkips (topdir : PathS) (name : Str) : Bool :=
  escapes (relpath (norm (topdir ++ splitSlash name)) topdir)

/-- the layer of `aliasLayers` that stands for the dict literal of the predefined aliases -/
def predefinedLayer : Str := pt! "<predefined>"

end Ford.PT
