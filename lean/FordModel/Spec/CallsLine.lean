/-
  Specification side of C08's `;` clause: the text of one statement as Fortran's lexical rules
  see it.  Written without looking at the mechanism (no flags, no look-ahead).
-/
import FordModel.Basic.Chars
namespace Ford.CallsSpec
open Ford

/-- One statement: characters outside character literals (neither a quote nor `;`), and
    character literals `q body q` - `q` either quote character - whose body is *any* text
    free of `q` itself: the other quote character, `;`, `!`, `&`, parentheses, call-like
    text.  A doubled delimiter (`'it''s'`) reads as two adjacent literals, as in the lexical
    state machine of the standard. -/
inductive StmtText : Str → Prop
  | nil : StmtText []
  | plain (c : Char) (rest : Str) : isQuote c = false → c ≠ ';' → StmtText rest → StmtText (c :: rest)
  | lit (q : Char) (body rest : Str) : isQuote q = true → q ∉ body → StmtText rest →
      StmtText (q :: (body ++ q :: rest))

end Ford.CallsSpec
