/-
  Specification side of C08: the parenthesis structure of a statement and the
  lexical token tree whose `app` nodes are the references a statement contains.
  Written without looking at the mechanism (no regex, no scanning state).
-/
import FordModel.Basic.Chars
namespace Ford.CallsSpec
open Ford

/-- A balanced-parenthesis text as a forest (binary encoding: first item, rest). -/
inductive PTree
  | nil
  | chr (c : Char) (rest : PTree)
  | grp (inner : PTree) (rest : PTree)
  deriving Repr

namespace PTree

/-- the text -/
def render : PTree → Str
  | nil => []
  | chr c r => c :: r.render
  | grp g r => '(' :: (g.render ++ ')' :: r.render)

/-- the text with the contents of every parenthesis group removed -/
def flat : PTree → Str
  | nil => []
  | chr c r => c :: r.flat
  | grp _ r => '(' :: ')' :: r.flat

/-- plain characters are not parentheses -/
def WF : PTree → Prop
  | nil => True
  | chr c r => c ≠ '(' ∧ c ≠ ')' ∧ r.WF
  | grp g r => g.WF ∧ r.WF

/-- the groups nested `k+1` deep, in textual order, each as `(` flat-contents `)` -/
def pieces : Nat → PTree → List Str
  | _, nil => []
  | k, chr _ r => pieces k r
  | 0, grp g r => ('(' :: (g.flat ++ [')'])) :: pieces 0 r
  | k + 1, grp g r => pieces k g ++ pieces (k + 1) r

/-- what a scan of depth `d` is specified to see -/
def piecesAt (t : PTree) : Nat → List Str
  | 0 => if t.flat.isEmpty then [] else [t.flat]
  | k + 1 => pieces k t

end PTree
end Ford.CallsSpec
