/-
  Specification side of the chain model (C08, round 6): a component path through derived types.
-/
import FordModel.CallsChain
namespace Ford.Calls.Chain
open Ford Ford.Calls

/-- `CompPath w t ls t'`: starting in type `t`, every label of `ls` is a component whose type is a
    visible derived type, and the last of them has type `t'` (`a % inner`, `oa(i) % cells(k)`,
    any length; subscript lists are gone at this point). -/
inductive CompPath (w : World) : TypeDef → List Str → TypeDef → Prop
  | nil (t : TypeDef) : CompPath w t [] t
  | cons (t t' t'' : TypeDef) (l ty : Str) (ls : List Str) :
      assoc t.comps l = some ty → findType w ty = some t' → CompPath w t' ls t'' → CompPath w t (l :: ls) t''

end Ford.Calls.Chain
