/-
  C20 - the diagnostic channel: how the text of a warning reaches the terminal.

  `ford.console.warn(msg)` hands a string to `rich.console.Console.print`; rich treats every `str`
  argument as *console markup*: `[name]` opens a style, `[/name]` / `[/]` closes one (and raises
  `MarkupError` when nothing is open), `\[` is an escaped bracket, `:name:` is an emoji code.  The
  progress bar of the per-file loop (`ProgressBar.set_current(relative_path)`) renders the path of
  the current file the same way.  What a rejected file is called in the diagnostic - and whether the
  run survives printing it - therefore depends on
    * `escape`  = `rich.markup.escape`  (regex `(\\*)(\[[a-z#/@][^[]*?])`, every match gets its
                  backslashes doubled plus one; a single trailing backslash is doubled),
    * `render`  = `rich.markup.render` / `_parse` (regex `((\\*)\[([a-z#/@][^[]*?)])`): the chunks
                  of plain text (each one: `\[` -> `[`, then emoji codes replaced), the literal
                  backslashes, the escaped tags, and the style stack of the real tags,
    * how the code composes the two (`WarnSpec`, `ProgSpec`: generated from ford/console.py and
      ford/utils.py by translate/c20diag.py).
  The functions below are these, as they are (rich 13-15), over `List Char`.  The model *abstains*
  (`Obs.unknown`) where the answer depends on tables of rich that are not modelled: the style
  normalisation of an explicit closing tag that is not literally the tag on top of the stack, the
  handler parameters of an `[@...]` tag, an emoji name that is not in the sample table.

  Import-free on purpose (compiled driver).
-/
import FordModel.Basic.Chars
set_option linter.unusedVariables false
namespace Ford.Markup
open Ford

/-- `n` backslashes -/
def bs (n : Nat) : Str := List.replicate n '\\'

def isBr (c : Char) : Bool := c == '[' || c == ']'

/-- first character of a tag: `[a-z#/@]` -/
def isTagStart (c : Char) : Bool :=
  decide ('a' ≤ c ∧ c ≤ 'z') || c == '#' || c == '/' || c == '@'

/-- `[^[]*?]` after the first character of a tag: the text up to the first `]`, provided no `[`
    comes before it; (text, what follows the `]`) -/
def tagBody : Str → Option (Str × Str)
  | [] => none
  | c :: cs =>
    if c = ']' then some ([], cs)
    else if c = '[' then none
    else match tagBody cs with
      | some (b, r) => some (c :: b, r)
      | none => none

theorem tagBody_length {s b r : Str} (h : tagBody s = some (b, r)) : r.length < s.length := by
  induction s generalizing b with
  | nil => simp [tagBody] at h
  | cons c cs ih =>
    simp only [tagBody] at h
    split at h
    · cases h; simp
    · split at h
      · cases h
      · split at h
        · rename_i b' r' hb
          cases h
          have := ih hb
          simp; omega
        · cases h

/-! ## emoji codes (`rich._emoji_replace`, regex `(:(\S*?)(?:(?:\-)(emoji|text))?:)`) -/

/-- name -> `some replacement` (rich knows the name) or `none` (rich leaves the text alone);
    a name that is not listed makes the model abstain -/
abbrev EmojiTbl := List (Str × Option Str)

/-- after an opening `:`: the shortest run of non-blank characters up to the next `:`;
    (run, what follows the closing `:`) -/
def emojiName : Str → Option (Str × Str)
  | [] => none
  | c :: cs =>
    if c = ':' then some ([], cs)
    else if isSpace c then none
    else match emojiName cs with
      | some (n, r) => some (c :: n, r)
      | none => none

theorem emojiName_length {s n r : Str} (h : emojiName s = some (n, r)) : r.length < s.length := by
  induction s generalizing n with
  | nil => simp [emojiName] at h
  | cons c cs ih =>
    simp only [emojiName] at h
    split at h
    · cases h; simp
    · split at h
      · cases h
      · split at h
        · rename_i n' r' hb
          cases h
          have := ih hb
          simp; omega
        · cases h

def dropLast (n : Nat) (s : Str) : Str := s.take (s.length - n)

def endsWith (s suf : Str) : Bool := s.drop (s.length - suf.length) == suf && suf.length ≤ s.length

/-- the lazy `\S*?` stops before a `-emoji` / `-text` suffix: (name, variation selector) -/
def stripVariant (run : Str) : Str × Str :=
  if endsWith run ['-', 'e', 'm', 'o', 'j', 'i'] then (dropLast 6 run, [Char.ofNat 0xFE0F])
  else if endsWith run ['-', 't', 'e', 'x', 't'] then (dropLast 5 run, [Char.ofNat 0xFE0E])
  else (run, [])

def lookupName (tbl : EmojiTbl) (n : Str) : Option (Option Str) :=
  match tbl.find? (fun e => e.1 == n) with
  | some e => some e.2
  | none => none

/-- `_emoji_replace(text)`; `none` = a name outside the table was looked up -/
def emojiReplace (tbl : EmojiTbl) : Str → Option Str
  | [] => some []
  | c :: cs =>
    if c = ':' then
      match h : emojiName cs with
      | some (run, r) =>
        match lookupName tbl (lower (stripVariant run).1) with
        | some (some rep) =>
          match emojiReplace tbl r with
          | some t => some (rep ++ (stripVariant run).2 ++ t)
          | none => none
        | some none =>
          match emojiReplace tbl r with
          | some t => some (':' :: run ++ ':' :: t)
          | none => none
        | none => none
      | none =>
        match emojiReplace tbl cs with
        | some t => some (c :: t)
        | none => none
    else
      match emojiReplace tbl cs with
      | some t => some (c :: t)
      | none => none
termination_by s => s.length
decreasing_by
  all_goals simp_wf
  all_goals first
    | omega
    | (have := emojiName_length h; omega)

/-- is there a `:...:` with no blank inside (what the pattern of `_emoji_replace` can match) -/
def emojiCandidate : Str → Bool
  | [] => false
  | c :: cs => (c == ':' && (emojiName cs).isSome) || emojiCandidate cs

/-! ## `rich.markup.escape` -/

/-- the substitution of `escape`; `k` = backslashes read immediately before this position -/
def esc (k : Nat) : Str → Str
  | [] => bs k
  | c :: cs =>
    if c = '\\' then esc (k + 1) cs
    else if c = '[' then
      match cs with
      | [] => bs k ++ ['[']
      | d :: ds =>
        if isTagStart d then
          match h : tagBody ds with
          | some (b, r) => bs (2 * k + 1) ++ '[' :: d :: b ++ ']' :: esc 0 r
          | none => bs k ++ '[' :: esc 0 (d :: ds)
        else bs k ++ '[' :: esc 0 (d :: ds)
    else bs k ++ c :: esc 0 cs
termination_by s => s.length
decreasing_by
  all_goals simp_wf
  all_goals first
    | omega
    | (have := tagBody_length h; omega)

/-- `markup.endswith("\\") and not markup.endswith("\\\\")` -/
def endsSingleBs (s : Str) : Bool :=
  match s.reverse with
  | '\\' :: '\\' :: _ => false
  | '\\' :: _ => true
  | _ => false

def escape (s : Str) : Str :=
  if endsSingleBs (esc 0 s) then esc 0 s ++ ['\\'] else esc 0 s

/-! ## `rich.markup.render` (the text it produces, or that it raises) -/

inductive Obs
  | shown (text : Str)
  | raised               -- MarkupError
  | unknown              -- outside the model (see the header)
  deriving DecidableEq, Repr

structure Open where
  name : Str             -- lower-cased, stripped
  isAt : Bool
  hasParams : Bool
  deriving DecidableEq, Repr

structure Cfg where
  emoji : Bool := true
  tbl : EmojiTbl := []

structure RSt where
  out : Str := []        -- text appended so far
  pend : Str := []       -- the plain chunk being collected (`\[` already replaced)
  stack : List Open := []

def emo (cfg : Cfg) (s : Str) : Option Str := if cfg.emoji then emojiReplace cfg.tbl s else some s

/-- the pending plain chunk is appended (emoji codes replaced) -/
def flush (cfg : Cfg) (st : RSt) : Option RSt :=
  match emo cfg st.pend with
  | some e => some { st with out := st.out ++ e, pend := [] }
  | none => none

/-- a chunk of its own (literal backslashes, an escaped tag) -/
def emit (cfg : Cfg) (st : RSt) (x : Str) : Option RSt :=
  match emo cfg x with
  | some e => some { st with out := st.out ++ e }
  | none => none

def finish (cfg : Cfg) (st : RSt) : Obs :=
  match flush cfg st with
  | some st' => .shown st'.out
  | none => .unknown

def normName (s : Str) : Str := lower (strip s)

/-- `tag_text.partition("=")` -/
def splitEq : Str → Str × Option Str
  | [] => ([], none)
  | c :: cs => if c = '=' then ([], some cs) else let (a, b) := splitEq cs; (c :: a, b)

inductive TagRes
  | ok (stack : List Open)
  | raised
  | unknown

def popOpen (o : Open) (tl : List Open) : TagRes :=
  if o.isAt && o.hasParams then .unknown else .ok tl

/-- one real (unescaped) tag -/
def applyTag (stack : List Open) (tagText : Str) : TagRes :=
  let np := splitEq tagText
  match np.1 with
  | '/' :: rest =>
    if (strip rest).isEmpty then
      match stack with
      | [] => .raised                          -- "closing tag '[/]' has nothing to close"
      | o :: tl => popOpen o tl
    else
      match stack with
      | [] => .raised                          -- "closing tag ... doesn't match any open tag"
      | o :: tl => if o.name == normName rest then popOpen o tl else .unknown
  | name =>
    .ok ({ name := normName name, isAt := name.head? == some '@',
           hasParams := match np.2 with | some p => !p.isEmpty | none => false } :: stack)

/-- `render(markup)`; `k` = backslashes read immediately before this position -/
def go (cfg : Cfg) (st : RSt) (k : Nat) : Str → Obs
  | [] => finish cfg { st with pend := st.pend ++ bs k }
  | c :: cs =>
    if c = '\\' then go cfg st (k + 1) cs
    else if c = '[' then
      match cs with
      | [] => finish cfg { st with pend := st.pend ++ bs (k - 1) ++ ['['] }
      | d :: ds =>
        if isTagStart d then
          match h : tagBody ds with
          | some (b, r) =>
            -- RE_TAGS matches here, with k backslashes in front
            match flush cfg st with
            | none => .unknown
            | some st1 =>
              match emit cfg st1 (bs (k / 2)) with
              | none => .unknown
              | some st2 =>
                if k % 2 = 1 then
                  match emit cfg st2 ('[' :: d :: b ++ [']']) with
                  | none => .unknown
                  | some st3 => go cfg st3 0 r
                else
                  match applyTag st2.stack (d :: b) with
                  | .ok stack' => go cfg { st2 with stack := stack' } 0 r
                  | .raised => .raised
                  | .unknown => .unknown
          | none => go cfg { st with pend := st.pend ++ bs (k - 1) ++ ['['] } 0 (d :: ds)
        else go cfg { st with pend := st.pend ++ bs (k - 1) ++ ['['] } 0 (d :: ds)
    else go cfg { st with pend := st.pend ++ bs k ++ [c] } 0 cs
termination_by s => s.length
decreasing_by
  all_goals simp_wf
  all_goals first
    | omega
    | (have := tagBody_length h; omega)

def render (cfg : Cfg) (s : Str) : Obs := go cfg {} 0 s

/-! ## what the code does with them -/

inductive Piece
  | lit (s : Str)
  | msg                  -- the message as it is
  | msgEscaped           -- `escape(msg)`
  deriving DecidableEq, Repr

inductive Arg
  | markup (ps : List Piece)     -- a `str` argument of `console.print`
  | text (ps : List Piece)       -- a `rich.text.Text(...)` argument: shown as it is
  deriving DecidableEq, Repr

/-- `ford.console.warn` -/
structure WarnSpec where
  args : List Arg
  sep : Str := [' ']
  markup : Bool := true          -- console markup is applied to `str` arguments
  emoji : Bool := true           -- emoji codes are replaced in `str` arguments
  deriving DecidableEq, Repr

def build (msg : Str) : List Piece → Str
  | [] => []
  | .lit s :: ps => s ++ build msg ps
  | .msg :: ps => msg ++ build msg ps
  | .msgEscaped :: ps => escape msg ++ build msg ps

/-- `Console.render_str` -/
def renderStr (tbl : EmojiTbl) (spec : WarnSpec) (s : Str) : Obs :=
  if spec.markup then render { emoji := spec.emoji, tbl := tbl } s
  else match emo { emoji := spec.emoji, tbl := tbl } s with
    | some e => .shown e
    | none => .unknown

def argObs (tbl : EmojiTbl) (spec : WarnSpec) (msg : Str) : Arg → Obs
  | .markup ps => renderStr tbl spec (build msg ps)
  | .text ps => .shown (build msg ps)

/-- the renderables are made left to right and joined with `sep` -/
def joinObs (tbl : EmojiTbl) (spec : WarnSpec) (msg : Str) : List Arg → Obs
  | [] => .shown []
  | [a] => argObs tbl spec msg a
  | a :: rest =>
    match argObs tbl spec msg a with
    | .shown t =>
      match joinObs tbl spec msg rest with
      | .shown u => .shown (t ++ spec.sep ++ u)
      | o => o
    | o => o

/-- what `warn(msg)` puts on the terminal -/
def warnShown (tbl : EmojiTbl) (spec : WarnSpec) (msg : Str) : Obs := joinObs tbl spec msg spec.args

def stripWs (s : Str) : Str := s.filter (fun c => !isSpace c)

/-- ... with all blanks removed (rich wraps and expands tabs) -/
def warnObs (tbl : EmojiTbl) (spec : WarnSpec) (msg : Str) : Obs :=
  match warnShown tbl spec msg with
  | .shown t => .shown (stripWs t)
  | o => o

/-- the column of the progress bar that shows the current file -/
structure ProgSpec where
  markup : Bool := true          -- `TextColumn(..., markup=...)`
  escaped : Bool := false        -- `set_current(escape(...))`
  deriving DecidableEq, Repr

def progressObs (tbl : EmojiTbl) (spec : ProgSpec) (path : Str) : Obs :=
  if spec.markup then render { emoji := true, tbl := tbl } (if spec.escaped then escape path else path)
  else .shown path

/-- the pieces of the message `Project.__init__` hands to `warn` for a rejected file -/
inductive MsgPiece
  | lit (s : Str)
  | path                 -- the path of the file whose constructor raised
  | err                  -- the text of the exception
  deriving DecidableEq, Repr

def rejectionMsg (ps : List MsgPiece) (path err : Str) : Str :=
  match ps with
  | [] => []
  | .lit s :: r => s ++ rejectionMsg r path err
  | .path :: r => path ++ rejectionMsg r path err
  | .err :: r => err ++ rejectionMsg r path err

/-- what the handler looks at in the exception before it decides what to say (round 5: the
    message may depend on the exception text - e.g. a text that already starts with `In file ...`
    is passed on as it is) -/
inductive ErrGuard
  | any                          -- every exception
  | errPrefix (s : Str)          -- the exception text starts with `s`
  deriving DecidableEq, Repr

def isPrefix : Str → Str → Bool
  | [], _ => true
  | _ :: _, [] => false
  | a :: as, b :: bs => a == b && isPrefix as bs

def ErrGuard.holds : ErrGuard → Str → Bool
  | .any, _ => true
  | .errPrefix s, err => isPrefix s err

/-- the handler's message as a decision list over the exception text: the first rule whose guard
    holds says which pieces make up the warning (no rule: nothing is said) -/
def rejectionText (rules : List (ErrGuard × List MsgPiece)) (path err : Str) : Str :=
  match rules with
  | [] => []
  | (g, ps) :: r => if g.holds err then rejectionMsg ps path err else rejectionText r path err

/-- every rule names the file of this iteration, and some rule always applies -/
def rulesNameFile (rules : List (ErrGuard × List MsgPiece)) : Bool :=
  rules.all (fun r => r.2.contains MsgPiece.path) && rules.any (fun r => r.1 == ErrGuard.any)

/-- is `p` a contiguous part of `s` -/
def occursIn (p : Str) : Str → Bool
  | [] => p.isEmpty
  | c :: cs => isPrefix p (c :: cs) || occursIn p cs

/-- the behaviour of the per-file handler (`except Exception as e:`) of `Project.__init__`, as
    observed on every probe (round 5: by running the loop with a constructor that raises) -/
inductive HStep
  | reraiseUnlessDbg     -- with `dbg = false` the exception leaves the loop, nothing is printed
  | warn                 -- with `dbg` exactly one call of `warn` before the next file is read
  | continue_            -- ... and the next file is read, nothing escapes
  | escapes              -- with `dbg` the exception leaves the loop (for some class of exceptions)
  | silent               -- with `dbg` no call of `warn` before the next file is read
  deriving DecidableEq, Repr

/-! ## the inputs on which rich's `escape` / `render` pair is not the identity -/

/-- does a tag start right after this `[` -/
def startsTag : Str → Bool
  | [] => false
  | d :: ds => isTagStart d && (tagBody ds).isSome

/-- a backslash directly in front of a `[` that does not open a tag (`render` drops it) -/
def lostBs (k : Nat) : Str → Bool
  | [] => false
  | c :: cs =>
    if c = '\\' then lostBs (k + 1) cs
    else if c = '[' then (decide (k > 0) && !startsTag cs) || lostBs 0 cs
    else lostBs 0 cs

def lostBackslash (s : Str) : Bool := lostBs 0 s

/-- does the text contain anything `RE_TAGS` matches -/
def hasTag : Str → Bool
  | [] => false
  | c :: cs => (c == '[' && startsTag cs) || hasTag cs

/-- a literal made of complete tags `[...]` and of characters other than `[` and `\`, not ending
    in the middle of anything: what follows it is scanned from a clean state -/
inductive Seg
  | tag (d : Char) (b : Str)
  | plain (c : Char)
  deriving DecidableEq, Repr

def Seg.flat : Seg → Str
  | .tag d b => '[' :: d :: b ++ [']']
  | .plain c => [c]

def flatSegs : List Seg → Str
  | [] => []
  | s :: r => s.flat ++ flatSegs r

/-- parse a literal into segments (`none`: it is not of that form) -/
def segsOf : Str → Option (List Seg)
  | [] => some []
  | c :: cs =>
    if c = '\\' then none
    else if c = '[' then
      match cs with
      | [] => none
      | d :: ds =>
        if isTagStart d then
          match h : tagBody ds with
          | some (b, r) =>
            match segsOf r with
            | some sg => some (.tag d b :: sg)
            | none => none
          | none => none
        else none
    else
      match segsOf cs with
      | some sg => some (.plain c :: sg)
      | none => none
termination_by s => s.length
decreasing_by
  all_goals simp_wf
  all_goals first
    | omega
    | (have := tagBody_length h; omega)

def Seg.valid : Seg → Bool
  | .tag d b => isTagStart d && (b.find? isBr).isNone
  | .plain c => c != '\\' && c != '['

/-- `go` over a literal of that form: the state in which what follows is scanned
    (`none`: a tag of the literal raises or is outside the model) -/
def runSegs (cfg : Cfg) : RSt → List Seg → Option RSt
  | st, [] => some st
  | st, .plain c :: r => runSegs cfg { st with pend := st.pend ++ [c] } r
  | st, .tag d b :: r =>
    match flush cfg st with
    | none => none
    | some st1 =>
      match applyTag st1.stack (d :: b) with
      | .ok stack' => runSegs cfg { st1 with stack := stack' } r
      | _ => none

/-- the two ways in which `warn` can hand its message over so that none of it is interpreted -/
inductive Inert
  | escaped (out pend : Str)     -- one markup string: a literal, then `escape(msg)`
  | text (pre : Str)             -- a markup literal, then the message as a `Text`
  deriving DecidableEq, Repr

/-- what is shown in front of the message -/
def Inert.pre : Inert → Str
  | .escaped a b => a ++ b
  | .text a => a

def inertShape (tbl : EmojiTbl) (spec : WarnSpec) : Option Inert :=
  match spec.args with
  | [.markup [.lit lit, .msgEscaped]] =>
    if spec.markup then
      match segsOf lit with
      | some sg =>
        match runSegs { emoji := spec.emoji, tbl := tbl } {} sg with
        | some st => if st.pend.all (· != ':') then some (.escaped st.out st.pend) else none
        | none => none
      | none => none
    else none
  | [.markup [.lit lit], .text [.msg]] =>
    match renderStr tbl spec lit with
    | .shown t => some (.text (t ++ spec.sep))
    | _ => none
  | _ => none

/-- the messages for which the escaped form is shown as it is (see `lostBackslash`, `emojiCandidate`) -/
def safeMsg (spec : WarnSpec) (i : Inert) (msg : Str) : Bool :=
  match i with
  | .text _ => true
  | .escaped _ _ => !lostBackslash msg && (!spec.emoji || !emojiCandidate msg)

end Ford.Markup
