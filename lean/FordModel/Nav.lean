/-
  C09 — which list / entity pages exist (conditions of `Documentation.__init__`)
  versus which of them the navigation templates link to (conditions of the
  enclosing `{% if %}` blocks in base.html / index.html).

  The conditions are a small expression language over the *shape* of a project
  (how many entities of each kind, which options are on).  The concrete tables are
  regenerated from the source by translate/c09.py (Generated/C09.lean).
  Import-free (driver).
-/
import FordModel.Basic.Chars
namespace Ford.Nav

/-- numeric expressions: `len(project.X)`, constants, sums -/
inductive NExpr where
  | len (l : Str)
  | lit (n : Nat)
  | add (a b : NExpr)
  deriving Repr, DecidableEq

/-- boolean conditions of the Python `if`s and the Jinja `{% if %}`s -/
inductive Cond where
  | tt
  | gt (e : NExpr) (n : Nat)        -- e > n
  | eq (e : NExpr) (n : Nat)        -- e == n
  | opt (o : Str)                   -- an option / template variable, as a boolean
  | and (a b : Cond)
  | or (a b : Cond)
  | not (a : Cond)
  deriving Repr, DecidableEq

def Cond.ff : Cond := .not .tt

/-- The shape of a project: entity counts per project list, options. -/
structure Shape where
  count : Str → Nat
  opt : Str → Bool

def evalN (sh : Shape) : NExpr → Nat
  | .len l => sh.count l
  | .lit n => n
  | .add a b => evalN sh a + evalN sh b

def eval (sh : Shape) : Cond → Bool
  | .tt => true
  | .gt e n => decide (evalN sh e > n)
  | .eq e n => decide (evalN sh e = n)
  | .opt o => sh.opt o
  | .and a b => eval sh a && eval sh b
  | .or a b => eval sh a || eval sh b
  | .not a => !eval sh a

/-- where a navigation link points -/
inductive Target where
  | list (page : Str)     -- lists/<page>
  | first (l : Str)       -- the page of project.<l>[0]
  deriving Repr, DecidableEq

structure NavEntry where
  tpl : Str
  label : Str
  target : Target
  cond : Cond
  deriving Repr, DecidableEq

/-- Everything the translator extracts. -/
structure Tables where
  /-- `if <cond>: self.lists.append(<ListPage with out_page>)` -/
  listPageConds : List (Str × Cond)
  /-- `entity_list_page_map` entries: project list, guard -/
  pageMap : List (Str × Cond)
  /-- the lists `Project.allfiles` chains -/
  allfilesParts : List Str
  /-- every `href` into lists/ or at project.X[0] in base.html / index.html -/
  navConds : List NavEntry
  /-- what `main` guarantees before any page is made (`len(project.files) >= 1`) -/
  mainPre : Cond

def disj : List Cond → Cond
  | [] => Cond.ff
  | c :: cs => .or c (disj cs)

/-- does the `entity_list_page_map` row `e` make pages for the members of `project.<l>`?
    (`allfiles` chains the lists named in `allfilesParts`) -/
def coversList (T : Tables) (l : Str) (e : Str × Cond) : Bool :=
  decide (e.1 = l) || (decide (e.1 = ['a', 'l', 'l', 'f', 'i', 'l', 'e', 's']) && T.allfilesParts.contains l)

def isPage (p : Str) (e : Str × Cond) : Bool := decide (e.1 = p)

/-- the condition under which the target of a navigation link is written -/
def targetCond (T : Tables) : Target → Cond
  | .list p => disj ((T.listPageConds.filter (isPage p)).map (·.2))
  | .first l => .and (.gt (.len l) 0) (disj ((T.pageMap.filter (coversList T l)).map (·.2)))

/-- list pages written for a project of shape `sh` -/
def listPages (T : Tables) (sh : Shape) : List Str :=
  (T.listPageConds.filter fun e => eval sh e.2).map (·.1)

/-- is the page of `project.<l>[0]` written? -/
def firstPageExists (T : Tables) (sh : Shape) (l : Str) : Bool :=
  decide (sh.count l > 0) && T.pageMap.any fun e => coversList T l e && eval sh e.2

def targetExists (T : Tables) (sh : Shape) : Target → Bool
  | .list p => (listPages T sh).contains p
  | .first l => firstPageExists T sh l

/-- navigation links a template emits for a project of shape `sh` -/
def navLinks (T : Tables) (sh : Shape) (tpl : Str) : List NavEntry :=
  T.navConds.filter fun e => decide (e.tpl = tpl) && eval sh e.cond

/-! ### a decision procedure for validity of conditions -/

def namesN : NExpr → List Str
  | .len l => [l]
  | .lit _ => []
  | .add a b => namesN a ++ namesN b

def names : Cond → List Str
  | .tt => []
  | .gt e _ => namesN e
  | .eq e _ => namesN e
  | .opt _ => []
  | .and a b => names a ++ names b
  | .or a b => names a ++ names b
  | .not a => names a

def opts : Cond → List Str
  | .tt => []
  | .gt _ _ => []
  | .eq _ _ => []
  | .opt o => [o]
  | .and a b => opts a ++ opts b
  | .or a b => opts a ++ opts b
  | .not a => opts a

/-- comparisons only against 0 and 1: then only `min count 2` matters -/
def wf : Cond → Bool
  | .tt => true
  | .gt _ n => decide (n ≤ 1)
  | .eq _ n => decide (n ≤ 1)
  | .opt _ => true
  | .and a b => wf a && wf b
  | .or a b => wf a && wf b
  | .not a => wf a

def asgs : List Str → List (Str → Nat)
  | [] => [fun _ => 0]
  | n :: ns => (asgs ns).flatMap fun f => [0, 1, 2].map fun v => fun x => if x = n then v else f x

def basgs : List Str → List (Str → Bool)
  | [] => [fun _ => false]
  | n :: ns => (basgs ns).flatMap fun f => [false, true].map fun v => fun x => if x = n then v else f x

/-- `c` holds for every project shape (checked on counts 0 / 1 / >= 2 of the lists it mentions) -/
def valid (c : Cond) : Bool :=
  wf c && (asgs (names c).eraseDups).all fun f => (basgs (opts c).eraseDups).all fun b => eval ⟨f, b⟩ c

def imp (a b : Cond) : Cond := .or (.not a) b

/-- the obligation for one navigation entry -/
def entryOk (T : Tables) (e : NavEntry) : Bool :=
  valid (imp (.and T.mainPre e.cond) (targetCond T e.target))

end Ford.Nav
