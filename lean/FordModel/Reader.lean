/-
  Model of ford/reader.py (free-form path): `_contains_unterminated_string`,
  the doc-mark / comment regexes, and `FortranReader.__next__`.

  Not modelled: `include` expansion, the external preprocessor, decoding.
  The iterator is re-expressed as a fold over physical lines (`feed`): the
  Python only starts its inner `while` loop when `pending` and `docbuffer`
  are both empty, so after a logical line is complete every buffered item is
  emitted before the next physical line is read; `flush` reproduces the order
  and the `prevdoc` bookkeeping of those pops.
-/
import FordModel.Basic.Chars
import FordModel.Basic.Split
namespace Ford

/-- `_contains_unterminated_string` as it stood before the `fix:` commit
    389e6bb (previous-character test); kept only for the historical witness
    `C02.untermOld_witness`.
    `inq`/`cur`/`prev` mirror `in_quote`/`current_quote`/`previous_char`. -/
def untermOld : Str → Bool → Option Char → Option Char → Bool
  | [], inq, _, _ => inq
  | c :: rest, inq, cur, prev =>
    if !isQuote c then untermOld rest inq cur (some c)
    else if some c == prev then untermOld rest inq cur (some c)
    else if some c == cur then untermOld rest false none (some c)
    else if !inq then untermOld rest true (some c) (some c)
    else untermOld rest inq cur (some c)

/-- Lexical state of a Fortran line: outside a literal, or inside one opened by `q`. -/
inductive QSt | out | inq (q : Char)
  deriving DecidableEq, Repr

def qstep (s : QSt) (c : Char) : QSt :=
  match s with
  | .out => if isQuote c then .inq c else .out
  | .inq q => if c == q then .out else .inq q

def qscan (s : QSt) (l : Str) : QSt := l.foldl qstep s

/-- `_contains_unterminated_string(l)`: open on a quote, close on the same quote. -/
def unterminated (l : Str) : Bool := qscan .out l != .out

/-- Deterministic reading of `^([^"'!]|('[^']*')|("[^"]*"))*(!MARK.*)$`
    (`re.match`; the line carries no newline).  Returns the index at which
    group 4 starts.  The three alternatives of the starred group start with
    disjoint characters and each is determined by its start, so the only
    candidate for group 4 is the first `!` outside the quote atoms
    (`comScan_iff` in Lemmas/Reader proves this against the declarative
    reading of the regex). -/
def comScanAux (mark : Str) : Str → QSt → Nat → Option Nat
  | [], _, _ => none
  | c :: cs, .out, i =>
    if c == '!' then (if startsWith cs mark then some i else none)
    else if isQuote c then comScanAux mark cs (.inq c) (i + 1)
    else comScanAux mark cs .out (i + 1)
  | c :: cs, .inq q, i =>
    if c == q then comScanAux mark cs .out (i + 1) else comScanAux mark cs (.inq q) (i + 1)

def comScan (mark : Str) (l : Str) : Option Nat := comScanAux mark l .out 0

/-- `_match_docmark(compiled(mark), line, in_quote)`; an empty mark compiles to `None`. -/
def matchDocmark (mark : Str) (line : Str) (inQuote : Bool) : Option Nat :=
  if inQuote then none else if mark.isEmpty then none else comScan mark line

/-- `_match_docmark(COM_RE, line, in_quote)` -/
def matchCom (line : Str) (inQuote : Bool) : Option Nat :=
  if inQuote then none else comScan [] line

structure Marks where
  doc : Str
  pre : Str
  alt : Str
  preAlt : Str
  deriving Repr

def Marks.default : Marks := { doc := ['!'], pre := ['>'], alt := ['*'], preAlt := ['|'] }

inductive RErr | predocInline | predocAltInline | altInline | ampStart | internal
  deriving DecidableEq, Repr

structure RS where
  docbuffer : List Str := []
  prevdoc : Bool := false
  readingAlt : Nat := 0
  continued : Bool := false
  readingPredoc : Bool := false
  readingPredocAlt : Nat := 0
  linebuffer : Str := []
  deriving Repr

/-- first character of `line.strip()` -/
def firstStripped (line : Str) : Option Char := (lstrip line).head?

/-- `tmp[:1] + docmark + tmp[1 + len(mark):]` -/
def substMark (doc : Str) (markLen : Nat) (tmp : Str) : Str :=
  tmp.take 1 ++ doc ++ tmp.drop (1 + markLen)

/-- The pops that follow a completed logical line: all `pending` items, then
    all buffered doc lines; returns the items in emission order and the final
    `prevdoc`. -/
def flush (m : Marks) (pending docs : List Str) (prevdoc : Bool) : List Str × Bool :=
  match pending, docs with
  | _ :: _, [] => (pending, false)
  | _ :: _, _ :: _ => (pending ++ docs, true)
  | [], [] => ([], prevdoc)            -- unreachable (see `feed`)
  | [], [d] => ([d], if d != '!' :: m.doc then true else prevdoc)
  | [], _ :: _ :: _ => (docs, true)

/-- The rest of a loop iteration after the if/else on the stripped line: advance the
    alt-block counters, append the line to the buffer and, when the logical line is
    complete, split it at `;` and emit everything that is buffered. -/
def feedTail (m : Marks) (s : RS) (line : Str) : Except RErr (RS × List Str) :=
  let s := if s.readingAlt > 0 then { s with readingAlt := s.readingAlt + 1 } else s
  let s := if s.readingPredocAlt > 0 then { s with readingPredocAlt := s.readingPredocAlt + 1 } else s
  let s := { s with linebuffer := s.linebuffer ++ line }
  let done := (!s.docbuffer.isEmpty || !s.linebuffer.isEmpty) && !s.continued
              && !s.readingPredoc && s.readingPredocAlt == 0
  if !done then .ok (s, []) else
    let frags := quoteSplit ';' s.linebuffer
    let pending := (frags.filter (fun f => !f.isEmpty)).map strip
    if pending.isEmpty && s.docbuffer.isEmpty then .error .internal else
    let (items, pd) := flush m pending s.docbuffer s.prevdoc
    .ok ({ docbuffer := [], prevdoc := pd, readingAlt := s.readingAlt, continued := false,
           readingPredoc := false, readingPredocAlt := 0, linebuffer := [] }, items)

/-- One iteration of the `while not done` loop on one physical line.
    Returns the new state and the items emitted (non-empty only when the
    iteration ended with `done`). -/
def feed (m : Marks) (s : RS) (line0 : Str) : Except RErr (RS × List Str) :=
  let inQuote := unterminated s.linebuffer
  if firstStripped line0 == some '#' then .ok (s, []) else
  -- predocmark
  let r1 : Except RErr RS :=
    match matchDocmark m.pre line0 inQuote with
    | some i =>
      let s' := { s with readingPredoc := true, readingAlt := 0, readingPredocAlt := 0,
                         docbuffer := s.docbuffer ++ [substMark m.doc m.pre.length (line0.drop i)] }
      if !(isBlank (line0.take i)) then .error .predocInline else .ok s'
    | none => .ok s
  match r1 with
  | .error e => .error e
  | .ok s =>
  -- predocmark_alt
  let r2 : Except RErr RS :=
    match matchDocmark m.preAlt line0 inQuote with
    | some i =>
      let s' := { s with readingPredocAlt := 1, readingAlt := 0, readingPredoc := false,
                         docbuffer := s.docbuffer ++ [substMark m.doc m.preAlt.length (line0.drop i)] }
      if !(isBlank (line0.take i)) then .error .predocAltInline else .ok s'
    | none => .ok s
  match r2 with
  | .error e => .error e
  | .ok s =>
  -- docmark_alt
  let r3 : Except RErr RS :=
    match matchDocmark m.alt line0 inQuote with
    | some i =>
      let s' := { s with readingAlt := 1, readingPredoc := false, readingPredocAlt := 0,
                         docbuffer := s.docbuffer ++ [substMark m.doc m.alt.length (line0.drop i)] }
      if !(isBlank (line0.take i)) then .error .altInline else .ok s'
    | none => .ok s
  match r3 with
  | .error e => .error e
  | .ok s =>
  -- docmark
  let (s, line) : RS × Str :=
    match matchDocmark m.doc line0 inQuote with
    | some i => ({ s with readingAlt := 0, readingPredocAlt := 0,
                          docbuffer := s.docbuffer ++ [line0.drop i] }, line0.take i)
    | none => (s, line0)
  let fc := firstStripped line
  let s := if fc.isNone || fc != some '!' then { s with readingAlt := 0 } else s
  let s := if fc.isSome && fc != some '!' then { s with readingPredocAlt := 0 } else s
  -- ordinary comments
  let (s, line) : RS × Str :=
    match matchCom line inQuote with
    | some i =>
      let s := if (s.readingPredocAlt > 1 || s.readingAlt > 1) && isBlank (line.take i)
               then { s with docbuffer := s.docbuffer ++ [('!' :: m.doc) ++ (line.drop i).drop 1] }
               else s
      (s, line.take i)
    | none => (s, line)
  let line := strip line
  match line with
  | [] =>
    let s := if s.prevdoc && s.docbuffer.isEmpty then { s with docbuffer := ['!' :: m.doc] } else s
    feedTail m s []
  | c :: rest =>
    let s := { s with readingPredoc := false, readingPredocAlt := 0, readingAlt := 0 }
    if c == '&' then
      if s.continued then
        if isBlank rest then .ok (s, [])          -- `continue`
        else
          let (s, line) := if rest.getLast? == some '&' then ({ s with continued := true }, rest.dropLast)
                           else ({ s with continued := false }, rest)
          feedTail m s line
      else if rest.isEmpty then .ok (s, [])        -- `len(line.strip()) == 1: continue`
      else .error .ampStart
    else
      let s := { s with linebuffer := strip s.linebuffer ++ [' '] }
      let line := c :: rest
      let (s, line) := if line.getLast? == some '&' then ({ s with continued := true }, line.dropLast)
                       else ({ s with continued := false }, line)
      feedTail m s line

/-- `list(FortranReader(file))` for a file whose physical lines are `lines`.
    When the file ends inside the loop the Python iterator just stops
    (`StopIteration` from `next(self.reader)`), dropping what is buffered. -/
def readFrom (m : Marks) : RS → List Str → Except RErr (List Str)
  | _, [] => .ok []
  | s, l :: ls =>
    match feed m s l with
    | .error e => .error e
    | .ok (s', items) =>
      match readFrom m s' ls with
      | .error e => .error e
      | .ok more => .ok (items ++ more)

def readAll (m : Marks) (lines : List Str) : Except RErr (List Str) :=
  readFrom m {} lines

end Ford
