/-
  C18 - the loop of `parse_type` (ford/sourceform.py) that sorts the (at most two) parameters of a
  `character(...)` selector into `length` and `kind`, as an interpreter over the branches of the loop regenerated
  from the source (`Generated/C18.lean: charSelRules`).  Mirrors the code *as it is*.

  F2018 R721: `(len)`, `(len, kind)`, `(len, KIND=kind)`, `(LEN=len, KIND=kind)`, `(KIND=kind, LEN=len)`.
  The code tries, for each parameter, the branches in source order; the first that fires ends the iteration:

    if length is None and LEN_RE.match(arg):   length = group(1) or group(2)
    if kind is None and KIND_RE.match(arg):    kind = group(1)
    if length is None:                         length = arg
    if kind is None:                           kind = arg

  The guards are load-bearing: the second alternative of LEN_RE accepts a bare integer, so without
  `length is None` a positional kind written as an integer literal (`character(10, 4)`) is taken for a length.
  `TypeSpec.charArgs` (C01's hand-written model, imported, not edited) is the same loop with the branches written
  out; `Props/C18.lean: char_selector_chain_as_modelled` proves the two equal for the regenerated branches.
-/
import FordModel.TypeSpec
namespace Ford.CharSel
open Ford.TypeSpec

/-- the regular expression a branch tests, if any -/
inductive Re where
  | len | kind | none
deriving Repr, DecidableEq

/-- the variable a branch assigns -/
inductive Target where
  | length | kind
deriving Repr, DecidableEq

structure Rule where
  needLenNone : Bool
  needKindNone : Bool
  re : Re
  target : Target
deriving Repr, DecidableEq

abbrev Rules := List Rule

/-- does the branch fire for `arg` in the state (`length`, `kind`), and with which value -/
def fire (r : Rule) (arg : Str) (len kind : Option Str) : Option Str :=
  if (r.needLenNone && len.isSome) || (r.needKindNone && kind.isSome) then none
  else
    match r.re with
    | .len => lenMatch arg
    | .kind => kindMatch arg
    | .none => some arg

/-- one iteration of the loop: the first branch that fires assigns (a kind matched by KIND_RE that contains a
    literal placeholder is outside the model, as in `TypeSpec.charArgs`) -/
def stepArg : Rules → Str → Option Str → Option Str → Except TErr (Option Str × Option Str)
  | [], _, len, kind => .ok (len, kind)
  | r :: rs, arg, len, kind =>
    match fire r arg len kind with
    | some v =>
      match r.target with
      | .length => .ok (some v, kind)
      | .kind => if r.re == .kind && hasQuote v then .error .unmodelled else .ok (len, some v)
    | none => stepArg rs arg len kind

/-- the loop `for arg in args` -/
def charSel (rules : Rules) : List Str → Option Str → Option Str → Except TErr (Option Str × Option Str)
  | [], len, kind => .ok (len, kind)
  | a :: as, len, kind =>
    match stepArg rules a len kind with
    | .ok (l, k) => charSel rules as l k
    | .error e => .error e

/-- the chain as the property needs it (what the unchanged code has) -/
def soundRules : Rules :=
  [⟨true, false, .len, .length⟩, ⟨false, true, .kind, .kind⟩, ⟨true, false, .none, .length⟩, ⟨false, true, .none, .kind⟩]

/-- the chain without the "already set" guards of the two regular-expression branches (if / elif / elif / else) -/
def unguardedRules : Rules :=
  [⟨false, false, .len, .length⟩, ⟨false, false, .kind, .kind⟩, ⟨true, false, .none, .length⟩, ⟨false, false, .none, .kind⟩]

end Ford.CharSel
