/-
  Model of the statement loop of `FortranContainer.__init__` (ford/sourceform.py)
  as far as *nesting and error behaviour* is concerned: which statements open a
  nested container, which close one, which are reported with `print_error`
  (and parsing goes on), which raise out of the file, and what happens when
  the statements run out.

  The Python is a recursive descent over one shared iterator (`source`): a
  statement that opens a container calls the child's constructor, which
  consumes statements until its END and returns.  Here that recursion is an
  explicit stack of frames and the whole parse is one left fold over the
  statement list, so totality ("never hangs") is structural.

  Statements are abstract (`SK` = statement kinds); `matchRow` says which
  recognisers of the cascade match a statement of each kind (validated against
  the real regexes on every run by the harness).  The order of the cascade, the
  guards, the `hasattr` table and the `isinstance` tables come from the
  generated file `Generated/C20.lean`.
-/
import FordModel.NestingTypes
import FordModel.Generated.C20
namespace Ford

/-- statement kinds the harness renders (several spellings each) -/
inductive SK
  | contains | perm | attrib | attribParen | dataStmt
  | endUnit | endUnitSub | endUnitFun | endBlock | endAssociate
  | modproc | blockdata | block | associate | module | submodule | program
  | subroutine | subroutineBare | function | typedFunction
  | type | interface | interfaceAnon | absInterface | absGeneric | enum
  | variable | variableParen | use | callParen | callBare | other
  | namelist | common | format | arithGoto
  deriving DecidableEq, Repr

structure Stmt where
  kind : SK
  name : Str
  deriving Repr, DecidableEq

/-- recognisers of the cascade that match a statement of the given kind -/
def matchRow : SK → List Branch
  | .contains => [.contains]
  | .perm => [.perm]
  | .attrib => [.attrib]
  | .attribParen => [.attrib, .call]
  | .dataStmt => [.attrib]
  | .endUnit => [.end_]
  | .endUnitSub => [.end_, .subroutine]
  | .endUnitFun => [.end_, .function]
  | .endBlock => [.end_]
  | .endAssociate => [.end_]
  | .modproc => [.modproc]
  | .blockdata => [.blockdata]
  | .block => [.block]
  | .associate => [.associate, .call]
  | .module => [.module]
  | .submodule => [.submodule, .call]
  | .program => [.program]
  | .subroutine => [.subroutine, .call]
  | .subroutineBare => [.subroutine]
  | .function => [.function, .call]
  | .typedFunction => [.function, .variable, .call]
  | .type => [.type, .variable]
  | .interface => [.interface]
  | .interfaceAnon => [.interface]
  | .absInterface => [.interface]
  | .absGeneric => [.interface]
  | .enum => [.enum, .call]
  | .variable => [.variable]
  | .variableParen => [.variable, .call]
  | .use => [.use]
  | .callParen => [.call]
  | .callBare => [.call]
  | .other => []
  | .namelist => [.namelist]
  | .common => [.common]
  | .format => [.format, .call]
  | .arithGoto => [.arithgoto, .call]

/-- messages of `print_error` -/
inductive Rep
  | unexpectedContains | multipleContains | unexpectedAttr | endOutside | unexpectedModproc
  | unexpectedBlockData | unexpectedModule | unexpectedSubmodule | unexpectedProgram
  | multiplePrograms | unexpectedSubroutine | unexpectedFunction | unexpectedType
  | unexpectedInterface | unexpectedEnum | unexpectedVariable | unexpectedUse | unexpectedCall
  | unexpectedNamelist | unexpectedCommon
  deriving DecidableEq, Repr

/-- exceptions that leave the file's constructor -/
inductive Err
  | nested          -- Exception("File ended while still nested.")
  | stopIteration   -- read_docstring ran into the end of the file
  | notImplemented  -- END at file level: FortranSourceFile has no _cleanup
  | noBatches       -- END ASSOCIATE without an open ASSOCIATE
  | attrError       -- `len(self.programs)` on a container without `programs`
  | cannotAddCalls  -- ASSOCIATE in a container without `calls`
  | absGeneric      -- "Generic interface … can not be abstract"
  | printError      -- print_error raised (dbg = false, force = false)
  | reader          -- FortranReader raised
  | decode          -- the file could not be decoded
  | reported        -- (repaired variant) something was reported, file skipped at the end
  | enumValue       -- ValueError of FortranEnum._cleanup: "Non-integer (...) assigned to enumerator"
  deriving DecidableEq, Repr

/-- what print_error does; `skipReported` is the candidate repair (a file that
    had anything reported is rejected when its constructor finishes) -/
structure Cfg where
  dbg : Bool := Gen.dbgDefault
  force : Bool := Gen.forceDefault
  skipReported : Bool := false
  deriving Repr, DecidableEq

structure Frame where
  kind : CK
  name : Str := []
  abstract_ : Bool := false
  generic : Bool := false
  incontains : Bool := false
  blocklevel : Int := 0
  nassoc : Nat := 0
  /-- entity paths below this container, in order of completion -/
  paths : List Str := []
  /-- names of the direct subroutine / function children (an interface's `routines`) -/
  routines : List Str := []
  nprograms : Nat := 0
  deriving Repr, DecidableEq

/-- machine state: innermost frame first; the last frame is the file -/
structure MS where
  stack : List Frame
  reps : List Rep := []
  deriving Repr, DecidableEq

abbrev Raise := Err × List Rep

def hasAttr (k : CK) (a : Attr) : Bool :=
  match Gen.attrTable.lookup k with
  | some as => as.contains a
  | none => false

def canContain (k : CK) : Bool := Gen.canContainKinds.contains k
def isCodeUnit (k : CK) : Bool := Gen.codeUnitKinds.contains k
def isModuleLike (k : CK) : Bool := Gen.moduleLikeKinds.contains k
def isInterfaceK (k : CK) : Bool := Gen.interfaceLikeKinds.contains k

def guardOk (g : Guard) (f : Frame) : Bool :=
  match g with
  | .always => true
  | .block0 => f.blocklevel == 0
  | .incontains => f.incontains
  | .modprocGuard => true   -- every rendered MODULE PROCEDURE statement carries the `module` prefix

/-- first branch of the cascade whose recogniser matches and whose guard holds -/
def selectIn (row : List Branch) (f : Frame) : List (Branch × Guard) → Option Branch
  | [] => none
  | (b, g) :: rest => if row.contains b && guardOk g f then some b else selectIn row f rest

def select (f : Frame) (s : Stmt) : Option Branch := selectIn (matchRow s.kind) f Gen.cascade

/-- label of the list a finished container is appended to -/
def label : CK → Str
  | .file => "files".toList
  | .module => "modules".toList
  | .submodule => "submodules".toList
  | .program => "programs".toList
  | .subroutine => "subroutines".toList
  | .function => "functions".toList
  | .modproc => "modprocedures".toList
  | .type => "types".toList
  | .interface => "interfaces".toList
  | .enum => "enums".toList
  | .blockdata => "blockdata".toList

def entry (lab name : Str) : Str := lab ++ ':' :: name

/-- paths contributed to the parent by a finished child frame -/
def childPaths (c : Frame) : List Str :=
  if c.kind == .interface then
    if c.abstract_ then c.routines.map (entry "absinterfaces".toList)
    else if c.generic then
      let e := entry (label c.kind) c.name
      e :: c.paths.map (fun p => e ++ '/' :: p)
    else c.routines.map (entry "interfaces".toList)
  else
    let e := entry (label c.kind) c.name
    e :: c.paths.map (fun p => e ++ '/' :: p)

/-- `print_error` -/
def report (cfg : Cfg) (r : Rep) (st : MS) : Except Raise MS :=
  if cfg.dbg then .ok { st with reps := st.reps ++ [r] }
  else if cfg.force then .ok st
  else .error (.printError, st.reps)

/-- a nested constructor starts: `read_docstring` needs a next statement, then
    `_initialize`, then the child's own loop -/
def openChild (st : MS) (last : Bool) (child : Frame) : Except Raise MS :=
  if last then .error (.stopIteration, st.reps)
  else if child.abstract_ && child.generic then .error (.absGeneric, st.reps)
  else .ok { st with stack := child :: st.stack }

def isEndUnit (k : SK) : Bool := k == .endUnit || k == .endUnitSub || k == .endUnitFun

/-- the parent's lists after a child constructor has returned -/
def attachFrame (c p : Frame) : Frame :=
  { p with paths := p.paths ++ childPaths c,
           routines := if c.kind == .subroutine || c.kind == .function then p.routines ++ [c.name] else p.routines,
           nprograms := if c.kind == .program then p.nprograms + 1 else p.nprograms }

/-- the parent's bookkeeping when a child constructor has returned -/
def attachChild (cfg : Cfg) (c p : Frame) (rest : List Frame) (reps : List Rep) : Except Raise MS :=
  if c.kind == .program && (attachFrame c p).nprograms > 1
  then report cfg .multiplePrograms { stack := attachFrame c p :: rest, reps := reps }
  else .ok { stack := attachFrame c p :: rest, reps := reps }

/-- one statement.  `last` = no statement follows (matters for `read_docstring`). -/
def step (cfg : Cfg) (st : MS) (s : Stmt) (last : Bool) : Except Raise MS :=
  match st.stack with
  | [] => .error (.nested, st.reps)       -- unreachable: the file frame is never popped
  | f :: rest =>
    let isFile := rest.isEmpty
    let upd (f' : Frame) : MS := { st with stack := f' :: rest }
    match select f s with
    | none => .ok st
    | some .contains =>
      if !f.incontains && canContain f.kind then .ok (upd { f with incontains := true })
      else if f.incontains then report cfg .multipleContains st
      else report cfg .unexpectedContains st
    | some .attrib =>
      if hasAttr f.kind .attr_dict then .ok st
      else if s.kind == .dataStmt && isFile then .ok st
      else report cfg .unexpectedAttr st
    | some .end_ =>
      match (if isFile then report cfg .endOutside st else .ok st) with
      | .error e => .error e
      | .ok st1 =>
        if s.kind == .endBlock then .ok { st1 with stack := { f with blocklevel := f.blocklevel - 1 } :: rest }
        else if s.kind == .endAssociate then
          if f.nassoc == 0 then .error (.noBatches, st1.reps)
          else .ok { st1 with stack := { f with nassoc := f.nassoc - 1 } :: rest }
        else if f.blocklevel == 0 then
          match rest with
          | [] => if Gen.fileHasCleanup then .ok st1 else .error (.notImplemented, st1.reps)
          | p :: rest' => attachChild cfg f p rest' st1.reps
        else .ok st1
    | some .modproc =>
      if isInterfaceK f.kind then (if last then .error (.stopIteration, st.reps) else .ok st)
      else if isModuleLike f.kind then openChild st last { kind := .modproc, name := s.name }
      else report cfg .unexpectedModproc st
    | some .blockdata =>
      if hasAttr f.kind .blockdata then openChild st last { kind := .blockdata, name := s.name }
      else report cfg .unexpectedBlockData st
    | some .block => .ok (upd { f with blocklevel := f.blocklevel + 1 })
    | some .associate =>
      if hasAttr f.kind .calls then .ok (upd { f with nassoc := f.nassoc + 1 })
      else .error (.cannotAddCalls, st.reps)
    | some .module =>
      if hasAttr f.kind .modules then openChild st last { kind := .module, name := s.name }
      else report cfg .unexpectedModule st
    | some .submodule =>
      if hasAttr f.kind .submodules then openChild st last { kind := .submodule, name := s.name }
      else report cfg .unexpectedSubmodule st
    | some .program =>
      if hasAttr f.kind .programs then openChild st last { kind := .program, name := s.name }
      else
        match report cfg .unexpectedProgram st with
        | .error e => .error e
        | .ok st1 => .error (.attrError, st1.reps)
    | some .subroutine =>
      if isCodeUnit f.kind && !f.incontains then report cfg .unexpectedSubroutine st
      else if hasAttr f.kind .subroutines then openChild st last { kind := .subroutine, name := s.name }
      else report cfg .unexpectedSubroutine st
    | some .function =>
      if isCodeUnit f.kind && !f.incontains then report cfg .unexpectedFunction st
      else if hasAttr f.kind .functions then openChild st last { kind := .function, name := s.name }
      else report cfg .unexpectedFunction st
    | some .type =>
      if hasAttr f.kind .types then openChild st last { kind := .type, name := s.name }
      else report cfg .unexpectedType st
    | some .interface =>
      if hasAttr f.kind .interfaces then
        openChild st last { kind := .interface, name := s.name,
                            abstract_ := s.kind == .absInterface || s.kind == .absGeneric,
                            generic := s.kind == .interface || s.kind == .absGeneric }
      else report cfg .unexpectedInterface st
    | some .enum =>
      if hasAttr f.kind .enums then openChild st last { kind := .enum, name := s.name }
      else report cfg .unexpectedEnum st
    | some .variable =>
      if hasAttr f.kind .variables then (if last then .error (.stopIteration, st.reps) else .ok st)
      else report cfg .unexpectedVariable st
    | some .namelist =>   -- FortranNamelist(...): its constructor reads the doc comment that may follow
      if hasAttr f.kind .namelists then (if last then .error (.stopIteration, st.reps) else .ok st)
      else report cfg .unexpectedNamelist st
    | some .common =>     -- FortranCommon(...), one per block
      if hasAttr f.kind .common then (if last then .error (.stopIteration, st.reps) else .ok st)
      else report cfg .unexpectedCommon st
    | some .use =>
      if hasAttr f.kind .uses then .ok st else report cfg .unexpectedUse st
    | some .call =>
      if s.kind == .callBare && !hasAttr f.kind .calls then report cfg .unexpectedCall st
      else .ok st
    | some _ => .ok st   -- perm, sequence, format, boundproc, final, arithgoto: no nesting effect

/-- the whole statement loop: a left fold, one step per statement -/
def run (cfg : Cfg) : MS → List Stmt → Except Raise MS
  | st, [] => .ok st
  | st, s :: rest =>
    match step cfg st s rest.isEmpty with
    | .error e => .error e
    | .ok st' => run cfg st' rest

def initMS : MS := { stack := [{ kind := .file }] }

/-- The nested constructors that were *entered* while the statements were read, in order:
    (kind of the parent, kind, name) of every container whose `FortranBase.__init__` ran
    through (`read_docstring`, `_initialize`) so that its own statement loop started.
    It stops where the loop stops: at the statement that raises out of the file. -/
def openedFrom (cfg : Cfg) : MS → List Stmt → List (CK × CK × Str)
  | _, [] => []
  | st, s :: rest =>
    match step cfg st s rest.isEmpty with
    | .error _ => []
    | .ok st' =>
      (match st.stack, st'.stack with
       | p :: _, c :: _ =>
         if st'.stack.length == st.stack.length + 1 then [(p.kind, c.kind, c.name)] else []
       | _, _ => []) ++ openedFrom cfg st' rest

/-- ... for a whole file -/
def opened (cfg : Cfg) (ss : List Stmt) : List (CK × CK × Str) := openedFrom cfg initMS ss

/-- what becomes of one file -/
inductive Outcome
  | registered (paths : List Str) (reps : List Rep)
  | skipped (e : Err) (reps : List Rep)
  deriving DecidableEq, Repr

/-- statements ran out: only the file frame may be left -/
def finish (cfg : Cfg) (st : MS) : Outcome :=
  match st.stack with
  | [f] => if cfg.skipReported && !st.reps.isEmpty then .skipped .reported st.reps
           else .registered f.paths st.reps
  | _ => .skipped .nested st.reps

def parseFrom (cfg : Cfg) (st : MS) (ss : List Stmt) : Outcome :=
  match run cfg st ss with
  | .error (e, reps) => .skipped e reps
  | .ok st' => finish cfg st'

/-- `FortranSourceFile(...)` on a file whose statements are `ss` -/
def parseFile (cfg : Cfg) (ss : List Stmt) : Outcome := parseFrom cfg initMS ss

def Outcome.isSkipped : Outcome → Bool
  | .skipped .. => true
  | .registered .. => false

def Outcome.reps : Outcome → List Rep
  | .skipped _ r => r
  | .registered _ r => r

end Ford
