/-
  Model of the call-recording mechanism of ford/sourceform.py:

  * the string masking loop at the top of `FortranContainer.__init__` (`QUOTES_RE`),
  * the part of the `if/elif` cascade that decides which statements of an
    executable part reach `_add_procedure_calls` (the *order* of the cascade is
    a generated table, `Generated/C08.lean`; the guards FORMAT_RE and
    ARITH_GOTO_RE are generated parse trees interpreted by `CallsRegex.lean`;
    the recognisers of the other branches that executable parts can hit are
    hand-written here),
  * `_add_procedure_calls`: `strip_paren` per depth, `SUBCALL_RE` on depth 0,
    `CALL_RE.finditer` on every piece of every depth, `%` chains, association
    substitution, the INTRINSICS filter, de-duplication on the last element,
  * `Associations` (batches; ASSOCIATE header parsing),
  * the removal of variables and types at `correlate` for chains of length 1.

  The regular expressions are modelled by deterministic character-level
  recognisers (`re` backtracking is resolved by hand, see the comments); each
  is compared with CPython `re` on random strings on every run (harness/c08.py,
  stream `micro`).
-/
import FordModel.Basic.Chars
import FordModel.Basic.Split
import FordModel.CallsRegex
namespace Ford.Calls
open Ford

/-! ### small helpers -/

/-- number of leading characters satisfying `p` -/
def spanLen (p : Char → Bool) : Str → Nat
  | [] => 0
  | c :: cs => if p c then spanLen p cs + 1 else 0

def dropSpaces (s : Str) : Str := s.drop (spanLen isSpace s)

/-- case-insensitive `s.startswith(kw)`; `kw` is given in lower case -/
def startsWithCI : Str → Str → Bool
  | _, [] => true
  | [], _ :: _ => false
  | c :: cs, k :: ks => lowerChar c == k && startsWithCI cs ks

/-- `some rest` when `s` starts (case-insensitively) with `kw` -/
def eatCI (kw : Str) (s : Str) : Option Str :=
  if startsWithCI s kw then some (s.drop kw.length) else none

/-! ### `QUOTES_RE` masking -/

/-- `QUOTES_RE` tried at an opening quote `q`; `s` is the text after it.
    Returns the number of characters of `s` the match consumes (closing quote
    included).  Greedy `([^q]|qq)*` then `q`; when the end of the line is
    reached without a closing quote the engine backtracks into the most
    recent doubled pair and uses its first quote as the closing one
    (`fallback`). -/
def litScan (q : Char) : Str → Nat → Option Nat → Option Nat
  | [], _, fallback => fallback
  | [c], pos, fallback => if c == q then some (pos + 1) else fallback
  | c :: d :: rest, pos, fallback =>
    if c == q then
      if d == q then litScan q rest (pos + 2) (some (pos + 1))
      else some (pos + 1)
    else litScan q (d :: rest) (pos + 1) fallback

/-- The masking loop: every literal found by `QUOTES_RE.search` (left to
    right) is replaced by `"k"`.  `skip` counts characters of the input that
    belong to a literal already replaced.  After a replacement the Python
    advances `search_from` by the end of the first `QUOTES_RE` match in the
    *new* text (normally the `"k"` just inserted; when the replaced literal
    is immediately followed by `"` the inserted text fuses with what follows
    - reproduced here). -/
def maskAux : Str → Nat → Nat → Str
  | [], _, _ => []
  | _ :: rest, k + 1, n => maskAux rest k n
  | c :: rest, 0, n =>
    if isQuote c then
      match litScan c rest 0 none with
      | some m =>
        let post := rest.drop m
        let repl := (toString n).toList
        let x := repl ++ '"' :: post
        let e := (litScan '"' x 0 none).getD (repl.length + 1)
        '"' :: x.take e ++ maskAux rest (m + (e - (repl.length + 1))) (n + 1)
      | none => c :: maskAux rest 0 n
    else c :: maskAux rest 0 n

def maskQuotes (line : Str) : Str := maskAux line 0 0

/-! ### `CALL_RE`

    (?P<call_chain> (?:(?:\s*\w+\s*(?:\(\))?\s*%\s*)+)?  (?:\w+\s*\(.*?\)) )
-/

/-- `\w+\s*\(.*?\)` at the start of `s`: length of the match -/
def callReq (s : Str) : Option Nat :=
  let n := spanLen isWord s
  if n == 0 then none else
  let r := s.drop n
  let w := spanLen isSpace r
  match r.drop w with
  | '(' :: t =>
    let k := spanLen (fun c => c != ')') t
    if k < t.length then some (n + w + 1 + k + 1) else none
  | _ => none

/-- one link `\s*\w+\s*(?:\(\))?\s*%\s*` at the start of `s`: its length.
    (`\w+` cannot usefully give characters back; `()` is present or not.) -/
def callLink (s : Str) : Option Nat :=
  let a := spanLen isSpace s
  let s1 := s.drop a
  let n := spanLen isWord s1
  if n == 0 then none else
  let s2 := s1.drop n
  let b := spanLen isSpace s2
  let s3 := s2.drop b
  match s3 with
  | '%' :: t => some (a + n + b + 1 + spanLen isSpace t)
  | '(' :: ')' :: t =>
    let c := spanLen isSpace t
    match t.drop c with
    | '%' :: u => some (a + n + b + 2 + c + 1 + spanLen isSpace u)
    | _ => none
  | _ => none

/-- offsets after 0, 1, 2, … links, most links first (the order in which the
    backtracking engine tries the required part). `fuel` bounds the number of
    links by the length of the text. -/
def linkOffsets : Nat → Str → Nat → List Nat → List Nat
  | 0, _, off, acc => off :: acc
  | fuel + 1, s, off, acc =>
    match callLink s with
    | some n => if n == 0 then off :: acc else linkOffsets fuel (s.drop n) (off + n) (off :: acc)
    | none => off :: acc

def firstSome {α β} (f : α → Option β) : List α → Option β
  | [] => none
  | a :: xs => match f a with | some b => some b | none => firstSome f xs

/-- `CALL_RE` anchored at the start of `s`: length of the match -/
def callAt (s : Str) : Option Nat :=
  firstSome (fun off => (callReq (s.drop off)).map (· + off)) (linkOffsets s.length s 0 [])

/-- `[m["call_chain"] for m in CALL_RE.finditer(s)]` -/
def callFindAux : Str → Nat → List Str
  | [], _ => []
  | _ :: rest, k + 1 => callFindAux rest k
  | c :: rest, 0 =>
    match callAt (c :: rest) with
    | some n => (c :: rest).take n :: callFindAux rest (n - 1)
    | none => callFindAux rest 0

def callFindAll (s : Str) : List Str := callFindAux s 0

/-- `CALL_RE.search(s) is not None` -/
def callSearch (s : Str) : Bool := !(callFindAll s).isEmpty

/-! ### `SUBCALL_RE`

    ^(?:if\s*\(.*\)\s*)? call\s+ (?P<call_chain> (?:.*%\s*)? (?:\w+\s*(?:\(\))?) )
-/

/-- `\w+\s*(?:\(\))?` at the start of `s`: length -/
def subName (s : Str) : Option Nat :=
  let n := spanLen isWord s
  if n == 0 then none else
  let r := s.drop n
  let w := spanLen isSpace r
  match r.drop w with
  | '(' :: ')' :: _ => some (n + w + 2)
  | _ => some (n + w)

/-- positions just after every `%` of `s`, rightmost first (greedy `.*%`) -/
def afterPercents : Str → Nat → List Nat → List Nat
  | [], _, acc => acc
  | c :: rest, i, acc => afterPercents rest (i + 1) (if c == '%' then (i + 1) :: acc else acc)

/-- the group `call_chain` at the start of `t` (the text after `call\s+`) -/
def subChain (t : Str) : Option Str :=
  let viaPercent := firstSome (fun p =>
      let u := t.drop p
      let w := spanLen isSpace u
      (subName (u.drop w)).map (fun n => t.take (p + w + n))) (afterPercents t 0 [])
  match viaPercent with
  | some g => some g
  | none => (subName t).map (fun n => t.take n)

/-- `call\s+<chain>` at the start of `s` -/
def subCallHere (s : Str) : Option Str :=
  match eatCI "call".toList s with
  | none => none
  | some r =>
    let w := spanLen isSpace r
    if w == 0 then none else subChain (r.drop w)

/-- positions just after every `)` of `s`, rightmost first (greedy `.*\)`) -/
def afterCloses : Str → Nat → List Nat → List Nat
  | [], _, acc => acc
  | c :: rest, i, acc => afterCloses rest (i + 1) (if c == ')' then (i + 1) :: acc else acc)

/-- `SUBCALL_RE.search(s)`: the `call_chain` group.  The pattern is anchored. -/
def subcallChain (s : Str) : Option Str :=
  let withIf : Option Str :=
    match eatCI "if".toList s with
    | none => none
    | some r =>
      match dropSpaces r with
      | '(' :: t => firstSome (fun p => subCallHere (dropSpaces (t.drop p))) (afterCloses t 0 [])
      | _ => none
  match withIf with
  | some g => some g
  | none => subCallHere s

/-! ### chains -/

/-- `CALL_AND_WHITESPACE_RE.sub("", s)`: one left-to-right pass deleting `()` and white space -/
def cleanSub : Str → Str
  | [] => []
  | [c] => if isSpace c then [] else [c]
  | c :: d :: rest =>
    if c == '(' && d == ')' then cleanSub rest
    else if isSpace c then cleanSub (d :: rest)
    else c :: cleanSub (d :: rest)

/-- `str.split(sep)` for a one-character separator -/
def splitOn (sep : Char) : Str → Str → List Str
  | [], cur => [cur.reverse]
  | c :: rest, cur => if c == sep then cur.reverse :: splitOn sep rest [] else splitOn sep rest (c :: cur)

/-- `CALL_AND_WHITESPACE_RE.sub("", chain_str).lower().split("%")` -/
def chainOf (s : Str) : List Str := splitOn '%' (lower (cleanSub s)) []

abbrev Chain := List Str

def lastOf (c : Chain) : Str := c.getLastD []

/-! ### Associations -/

/-- one batch: association list, later entries win (dict assignment) -/
abbrev Batch := List (Str × Chain)
/-- batches, innermost (most recently added) first -/
abbrev Assocs := List Batch

def batchLookup (b : Batch) (k : Str) : Option Chain :=
  (b.reverse.find? (fun e => e.1 == k)).map (·.2)

def assocLookup : Assocs → Str → Option Chain
  | [], _ => none
  | b :: bs, k => match batchLookup b k with | some v => some v | none => assocLookup bs k

/-- `call_chain[0:1] = associations[call_chain[0]]` when the head is associated -/
def substHead (asc : Assocs) : Chain → Chain
  | [] => []
  | h :: t => match assocLookup asc h with | some v => v ++ t | none => h :: t

/-- `s.replace("()", "")` -/
def removeEmptyParens : Str → Str
  | [] => []
  | [c] => [c]
  | c :: d :: rest => if c == '(' && d == ')' then removeEmptyParens rest else c :: removeEmptyParens (d :: rest)

/-- index of the first occurrence of `=>` -/
def findArrow : Str → Nat → Option Nat
  | [], _ => none
  | [_], _ => none
  | c :: d :: rest, i => if c == '=' && d == '>' then some i else findArrow (d :: rest) (i + 1)

/-- `new, old = item.split("=>")`; `none` when there are not exactly two parts
    (the Python raises) -/
def splitArrow (item : Str) : Option (Str × Str) :=
  match findArrow item 0 with
  | none => none
  | some i =>
    let old := item.drop (i + 2)
    match findArrow old 0 with
    | some _ => none
    | none => some (item.take i, old)

/-- `Associations.add_batch` -/
def addBatchGo (asc : Assocs) : List Str → Batch → Option Batch
  | [], b => some b
  | item :: more, b =>
    match splitArrow item with
    | none => none
    | some (new, old) =>
      let key := lower (strip new)
      let ch := splitOn '%' ((removeEmptyParens (lower old)).filter (· != ' ')) []
      addBatchGo asc more (b ++ [(key, substHead asc ch)])

def addBatch (asc : Assocs) (items : List Str) : Option Assocs :=
  (addBatchGo asc items []).map (· :: asc)

/-! ### the cascade (order generated, recognisers hand-written) -/

/-! `FORMAT_RE` and `ARITH_GOTO_RE` are not read by hand: their parse trees are generated from
    the source (`Generated.C08.guards`) and interpreted by `Rx.guardTest` (CallsRegex.lean). -/

/-- optional construct name `(\w+\s*:)?` followed by `\s*`: the possible
    continuations (with the name first, then without) -/
def afterLabel (s : Str) : List Str :=
  let n := spanLen isWord s
  let r := dropSpaces (s.drop n)
  let withName := match r with
    | ':' :: t => if n > 0 then [dropSpaces t] else []
    | _ => []
  withName ++ [dropSpaces s]

/-- `^(\w+\s*:)?\s*block\s*$` -/
def blockRe (s : Str) : Bool :=
  (afterLabel s).any (fun t =>
    match eatCI "block".toList t with
    | some r => isBlank r
    | none => false)

/-- `ASSOCIATE_RE`: the `associations` group -/
def associateRe (s : Str) : Option Str :=
  firstSome (fun t =>
    match eatCI "associate".toList t with
    | none => none
    | some r =>
      match dropSpaces r with
      | '(' :: u =>
        let v := rstrip u
        if v.length ≥ 2 && v.getLast? == some ')' then some (v.take (v.length - 1)) else none
      | _ => none) (afterLabel s)

def endKeywords : List Str :=
  ["module", "submodule", "subroutine", "function", "procedure", "program", "type",
   "interface", "enum", "block data", "block", "associate"].map String.toList

/-- one keyword of `END_RE` at the start of `s` (`block\sdata`: any one white-space character) -/
def eatEndKw (kw : Str) (s : Str) : Option Str :=
  if kw == "block data".toList then
    match eatCI "block".toList s with
    | some (c :: r) => if isSpace c then eatCI "data".toList r else none
    | _ => none
  else eatCI kw s

/-- `END_RE.match(s)`: `none` = no match, `some none` = bare `end`,
    `some (some kw)` = group 1 (lower-cased). -/
def endRe (s : Str) : Option (Option Str) :=
  match eatCI "end".toList s with
  | none => none
  | some r =>
    let t := dropSpaces r
    if t.isEmpty then some none else
    firstSome (fun kw =>
      match eatEndKw kw t with
      | none => none
      | some u =>
        if u.isEmpty then some (some kw)
        else
          let w := spanLen isSpace u
          match u.drop w with
          | c :: _ => if w > 0 && isWord c then some (some kw) else none
          | [] => none) endKeywords

def varKeywords : List Str :=
  ["integer", "real", "double precision", "character", "complex", "double complex",
   "logical", "type", "class", "procedure", "enumerator"].map String.toList

/-- one keyword of `VARIABLE_RE` (`double\s*precision`, look-aheads of `type`/`class`) -/
def eatVarKw (kw : Str) (s : Str) : Option Str :=
  if kw == "double precision".toList then
    (eatCI "double".toList s).bind (fun r => eatCI "precision".toList (dropSpaces r))
  else if kw == "double complex".toList then
    (eatCI "double".toList s).bind (fun r => eatCI "complex".toList (dropSpaces r))
  else if kw == "type".toList then
    match eatCI kw s with
    | none => none
    | some r =>
      let w := spanLen isSpace r
      if w > 0 && startsWithCI (r.drop w) "is".toList then none else some r
  else if kw == "class".toList then
    match eatCI kw s with
    | none => none
    | some r =>
      let w := spanLen isSpace r
      if w > 0 && (startsWithCI (r.drop w) "is".toList || startsWithCI (r.drop w) "default".toList)
      then none else some r
  else eatCI kw s

/-- `VARIABLE_RE.match(s)` (no `extra_vartypes`) -/
def variableRe (s : Str) : Bool :=
  varKeywords.any (fun kw =>
    match eatVarKw kw s with
    | none => false
    | some r =>
      let w := spanLen isSpace r
      match r.drop w with
      | c :: _ => c == '(' || c == ':' || c == ',' || c == '*' || (w > 0 && isWord c)
      | [] => false)

def attribKeywords : List Str :=
  ["asynchronous", "allocatable", "bind", "data", "dimension", "external", "intent", "optional",
   "parameter", "pointer", "private", "protected", "public", "save", "target", "value",
   "volatile"].map String.toList

/-- the separator and first character after the keyword of `ATTRIB_RE`:
    `(?:\s+|\s*::\s*|(?<=parameter)(?=\())((/|\(|\w).*?)\s*$`.
    `param` says that the keyword just eaten is `parameter` (any case): then the
    separator may be empty when a `(` follows directly (`parameter(n = 3)`). -/
def attribTail (r : Str) (param : Bool := false) : Bool :=
  let w := spanLen isSpace r
  let ok (t : Str) : Bool := match t with
    | c :: _ => c == '/' || c == '(' || isWord c
    | [] => false
  match r.drop w with
  | ':' :: ':' :: t => ok (dropSpaces t)
  | t => (w > 0 && ok t) || (param && w == 0 && t.head? == some '(')

/-- `ATTRIB_RE.match(s)` -/
def attribRe (s : Str) : Bool :=
  attribKeywords.any (fun kw =>
    match eatCI kw s with
    | none => false
    | some r =>
      if kw == "bind".toList then
        -- bind\s*\(.*\) : any `)` may close it
        match dropSpaces r with
        | '(' :: t => (afterCloses t 0 []).any (fun p => attribTail (t.drop p))
        | _ => false
      else if kw == "intent".toList then
        -- intent\s*\(\s*\w+\s*\)
        match dropSpaces r with
        | '(' :: t =>
          let t1 := dropSpaces t
          let n := spanLen isWord t1
          if n == 0 then false else
          match dropSpaces (t1.drop n) with
          | ')' :: u => attribTail u
          | _ => false
        | _ => false
      else attribTail r (kw == "parameter".toList))

/-- `USE_RE.match(s)` -/
def useRe (s : Str) : Bool :=
  match eatCI "use".toList s with
  | none => false
  | some r =>
    let w := spanLen isSpace r
    let t := r.drop w
    let tailOk (u : Str) : Bool :=
      let n := spanLen isWord u
      n > 0 && (match dropSpaces (u.drop n) with | [] => true | c :: _ => c == ',')
    let viaColons : Bool :=
      let t2 : Str := match t with
        | ',' :: v =>
          let v1 := dropSpaces v
          let v2 := match eatCI "non_".toList v1 with | some x => x | none => v1
          match eatCI "intrinsic".toList v2 with
          | some x => dropSpaces x
          | none => ',' :: v
        | _ => t
      match t2 with
      | ':' :: ':' :: v => tailOk (dropSpaces v)
      | _ => false
    viaColons || (w > 0 && tailOk t)

/-- `COMMON_RE.match(s)` = `^common(?:\s*/\s*(\w+)\s*/\s*|\s+)(\w+.*)` (IGNORECASE): a named
    block `/name/` or at least one blank, then an identifier character -/
def commonRe (s : Str) : Bool :=
  match eatCI ['c', 'o', 'm', 'm', 'o', 'n'] s with
  | none => false
  | some r =>
    let w := spanLen isSpace r
    let t := r.drop w
    let startsWord (u : Str) : Bool := match u with | c :: _ => isWord c | [] => false
    let named : Bool := match t with
      | '/' :: v =>
        let v1 := dropSpaces v
        let n := spanLen isWord v1
        n > 0 && (match dropSpaces (v1.drop n) with
                  | '/' :: x => startsWord (dropSpaces x)
                  | _ => false)
      | _ => false
    named || (w > 0 && startsWord t)

/-- what a branch of the cascade does, as far as recorded calls are concerned -/
inductive Act
  | none            -- no branch taken / branch without effect on calls
  | skip            -- FORMAT, arithmetic GOTO, declarations, …: statement not scanned
  | endBlock | endAssoc | endUnit
  | block
  | assoc (items : Str)
  | scan
  deriving Repr, DecidableEq

/-- does the branch named `name` (generated from the source) with guard `guard`
    take this statement?  Branches that only match specification-part or
    program-unit statements outside the modelled domain are `false`. -/
def branchTakes (gs : Rx.Guards) (name guard : String) (line : Str) (bl : Int) : Bool :=
  let g := guard == "" || (guard == "blocklevel0" && bl == 0)
  let ll := lower line
  g && (
    if name == "eq:contains" then ll == "contains".toList
    else if name == "in:private,protected,public" then   -- members sorted by the translator
      ll == "public".toList || ll == "private".toList || ll == "protected".toList
    else if name == "eq:sequence" then ll == "sequence".toList
    else if name == "FORMAT_RE" then Rx.guardTest gs name line
    else if name == "ATTRIB_RE" then attribRe line
    else if name == "END_RE" then (endRe line).isSome
    else if name == "BLOCK_RE" then blockRe line
    else if name == "ASSOCIATE_RE" then (associateRe line).isSome
    else if name == "VARIABLE_RE" then variableRe line
    else if name == "USE_RE" then useRe line
    else if name == "COMMON_RE" then commonRe line
    else if name == "ARITH_GOTO_RE" then Rx.guardTest gs name line
    else if name == "CALL_RE|SUBCALL_RE" then callSearch line || (subcallChain line).isSome
    else false)

def branchAct (name : String) (line : Str) (bl : Int) : Act :=
  if name == "END_RE" then
    match endRe line with
    | some (some kw) =>
      if kw == "block".toList then .endBlock
      else if kw == "associate".toList then .endAssoc
      else if bl == 0 then .endUnit else .none
    | _ => if bl == 0 then .endUnit else .none
  else if name == "BLOCK_RE" then .block
  else if name == "ASSOCIATE_RE" then
    match associateRe line with
    | some items => .assoc items
    | none => .none
  else if name == "CALL_RE|SUBCALL_RE" then .scan
  else .skip

/-- first branch of the cascade that takes the statement -/
def gate (gs : Rx.Guards) : List (String × String) → Str → Int → Act
  | [], _, _ => .none
  | (name, guard) :: rest, line, bl =>
    if branchTakes gs name guard line bl then branchAct name line bl else gate gs rest line bl

/-- name of the branch taken (for the correspondence histogram) -/
def gateName (gs : Rx.Guards) : List (String × String) → Str → Int → String
  | [], _, _ => "-"
  | (name, guard) :: rest, line, bl =>
    if branchTakes gs name guard line bl then name else gateName gs rest line bl

/-! ### `_add_procedure_calls` -/

/-- the `while len(_lines) > 0` loop: every piece of every depth from `d` on.
    `fuel` bounds the depth by the length of the line. -/
def scanDepths (line : Str) : Nat → Nat → List Str
  | 0, _ => []
  | fuel + 1, d =>
    let pieces := stripParen line d
    if pieces.isEmpty then [] else pieces.flatMap callFindAll ++ scanDepths line fuel (d + 1)

/-- the call-chain strings of one statement, in the order the code collects them -/
def chainStrings (line : Str) : List Str :=
  match stripParen line 0 with
  | [] => []
  | p0 :: _ =>
    match subcallChain p0 with
    | some g => g :: scanDepths line (line.length + 1) 1
    | none => scanDepths line (line.length + 1) 0

/-- the filter / de-duplication loop -/
def addChains (intr : List Str) (asc : Assocs) : List Str → List Chain → List Chain
  | [], calls => calls
  | g :: more, calls =>
    let ch := substHead asc (chainOf g)
    let l := lastOf ch
    if intr.contains l || (calls.map lastOf).contains l then addChains intr asc more calls
    else addChains intr asc more (calls ++ [ch])

def addProcedureCalls (intr : List Str) (asc : Assocs) (line : Str) (calls : List Chain) : List Chain :=
  addChains intr asc (chainStrings line) calls

/-! ### the statement loop -/

structure St where
  bl : Int := 0
  assocs : Assocs := []
  calls : List Chain := []
  done : Bool := false
  err : Bool := false
  deriving Repr

/-- one statement as delivered by the reader -/
def step (gs : Rx.Guards) (casc : List (String × String)) (intr : List Str) (s : St) (raw : Str) : St :=
  if s.done || s.err then s else
  if raw.take 2 == "!!".toList then s else
  let line := maskQuotes raw
  match gate gs casc line s.bl with
  | .none => s
  | .skip => s
  | .block => { s with bl := s.bl + 1 }
  | .endBlock => { s with bl := s.bl - 1 }
  | .endAssoc =>
    match s.assocs with
    | [] => { s with err := true }
    | _ :: r => { s with assocs := r }
  | .endUnit => { s with done := true }
  | .scan => { s with calls := addProcedureCalls intr s.assocs line s.calls }
  | .assoc items =>
    let calls := addProcedureCalls intr s.assocs line s.calls
    match stripParen items 0 with
    | [] => { s with calls := calls, err := true }
    | p :: _ =>
      match addBatch s.assocs (parenSplit ',' p) with
      | some asc' => { s with calls := calls, assocs := asc' }
      | none => { s with calls := calls, err := true }

def runUnit (gs : Rx.Guards) (casc : List (String × String)) (intr : List Str) (lines : List Str) : St :=
  lines.foldl (step gs casc intr) {}

/-! ### correlate: variables and types are removed (chains of length 1) -/

/-- `labels.get(name)` restricted to what matters for the removal: variables
    shadow types shadow procedures -/
inductive Kind | var | type | proc | unknown
  deriving Repr, DecidableEq

def kindOf (vars types procs : List Str) (n : Str) : Kind :=
  if vars.contains n then .var else if types.contains n then .type
  else if procs.contains n then .proc else .unknown

/-- names kept by `correlate` among the chains of length 1 -/
def resolve1 (vars types procs : List Str) (calls : List Chain) : List Str :=
  calls.filterMap (fun ch =>
    match ch with
    | [n] => match kindOf vars types procs n with
      | .var => none
      | .type => none
      | _ => some n
    | _ => none)

end Ford.Calls
