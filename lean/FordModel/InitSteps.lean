/-
  The steps of the initial-value pipeline of `line_to_variables` (ford/sourceform.py); their
  order in the source is regenerated into `Generated/C02.lean` on every run.
-/
import FordModel.Basic.Chars
namespace Ford

inductive InitStep where
  | commaTidy   -- `initial = COMMA_RE.sub(", ", initial)`
  | restore     -- the `while quote := QUOTES_RE.search(...)` loop putting the literals back
  deriving DecidableEq, Repr

end Ford
