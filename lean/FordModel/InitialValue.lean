/-
  C02 - the parser's second literal-masking pass, as far as it decides the *initial value*
  recorded for a declared entity (`line_to_variables`, ford/sourceform.py):

    statement --cutLits--> masked statement (`"0"`, `"1"` … for the literals) + `strings`
              --after `::`, split at `,`, blanks removed, split at `=`-->  masked initial value
              --initialSteps (source order, regenerated)-->  recorded initial value

  The building blocks (`cutLits`, `commaSpace`, `reinsert`, …) are those of `Show.lean`
  (shared with C18); here the *order* of the steps is a parameter taken from the source.
-/
import FordModel.Show
import FordModel.InitSteps
import FordModel.Generated.C02
namespace Ford.InitialValue
open Ford.Show

/-- one statement of the `if initial:` block -/
def applyStep (nb dbl : Bool) (strings : List Str) : InitStep → Str → Except RErr Str
  | .commaTidy, s => .ok (commaSpace s)
  | .restore, s => reinsert nb dbl strings s

def runSteps (nb dbl : Bool) (strings : List Str) : List InitStep → Str → Except RErr Str
  | [], s => .ok s
  | st :: r, s =>
    match applyStep nb dbl strings st s with
    | .error e => .error e
    | .ok t => runSteps nb dbl strings r t

/-- the `if initial:` block of `line_to_variables` as the code stands -/
def initialValue (strings : List Str) (masked : Str) : Except RErr Str :=
  runSteps Generated.C02.restoreNbsp Generated.C02.restoreDoubleBs strings Generated.C02.initialSteps masked

/-- `Show.decOne` with the initial value computed by `initialValue` -/
def decOne (strings : List Str) (dec0 : Str) (eqJoin : Bool := false) : Except RErr VarShow :=
  let dec := removeSpaces dec0
  match parenSplit '=' dec with
  | nm :: v :: more =>
    match Show.initParts eqJoin v more with
    | .error e => .error e
    | .ok value =>
      let points := value.head? == some '>'
      let ini := if points then value.drop 1 else value
      let nd := splitNameDim nm
      if ini.isEmpty then .ok ⟨nd.1, nd.2, points, some []⟩
      else
        match initialValue strings ini with
        | .ok t => .ok ⟨nd.1, nd.2, points, some t⟩
        | .error e => .error e
  | _ =>
    let nd := splitNameDim (strip dec)
    .ok ⟨nd.1, nd.2, false, none⟩

def decAll (strings : List Str) (ds : List Str) (eqJoin : Bool := false) : Except RErr (List VarShow) :=
  match ds with
  | [] => .ok []
  | d :: ds =>
    match decOne strings d eqJoin with
    | .error e => .error e
    | .ok v =>
      match decAll strings ds eqJoin with
      | .error e => .error e
      | .ok vs => .ok (v :: vs)

/-- the declared entities of one (unmasked) declaration statement with what FORD records as
    their initial values -/
def declVars (line : Str) (eqJoin : Bool := false) : Except RErr (List VarShow) :=
  let segs := cutLits line
  match afterColons (segMasked segs 0) with
  | none => .ok []
  | some d => decAll (segStrings segs) (parenSplit ',' (strip d)) eqJoin

end Ford.InitialValue
