/-
  Model of ford/md_admonition.py: `AdmonitionPreprocessor._find_admonitions`
  and `_process_admonitions`, on `List Str` with the same index arithmetic,
  and of the two regular expressions they use.

  * `admScan`  = `ADMONITION_RE.search(line)`  (`(?P<indent>\s*)@(?P<type>T1|T2|…)(?P<posttxt>.*)`, IGNORECASE)
  * `endScan`  = `END_RE.search(line)`         (`\s*@end(?P<type>…)\s*(?P<posttxt>.*)?`, IGNORECASE)
  The alternation `T1|T2|…` is the generated table `Gen.admonitionTypes`
  (the functions take the list of type names as a parameter, theorems are
  stated for every table or over the generated one).

  `re.search` returns the leftmost match: the scanners walk the line once,
  remembering the start of the white-space run they are in (a match that
  starts inside a run of `\s` also matches from the start of that run).

  Not modelled: Python-Markdown itself (block parser, `FordAdmonitionProcessor`).
-/
import FordModel.Basic.Chars
import FordModel.Generated.C03
namespace Ford

def upperChar (c : Char) : Char :=
  if 'a' ≤ c ∧ c ≤ 'z' then Char.ofNat (c.toNat - 32) else c

/-- Python `str.capitalize()` on ASCII input -/
def capitalize : Str → Str
  | [] => []
  | c :: cs => upperChar c :: lower cs

/-- case-insensitive prefix test against a lower-case pattern: returns the
    matched text as written and the rest -/
def ciPrefix : Str → Str → Option (Str × Str)
  | [], s => some ([], s)
  | _ :: _, [] => none
  | p :: ps, c :: cs =>
    if lowerChar c == p then
      match ciPrefix ps cs with
      | some (m, r) => some (c :: m, r)
      | none => none
    else none

/-- `(T1|T2|…)` at the start of `s`: first alternative that matches -/
def matchType : List Str → Str → Option (Str × Str)
  | [], _ => none
  | t :: ts, s =>
    match ciPrefix t s with
    | some r => some r
    | none => matchType ts s

structure AdmMatch where
  pre : Str      -- text before the match (`line[:m.start()]`)
  indent : Str   -- group `indent`
  ty : Str       -- group `type`, as written
  post : Str     -- group `posttxt`
  deriving Repr, DecidableEq

/-- `ADMONITION_RE.search(line)`.  `acc`: reversed text before the current
    white-space run, `ws`: reversed current white-space run. -/
def admScan (types : List Str) : Str → Str → Str → Option AdmMatch
  | [], _, _ => none
  | c :: cs, acc, ws =>
    if c == '@' then
      match matchType types cs with
      | some (ty, post) => some ⟨acc.reverse, ws.reverse, ty, post⟩
      | none => admScan types cs (c :: (ws ++ acc)) []
    else if isSpace c then admScan types cs acc (c :: ws)
    else admScan types cs (c :: (ws ++ acc)) []

def admRe (types : List Str) (line : Str) : Option AdmMatch := admScan types line [] []

structure EndMatch where
  pre : Str      -- `line[:m.start()]`  (= `END_RE.sub("", line)`, the match runs to the end of the line)
  ty : Str
  post : Str     -- group `posttxt`
  deriving Repr, DecidableEq

/-- `end(T1|…)\s*(.*)` right after an `@` -/
def endAt (types : List Str) (s : Str) : Option (Str × Str) :=
  match ciPrefix ['e', 'n', 'd'] s with
  | some (_, r) =>
    match matchType types r with
    | some (ty, post) => some (ty, lstrip post)
    | none => none
  | none => none

/-- `END_RE.search(line)` -/
def endScan (types : List Str) : Str → Str → Str → Option EndMatch
  | [], _, _ => none
  | c :: cs, acc, ws =>
    if c == '@' then
      match endAt types cs with
      | some (ty, post) => some ⟨acc.reverse, ty, post⟩
      | none => endScan types cs (c :: (ws ++ acc)) []
    else if isSpace c then endScan types cs acc (c :: ws)
    else endScan types cs (c :: (ws ++ acc)) []

def endRe (types : List Str) (line : Str) : Option EndMatch := endScan types line [] []

/-- `Admonition(type, start_idx, end_idx)`; `stop = none` is `end_idx == -1` -/
structure Adm where
  ty : Str
  start : Nat
  stop : Option Nat
  deriving Repr, DecidableEq

inductive AErr
  | endNoStart (i : Nat)     -- "Note end marker found without start marker"
  | typeMismatch (i : Nat)   -- "Type of start and end marker don't match"
  | missingStart (i : Nat)   -- "Missing start of @note"
  | index (i : Nat)          -- IndexError (not reachable from `findAdm` output)
  deriving Repr, DecidableEq

/-- `if a.end_idx == -1: a.end_idx = i` -/
def closeAt (a : Adm) (i : Nat) : Adm :=
  match a.stop with
  | none => { a with stop := some i }
  | some _ => a

abbrev FindSt := List Adm × Option Adm

/-- one iteration of the `for idx, line in enumerate(lines)` loop -/
def findStep (types : List Str) (idx : Nat) (line : Str) (st : FindSt) : Except AErr FindSt :=
  let st1 : FindSt :=
    match admRe types line with
    | some m =>
      (match st.2 with
       | some a => st.1 ++ [closeAt a idx]
       | none => st.1, some ⟨m.ty, idx, none⟩)
    | none => st
  match endRe types line with
  | some e =>
    (match st1.2 with
     | none => .error (.endNoStart idx)
     | some a =>
       if lower e.ty != lower a.ty then .error (.typeMismatch idx)
       else .ok (st1.1 ++ [{ a with stop := some idx }], none))
  | none =>
    (match st1.2 with
     | none => .ok st1
     | some a =>
       if line.isEmpty && a.stop.isNone then .ok (st1.1, some { a with stop := some idx })
       else .ok st1)

def findFrom (types : List Str) : List Str → Nat → FindSt → Except AErr FindSt
  | [], _, st => .ok st
  | l :: ls, i, st =>
    match findStep types i l st with
    | .error e => .error e
    | .ok st' => findFrom types ls (i + 1) st'

/-- `_find_admonitions(lines)` -/
def findAdm (types : List Str) (lines : List Str) : Except AErr (List Adm) :=
  match findFrom types lines 0 ([], none) with
  | .error e => .error e
  | .ok (adms, none) => .ok adms
  | .ok (adms, some a) => .ok (adms ++ [closeAt a (lines.length - 1)])

/-- `lines.insert(i, x)` (Python: an index past the end appends) -/
def insertAt (l : List Str) (i : Nat) (x : Str) : List Str := l.take i ++ x :: l.drop i

def indentStr : Str := List.replicate Gen.admIndentSize ' '

/-- `for i in range(lo, hi): if lines[i] != "": lines[i] = INDENT + lines[i]`;
    `i` is the index of the head of the list -/
def indentFrom : List Str → Nat → Nat → Nat → List Str
  | [], _, _, _ => []
  | l :: ls, i, lo, hi =>
    (if lo ≤ i && i < hi && !l.isEmpty then indentStr ++ l else l) :: indentFrom ls (i + 1) lo hi

/-- the "last line" part of one iteration of `_process_admonitions`: returns
    the new lines and the (possibly incremented) `end_idx` -/
def endStep (types : List Str) (ls : List Str) (idx : Nat) : List Str × Nat :=
  match endRe types (ls.getD idx []) with
  | some e =>
    let ls1 := if !e.post.isEmpty then insertAt (insertAt ls (idx + 1) []) (idx + 2) e.post else ls
    let ls2 := ls1.set idx e.pre
    if isBlank e.pre then (ls2.eraseIdx idx, idx) else (ls2, idx + 1)
  | none => (ls, idx)

/-- the "start line" part -/
def startStep (types : List Str) (ls : List Str) (ty : Str) (start : Nat) : Except AErr (List Str) :=
  match admRe types (ls.getD start []) with
  | none => .error (.missingStart start)
  | some m =>
    let ls1 := ls.set start (m.indent ++ ['@', 'n', 'o', 't', 'e', ' '] ++ capitalize ty)
    .ok (if !m.post.isEmpty then insertAt ls1 (start + 1) (indentStr ++ m.indent ++ m.post) else ls1)

/-- one iteration of the loop in `_process_admonitions` -/
def procOne (types : List Str) (ls : List Str) (a : Adm) : Except AErr (List Str) :=
  let stop := a.stop.getD 0
  if stop ≥ ls.length then .error (.index stop) else
  let (ls1, stop') := endStep types ls stop
  let ls2 := indentFrom ls1 0 (a.start + 1) (min ls1.length (stop' + 1))
  if a.start ≥ ls2.length then .error (.index a.start) else
  startStep types ls2 a.ty a.start

def procAll (types : List Str) : List Adm → List Str → Except AErr (List Str)
  | [], ls => .ok ls
  | a :: as, ls =>
    match procOne types ls a with
    | .error e => .error e
    | .ok ls' => procAll types as ls'

/-- `_process_admonitions(admonitions, lines)` -/
def processAdm (types : List Str) (adms : List Adm) (ls : List Str) : Except AErr (List Str) :=
  procAll types adms.reverse ls

/-- `AdmonitionPreprocessor.run(lines)` -/
def admRun (types : List Str) (ls : List Str) : Except AErr (List Str) :=
  match findAdm types ls with
  | .error e => .error e
  | .ok adms => processAdm types adms ls

def admTypes : List Str := Gen.admonitionTypes.map (·.1)

end Ford
