/-
  C13 — every graph shows exactly the relation it is documented to show.
  Property theorems only; the model is FordModel/Graph.lean, helper lemmas live in
  FordModel/Lemmas/Graph.lean and FordModel/Lemmas/GraphData.lean.

  Vocabulary: `graphOf fx tab nd c roots` is the `FortranGraph` of class `c` (one of the
  twelve graph classes of ford/graphs.py) drawn over the node objects `nd` for the
  root entities `roots`; `succOf tab nd c` is what the class's `add_node` visits;
  `ReachLe s roots d n` says `n` is at most `d` steps of `s` away from a root.
-/
import FordModel.Graph
import FordModel.Lemmas.Graph
import FordModel.Lemmas.GraphData
import FordModel.Lemmas.GraphCalls
import FordModel.Lemmas.GraphCtor
import FordModel.Lemmas.GraphLabel
namespace Ford.C13
open Ford Ford.Graph

/-- **No dangling edge.**  Every edge of every graph — all twelve classes, every relation
    (chains, diamonds, cycles, disconnected parts), every depth and node limit, truncated or
    not — joins two nodes that are drawn in that graph. -/
theorem edges_closed (fx : Bool) (tab : Table) (nd : NodeData) (c : GClass) (roots : List Node) :
    ∀ e ∈ (graphOf fx tab nd c roots).edges,
      e.tail ∈ (graphOf fx tab nd c roots).added ∧ e.head ∈ (graphOf fx tab nd c roots).added := by
  apply addNodes_closed _ (succOf_wf tab nd c)
  · intro e he; simp at he
  · intro n hn; exact mem_dedup.2 hn

/-- **Node limit.**  A graph never shows more than `graph_maxnodes` nodes (the maximum over
    its roots), except that the roots themselves are always shown; and no node is drawn twice. -/
theorem size_limit (fx : Bool) (tab : Table) (nd : NodeData) (c : GClass) (roots : List Node) :
    (graphOf fx tab nd c roots).added.length ≤ max (cfgOf fx tab nd c roots).maxNodes (dedup roots).length
      ∧ (graphOf fx tab nd c roots).added.Nodup := by
  constructor
  · exact addNodes_limit _ _ _ _ _ (Nat.le_max_left ..) (Nat.le_max_right ..)
  · exact addNodes_nodup _ _ _ _ (nodup_dedup roots)

/-- **Soundness (depth limit).**  Whatever is drawn is reachable from the roots through the
    relation of the graph class within `graph_maxdepth` hops (one hop for the project-wide
    graphs; a configured depth of 0 still gives one hop). -/
theorem sound (fx : Bool) (tab : Table) (nd : NodeData) (c : GClass) (roots : List Node) :
    ∀ n ∈ (graphOf fx tab nd c roots).added,
      ReachLe (succN (succOf tab nd c)) roots
        (if c.nested then max 1 (cfgOf fx tab nd c roots).maxNesting else 1) n := by
  have h0 : ∀ n ∈ dedup roots, ReachLe (succN (succOf tab nd c)) roots (1 - 1) n :=
    fun n hn => ⟨0, by omega, .root (mem_dedup.1 hn)⟩
  have h0' : ∀ n ∈ roots, ReachLe (succN (succOf tab nd c)) roots (1 - 1) n :=
    fun n hn => ⟨0, by omega, .root hn⟩
  cases hc : c.nested
  · exact addNodes_sound (cfgOf fx tab nd c roots) roots roots 1 _ 1 (by omega) (by omega)
      (by simp [cfgOf, hc]) h0 h0'
  · exact addNodes_sound (cfgOf fx tab nd c roots) roots roots 1 _ _ (by omega) (Nat.le_max_left ..)
      (fun _ => Nat.le_max_right ..) h0 h0'

/-- **Completeness.**  Unless `add_to_graph` refused a hop because of `graph_maxnodes`, the
    graph contains *every* entity within the depth bound: together with `sound`, a graph that
    was not cut by the node limit shows exactly the nodes reachable within `graph_maxdepth`. -/
theorem complete (fx : Bool) (tab : Table) (nd : NodeData) (c : GClass) (roots : List Node)
    (hcut : (graphOf fx tab nd c roots).cutBySize = false) :
    ∀ n, ReachLe (succN (succOf tab nd c)) roots
        (if c.nested then max 1 (cfgOf fx tab nd c roots).maxNesting else 1) n →
      n ∈ (graphOf fx tab nd c roots).added := by
  intro n hn
  refine addNodes_complete (cfgOf fx tab nd c roots) roots roots 1 _ (by omega) ?_ ?_ hcut _ n ?_ ?_ hn
  · rintro m ⟨k, hk, hr⟩
    have : k = 0 := by omega
    subst this
    cases hr with
    | root h => exact mem_dedup.2 h
  · intro m hm hmn; exact absurd (mem_dedup.1 hm) hmn
  · intro hc; simp [cfgOf] at hc; simp [hc, cfgOf]
  · intro hc; simp [cfgOf] at hc; simp [hc]

/-- **Exactness of the drawn node set** (`sound` + `complete`). -/
theorem exact_nodes (fx : Bool) (tab : Table) (nd : NodeData) (c : GClass) (roots : List Node)
    (hcut : (graphOf fx tab nd c roots).cutBySize = false) (n : Node) :
    n ∈ (graphOf fx tab nd c roots).added ↔
      ReachLe (succN (succOf tab nd c)) roots
        (if c.nested then max 1 (cfgOf fx tab nd c roots).maxNesting else 1) n :=
  ⟨sound fx tab nd c roots n, complete fx tab nd c roots hcut n⟩

/-- **Inverse bookkeeping.**  After any sequence of node creations (`register` / `get_node`,
    recursively, in any order, with cycles), `b` is in a forward set of `a` (`uses`, `ancestor`,
    `comp_types`, `calls`, `interfaces`, `efferent`) iff `a` is in the corresponding inverse set
    of `b` (`used_by`, `children`, `comp_of`, `called_by`, `interfaced_by`, `afferent`). -/
theorem inverse_sets (tab : Table) (fuel : Nat) (work : List Node) (nd : NodeData)
    (h : create tab fuel work {} = some nd) (a b : Node) (r : Rel) :
    a ∈ invOf nd b r ↔ b ∈ fwdOf nd a r :=
  inv_iff_fwd (create_consistent tab fuel work {} nd consistent_empty h) a b r

/-- ... and creating more nodes later (the roots of the project-wide call graph) keeps it so. -/
theorem inverse_sets_later (tab : Table) (f1 f2 : Nat) (w1 w2 : List Node) (nd1 nd2 : NodeData)
    (h1 : create tab f1 w1 {} = some nd1) (h2 : create tab f2 w2 nd1 = some nd2) (a b : Node) (r : Rel) :
    a ∈ invOf nd2 b r ↔ b ∈ fwdOf nd2 a r :=
  inv_iff_fwd (create_consistent tab f2 w2 nd1 nd2
    (create_consistent tab f1 w1 {} nd1 consistent_empty h1) h2) a b r

/-- **"Used by" is the exact inverse of "uses"**: the used-by graph visits `a` from `c` with
    edge `e` iff the uses graph visits `c` from `a` with the same edge (same direction, same
    style: dashed USE, solid submodule ancestry). -/
theorem usedBy_inverse (tab : Table) (nd : NodeData) (h : Consistent nd) (a c : Node) (e : Edge) :
    (a, e) ∈ succOf tab nd .usedBy c ↔ (c, e) ∈ succOf tab nd .uses a := by
  simp only [succOf, List.mem_append, mem_map_pair, inv_iff_fwd h]

/-- **"Inherited by" is the exact inverse of "inherits"** (composition dashed, extension solid). -/
theorem inheritedBy_inverse (tab : Table) (nd : NodeData) (h : Consistent nd) (a c : Node) (e : Edge) :
    (a, e) ∈ succOf tab nd .inheritedBy c ↔ (c, e) ∈ succOf tab nd .inherits a := by
  simp only [succOf, List.mem_append, mem_map_pair, inv_iff_fwd h]

/-- **The afferent file graph is the exact inverse of the efferent one.** -/
theorem afferent_inverse (tab : Table) (nd : NodeData) (h : Consistent nd) (a c : Node) (e : Edge) :
    (a, e) ∈ succOf tab nd .afferent c ↔ (c, e) ∈ succOf tab nd .efferent a := by
  simp only [succOf, mem_map_pair, inv_iff_fwd h]

/-- **"Called by" is the inverse of "calls"** as a relation between nodes, for every callee
    that is not a program.  (Partial: the *style* differs for calls leaving a generic
    type-bound procedure — dashed in "calls", solid in "called by" — see the witness.) -/
theorem calledBy_inverse_partial (tab : Table) (nd : NodeData) (h : Consistent nd) (a c : Node)
    (hp : (ent tab c).kind ≠ .prog) :
    (∃ e, (a, e) ∈ succOf tab nd .calledBy c) ↔ (∃ e, (c, e) ∈ succOf tab nd .calls a) := by
  have hp' : ((ent tab c).kind == Kind.prog) = false := by simpa using hp
  simp only [succOf, hp', Bool.false_eq_true, if_false, List.mem_append, mem_map_pair, inv_iff_fwd h]
  constructor
  · rintro ⟨e, (⟨h1, _⟩ | ⟨h1, _⟩)⟩
    · exact ⟨_, Or.inl ⟨h1, rfl⟩⟩
    · exact ⟨_, Or.inr ⟨h1, rfl⟩⟩
  · rintro ⟨e, (⟨h1, _⟩ | ⟨h1, _⟩)⟩
    · exact ⟨_, Or.inl ⟨h1, rfl⟩⟩
    · exact ⟨_, Or.inr ⟨h1, rfl⟩⟩

/-- ... and with the same style whenever the caller is not a generic type-bound procedure. -/
theorem calledBy_inverse_style (tab : Table) (nd : NodeData) (h : Consistent nd) (a c : Node) (e : Edge)
    (hp : (ent tab c).kind ≠ .prog) (hb : (ent tab a).isBoundType = false) :
    (a, e) ∈ succOf tab nd .calledBy c ↔ (c, e) ∈ succOf tab nd .calls a := by
  have hp' : ((ent tab c).kind == Kind.prog) = false := by simpa using hp
  simp only [succOf, hp', hb, Bool.false_eq_true, if_false, List.mem_append, mem_map_pair, inv_iff_fwd h]

/-- Witness for the excluded class: a generic binding `0` with specific `1`: the edge is dashed
    in the "calls" direction and solid in the "called by" direction. -/
theorem calledBy_style_witness :
    let tab : Table := [{ kind := .proc, isBoundType := true }, { kind := .proc }]
    let nd : NodeData := { created := [0, 1], fwd := [⟨0, .call, 1⟩], inv := [⟨1, .call, 0⟩] }
    (1, ⟨0, 1, .dashed⟩) ∈ succOf tab nd .calls 0 ∧ (0, ⟨0, 1, .solid⟩) ∈ succOf tab nd .calledBy 1 := by
  decide

/-- **`get_call_nodes` shows only the nearest visible, non-simple-binding descendants**:
    everything it returns is `Nearest` to one of the given calls ... -/
theorem call_skip_sound (tab : Table) (fuel : Nat) (calls r : List Node)
    (h : callNodesAux tab fuel calls [] [] = some r) :
    ∀ x ∈ r, ∃ c ∈ calls, Nearest tab c x :=
  callNodesAux_sound tab (fun x => ∃ c ∈ calls, Nearest tab c x) fuel calls [] [] r
    (by simp) (fun c hc x hx => ⟨c, hc, hx⟩) h

/-- ... **and all of them** (cycles of invisible procedures included: `visited` only prunes
    what was already expanded). -/
theorem call_skip_complete (tab : Table) (fuel : Nat) (calls r : List Node)
    (h : callNodesAux tab fuel calls [] [] = some r) :
    ∀ c ∈ calls, ∀ x, Nearest tab c x → x ∈ r :=
  fun c hc x hx =>
    callNodesAux_complete tab fuel calls [] [] r ⟨by simp, by simp⟩ h c x (Or.inr hc) hx

/-- every node `get_call_nodes` returns is visible and not a simple binding -/
theorem call_skip_kept (tab : Table) (fuel : Nat) (calls r : List Node)
    (h : callNodesAux tab fuel calls [] [] = some r) : ∀ x ∈ r, keep tab x = true := by
  intro x hx
  obtain ⟨c, hc, hn⟩ := call_skip_sound tab fuel calls r h x hx
  clear hx h hc
  induction hn with
  | here hk => exact hk
  | skip _ _ _ ih => exact ih

/-- **`get_call_nodes` always runs to its end**: with the fuel the model supplies the work list is
    never cut short, on any table (cycles of hidden procedures, simple bindings, names the table
    does not know), so `callNodes` is the value the three theorems above speak about. -/
theorem call_skip_total (tab : Table) (calls : List Node) :
    callNodesAux tab (callFuel tab + calls.length) calls [] [] = some (callNodes tab calls) :=
  callNodes_spec tab calls

/-- **The nodes shown for a call list are exactly the nearest visible, non-simple-binding
    descendants of its calls** — unconditionally, for every table and every call list.  The right
    hand side mentions nothing but the entity table and the list: what is shown for a caller does
    not depend on which other callers were walked before it, nor on their order. -/
theorem call_skip_exact (tab : Table) (calls : List Node) (x : Node) :
    x ∈ callNodes tab calls ↔ ∃ c ∈ calls, Nearest tab c x :=
  mem_callNodes tab calls x

/-- **Every caller of a procedure shows everything that stands in for it**: whatever is shown for
    the single call `c` is shown for every call list that contains `c` (a hidden helper shared by
    many callers is expanded in full for each of them) ... -/
theorem call_skip_every_caller (tab : Table) (calls : List Node) (c : Node) (hc : c ∈ calls) :
    ∀ x ∈ callNodes tab [c], x ∈ callNodes tab calls := by
  intro x hx
  obtain ⟨c', hc', hn⟩ := (mem_callNodes tab [c] x).1 hx
  simp only [List.mem_singleton] at hc'
  subst hc'
  exact (mem_callNodes tab calls x).2 ⟨_, hc, hn⟩

/-- ... and a call list shows nothing but the union of what its calls show one by one (sharing
    `visited` between the calls of one list loses nothing and adds nothing). -/
theorem call_skip_union (tab : Table) (a b : List Node) (x : Node) :
    x ∈ callNodes tab (a ++ b) ↔ x ∈ callNodes tab a ∨ x ∈ callNodes tab b := by
  simp only [mem_callNodes, List.mem_append]
  constructor
  · rintro ⟨c, hc | hc, hn⟩
    · exact Or.inl ⟨c, hc, hn⟩
    · exact Or.inr ⟨c, hc, hn⟩
  · rintro (⟨c, hc, hn⟩ | ⟨c, hc, hn⟩)
    · exact ⟨c, Or.inl hc, hn⟩
    · exact ⟨c, Or.inr hc, hn⟩

/-- **What stands in for a hidden procedure is what stands in for its own calls and bindings** —
    the fixed-point equation of the skipping rule, for every hidden procedure or simple binding,
    on a cycle of hidden procedures or not (mutually recursive helpers stand for the same nodes
    whichever of them a caller enters first). -/
theorem call_skip_hidden_unfold (tab : Table) (c x : Node) (hk : keep tab c = false) :
    x ∈ callNodes tab [c] ↔ x ∈ callNodes tab (callChildren tab c) := by
  simp only [mem_callNodes, List.mem_singleton, exists_eq_left]
  exact nearest_skip_iff tab c x hk

/-- **`graph: false` removes the entity's own graphs**: every per-entity graph `graph_all`
    draws belongs to an entity whose metadata say `graph: true`. -/
theorem graph_false_no_own_graph (fx : Bool) (tab : Table) (nd : NodeData) (order : List Node) (e : Node)
    (c : GClass) (g : GState) (h : (e, c, g) ∈ perEntityOf fx tab nd (registered tab order)) :
    (ent tab e).graph = true := by
  simp only [perEntityOf, List.mem_flatMap, entityGraphs, List.mem_map, Prod.mk.injEq] at h
  obtain ⟨r, hr, _, _, rfl, _⟩ := h
  simp [registered] at hr
  exact hr.2

/-- **`graph: false` and the project-wide graphs (partial).**  An entity with `graph: false`
    is never a *root* of the project-wide module graph ... -/
theorem graph_false_not_root_partial (tab : Table) (order : List Node) (per : List (Node × GClass × GState)) :
    ∀ e ∈ useRootsOf tab (registered tab order) per, (ent tab e).graph = true := by
  intro e he
  simp only [useRootsOf, List.mem_append, List.mem_filter, registered] at he
  rcases he with ((he | he) | he) | he
  · exact he.1.2
  · exact he.1.1.2
  · exact he.1.1.2
  · exact he.1.1.2

/-- ... **but it is still drawn there when a registered entity depends on it** (witness:
    module 0 uses module 1, module 1 says `graph: false`; only module 0 is registered, yet the
    node of module 1 is created and the project-wide module graph shows it): the property's
    last clause does not hold for the code as it is. -/
theorem graph_false_witness :
    let tab : Table := [{ kind := .mod, uses := [1], maxNodes := 10 }, { kind := .mod, graph := false }]
    let nd : NodeData := { created := [0, 1], fwd := [⟨0, .uses, 1⟩], inv := [⟨1, .uses, 0⟩] }
    (ent tab 1).graph = false ∧ registered tab [0, 1] = [0] ∧ create tab 10 [0] {} = some nd
      ∧ useRootsOf tab [0] (perEntityOf false tab nd [0]) = [0]
      ∧ 1 ∈ (graphOf false tab nd .module [0]).added := by
  refine ⟨by decide, by decide, by decide, ?_, ?_⟩
  · simp [useRootsOf, isKind, ent]
  · rw [graphOf, runGraph, addNodes]
    decide

/-- **Each graph is drawn over exactly the relation derived from the source.**  After any run of
    `register` / `get_node` the forward set `r` of node `a` contains `t` iff `a` has a node and the
    entity table declares `t` for `a` under `r` (module USE and submodule ancestry, type extension
    and composition, the shown calls, interface-to-implementation, file dependencies): no link is
    lost, none is invented, for every creation order and every cyclic relation. -/
theorem relation_exact (tab : Table) (fuel : Nat) (work : List Node) (nd : NodeData)
    (h : create tab fuel work {} = some nd) (a t : Node) (r : Rel) :
    t ∈ fwdOf nd a r ↔ a ∈ nd.created ∧ (r, t) ∈ targets tab a := by
  rw [mem_fwdOf]
  exact create_exact tab fuel work {} nd (linksExact_empty tab) h a r t

/-- ... also after the second creation phase (roots of the project-wide call graph). -/
theorem relation_exact_later (tab : Table) (f1 f2 : Nat) (w1 w2 : List Node) (nd1 nd2 : NodeData)
    (h1 : create tab f1 w1 {} = some nd1) (h2 : create tab f2 w2 nd1 = some nd2) (a t : Node) (r : Rel) :
    t ∈ fwdOf nd2 a r ↔ a ∈ nd2.created ∧ (r, t) ∈ targets tab a := by
  rw [mem_fwdOf]
  exact create_exact tab f2 w2 nd1 nd2 (create_exact tab f1 w1 {} nd1 (linksExact_empty tab) h1) h2 a r t

/-- every registered entity has a node object (so `relation_exact` speaks about all of them) -/
theorem registered_have_nodes (tab : Table) (fuel : Nat) (work : List Node) (nd : NodeData)
    (h : create tab fuel work {} = some nd) : ∀ x ∈ work, x ∈ nd.created :=
  (create_created tab fuel work {} nd h).2

/-- **Caller-to-callee edges, node level.**  After any run of `register` / `get_node` (any
    creation order, both phases) the `calls` set of the node of a procedure or program `a` holds
    `t` iff `a` has a node and `t` is a nearest visible, non-simple-binding descendant of one of
    the calls (for procedures: and bindings) of `a`. -/
theorem calls_shown_exact (tab : Table) (f1 f2 : Nat) (w1 w2 : List Node) (nd1 nd2 : NodeData)
    (h1 : create tab f1 w1 {} = some nd1) (h2 : create tab f2 w2 nd1 = some nd2) (a t : Node) :
    t ∈ fwdOf nd2 a .call ↔ a ∈ nd2.created ∧ ∃ c ∈ rawCalls tab a, Nearest tab c t := by
  rw [relation_exact_later tab f1 f2 w1 w2 nd1 nd2 h1 h2, mem_targets_call, mem_callNodes]

/-- **Two callers of the same hidden procedure show the same stand-ins.**  If the nodes of `a` and
    `b` both exist and both entities call `h`, then every node that stands in for `h` is in the
    `calls` set of `a` **and** of `b`, and (inverse sets) both are in its `called_by` set —
    whichever of the two nodes was created first. -/
theorem hidden_shared_by_callers (tab : Table) (f1 f2 : Nat) (w1 w2 : List Node) (nd1 nd2 : NodeData)
    (h1 : create tab f1 w1 {} = some nd1) (h2 : create tab f2 w2 nd1 = some nd2) (a b h t : Node)
    (ha : a ∈ nd2.created) (hb : b ∈ nd2.created)
    (hha : h ∈ rawCalls tab a) (hhb : h ∈ rawCalls tab b) (ht : Nearest tab h t) :
    (t ∈ fwdOf nd2 a .call ∧ t ∈ fwdOf nd2 b .call) ∧ (a ∈ invOf nd2 t .call ∧ b ∈ invOf nd2 t .call) := by
  have fa := (calls_shown_exact tab f1 f2 w1 w2 nd1 nd2 h1 h2 a t).2 ⟨ha, h, hha, ht⟩
  have fb := (calls_shown_exact tab f1 f2 w1 w2 nd1 nd2 h1 h2 b t).2 ⟨hb, h, hhb, ht⟩
  exact ⟨⟨fa, fb⟩, (inverse_sets_later tab f1 f2 w1 w2 nd1 nd2 h1 h2 a t .call).2 fa,
    (inverse_sets_later tab f1 f2 w1 w2 nd1 nd2 h1 h2 b t .call).2 fb⟩

/-- **Bound procedures in the project-wide call graph (partial).**  A type-bound procedure of a
    registered type that `get_call_nodes` keeps as a node of its own (`keep`) is a root of the
    project-wide call graph, so the caller-to-callee edges that leave it are drawn there as they
    are in the "calls" graph of its callers.  Excluded for the code as it is (`fb = false`), by
    the decidable hypothesis `hx`: exactly one binding, to a procedure that is not shown (and not
    itself bound), not deferred — finding `C13-binding-to-hidden-not-root`, see
    `bound_root_witness`. -/
theorem bound_root_partial (tab : Table) (regs : List Node) (per : List (Node × GClass × GState))
    (t bp : Node) (ht : t ∈ regs) (hk : (ent tab t).kind = .type) (hb : bp ∈ (ent tab t).boundprocs)
    (hbound : (ent tab bp).isBound = true) (hkeep : keep tab bp = true)
    (hx : ¬ ∃ b, (ent tab bp).bindings = [b] ∧ (ent tab b).isBound = false
            ∧ (ent tab b).visibleF = false ∧ (ent tab bp).deferred = false) :
    bp ∈ callRootsOf false tab regs per := by
  have hroot : boundRoot false tab bp = true := by
    simp only [keep, isSimple, hbound, Bool.true_and, Bool.and_eq_true, Bool.not_eq_true'] at hkeep
    unfold boundRoot
    rcases hbs : (ent tab bp).bindings with _ | ⟨b, _ | ⟨c, rest⟩⟩
    · simp
    · rw [hbs] at hkeep
      cases hbb : (ent tab b).isBound
      · exfalso
        apply hx
        refine ⟨b, hbs, hbb, ?_, ?_⟩
        · cases hv : (ent tab b).visibleF <;> simp_all
        · cases hd : (ent tab bp).deferred <;> simp_all
      · simp [hbb]
    · simp
  simp only [callRootsOf, List.mem_append, mem_dedup, List.mem_flatMap, List.mem_filter]
  exact Or.inl (Or.inr ⟨t, ⟨ht, by simp [isKind, hk]⟩, hb, hroot⟩)

/-- ... with fixes/C13-binding-to-hidden-root.diff (`fb = true`: the same test as
    `is_simple_binding`) there is no excluded class: every kept bound procedure of a registered
    type is a root. -/
theorem bound_root_fixed (tab : Table) (regs : List Node) (per : List (Node × GClass × GState))
    (t bp : Node) (ht : t ∈ regs) (hk : (ent tab t).kind = .type) (hb : bp ∈ (ent tab t).boundprocs)
    (hbound : (ent tab bp).isBound = true) (hkeep : keep tab bp = true) :
    bp ∈ callRootsOf true tab regs per := by
  have hroot : boundRoot true tab bp = true := by
    simp only [keep, isSimple, hbound, Bool.true_and, Bool.and_eq_true, Bool.not_eq_true'] at hkeep
    unfold boundRoot
    rcases hbs : (ent tab bp).bindings with _ | ⟨b, rest⟩
    · simp
    · rw [hbs] at hkeep
      have h2 := hkeep.2
      cases rest with
      | cons c r => simp
      | nil =>
        cases hbb : (ent tab b).isBound
        · cases hd : (ent tab bp).deferred <;> cases hv : (ent tab b).visibleF <;> simp_all
        · simp [hbb]
  simp only [callRootsOf, List.mem_append, mem_dedup, List.mem_flatMap, List.mem_filter]
  exact Or.inl (Or.inr ⟨t, ⟨ht, by simp [isKind, hk]⟩, hb, hroot⟩)

/-- Witness for the excluded class: type `0` with the binding `2 => 3`, `3` hidden and calling
    the visible `4`, procedure `1` calling the binding.  The binding is kept as a node and the
    "calls" graph of `1` draws `2 -> 4`; the project-wide call graph of the code as it is draws
    node `2` but not that edge; with the repaired test it does. -/
theorem bound_root_witness :
    let tab : Table := [{ kind := .type, boundprocs := [2], maxNodes := 10 },
      { kind := .proc, calls := [2], maxDepth := 3, maxNodes := 10 },
      { kind := .proc, isBoundType := true, isBound := true, bindings := [3] },
      { kind := .proc, visible := false, calls := [4] },
      { kind := .proc, maxDepth := 3, maxNodes := 10 }]
    let asIs := graphAll false false tab [0, 1, 4]
    let fixed := graphAll false true tab [0, 1, 4]
    keep tab 2 = true ∧ asIs.ok = true ∧ fixed.ok = true
      ∧ (asIs.perEntity.any fun (e, c, g) => e == 1 && c == .calls && g.edges.contains ⟨2, 4, .dashed⟩) = true
      ∧ 2 ∈ asIs.callGraph.added ∧ (⟨2, 4, .dashed⟩ : Edge) ∉ asIs.callGraph.edges
      ∧ (⟨2, 4, .dashed⟩ : Edge) ∈ fixed.callGraph.edges := by
  decide +kernel

/-- **Interface-to-implementation, generic interfaces (decision table read from the source).**
    Whatever Python class represents a specific procedure — subroutine, function, interface body
    of a separate module procedure or of an external procedure, `module procedure`
    implementation, type-bound procedure: every class `ford.graphs.is_proc` accepts — the
    guard of `ProcNode.__init__` links it when it is visible and never when it is hidden;
    names of external procedures (strings) are always linked. -/
theorem iface_rule_specific :
    ∀ r ∈ C13Gen.ifaceRules,
      (r.isProc = true → r.modproc = true ∧ r.modprocHidden = false) ∧ (r.isStr = true → r.modproc = true) := by
  decide

/-- a specific procedure that `correlate` did not match (`None`) is never linked, and neither is
    the placeholder `False` / `True` of a separate module procedure without implementation -/
theorem iface_rule_unmatched :
    (ruleOfIn C13Gen.ifaceRules 0).modproc = false ∧ (ruleOfIn C13Gen.ifaceRules 0).modprocHidden = false
      ∧ (ruleOfIn C13Gen.ifaceRules 1).impl = false ∧ (ruleOfIn C13Gen.ifaceRules 2).impl = false := by
  decide

/-- **Interface-to-implementation, separate module procedures (partial).**  Among the classes
    that carry the `module` marker (those whose instances `correlate` can record as the
    implementation of a module procedure interface), every subclass of `FortranProcedure` is
    linked when visible and never when hidden.  Excluded, by the decidable hypothesis
    `isProcedure`: `FortranModuleProcedureImplementation` (`module procedure name … end procedure`),
    which carries the marker but is no `FortranProcedure` — finding `C13-modproc-impl-no-edge`,
    see `iface_impl_witness`. -/
theorem iface_rule_impl_partial :
    ∀ r ∈ C13Gen.ifaceRules, r.declaresModule = true → r.isProcedure = true →
      r.impl = true ∧ r.implHidden = false := by
  decide

/-- no class has a hidden implementation linked, the excluded one included -/
theorem iface_rule_impl_hidden :
    ∀ r ∈ C13Gen.ifaceRules, r.isProc = true → r.implHidden = false := by
  decide

/-- **A generic interface shows every specific procedure.**  For every table, an interface
    entity links each visible specific procedure `correlate` matched (any class `is_proc` accepts,
    or an external name) ... -/
theorem iface_specific_linked (tab : Table) (i m : Node)
    (hk : (ent tab i).kind = .proc) (hi : (ent tab i).isIface = true)
    (hm : m ∈ (ent tab i).modprocs)
    (hp : (ruleOfIn C13Gen.ifaceRules (ent tab m).cls).isProc = true
          ∨ (ruleOfIn C13Gen.ifaceRules (ent tab m).cls).isStr = true)
    (hv : (ent tab m).visible = true) :
    (Rel.iface, m) ∈ targets tab i := by
  rw [mem_targets_iface hk hi]
  have key := ruleOfIn_all C13Gen.ifaceRules
    (fun r => (r.isProc = true → r.modproc = true ∧ r.modprocHidden = false) ∧ (r.isStr = true → r.modproc = true))
    iface_rule_specific (by decide) (ent tab m).cls
  have hl : specificLinked C13Gen.ifaceRules tab m = true := by
    simp only [specificLinked, hv, if_true]
    rcases hp with hp | hp
    · exact (key.1 hp).1
    · exact key.2 hp
  simp only [ifaceTargets, List.mem_append, List.mem_filter]
  exact Or.inl ⟨hm, hl⟩

/-- ... never a hidden one, ... -/
theorem iface_specific_hidden (tab : Table) (i m : Node)
    (hk : (ent tab i).kind = .proc) (hi : (ent tab i).isIface = true)
    (hp : (ruleOfIn C13Gen.ifaceRules (ent tab m).cls).isProc = true)
    (hv : (ent tab m).visible = false) :
    (Rel.iface, m) ∉ targets tab i := by
  rw [mem_targets_iface hk hi]
  have k1 := ruleOfIn_all C13Gen.ifaceRules
    (fun r => (r.isProc = true → r.modproc = true ∧ r.modprocHidden = false) ∧ (r.isStr = true → r.modproc = true))
    iface_rule_specific (by decide) (ent tab m).cls
  have k2 := ruleOfIn_all C13Gen.ifaceRules (fun r => r.isProc = true → r.implHidden = false)
    iface_rule_impl_hidden (by decide) (ent tab m).cls
  simp only [ifaceTargets, List.mem_append, List.mem_filter, specificLinked, implLinked, hv,
    Bool.false_eq_true, if_false, (k1.1 hp).2, k2 hp, and_false, or_self, not_false_eq_true]

/-- ... and nothing but its specific procedures and its implementation: no interface edge is invented. -/
theorem iface_links_sound (tab : Table) (i m : Node)
    (hk : (ent tab i).kind = .proc) (hi : (ent tab i).isIface = true)
    (h : (Rel.iface, m) ∈ targets tab i) :
    m ∈ (ent tab i).modprocs ∨ (ent tab i).impl = some m := by
  rw [mem_targets_iface hk hi] at h
  simp only [ifaceTargets, List.mem_append, List.mem_filter] at h
  rcases h with h | h
  · exact Or.inl h.1
  · right
    cases hx : (ent tab i).impl with
    | none => simp [hx, optList] at h
    | some x => simp [hx, optList] at h; rw [h.1]

/-- **The edge is drawn in both graphs.**  Once the interface `i` has a node, the dashed edge
    `i -> m` to each such specific procedure is what the "calls" graph of `i` draws, and the very
    same edge is what the "called by" graph of `m` draws. -/
theorem iface_edge_drawn (tab : Table) (fuel : Nat) (work : List Node) (nd : NodeData)
    (h : create tab fuel work {} = some nd) (i m : Node) (hw : i ∈ work)
    (hk : (ent tab i).kind = .proc) (hi : (ent tab i).isIface = true)
    (hm : m ∈ (ent tab i).modprocs)
    (hp : (ruleOfIn C13Gen.ifaceRules (ent tab m).cls).isProc = true
          ∨ (ruleOfIn C13Gen.ifaceRules (ent tab m).cls).isStr = true)
    (hv : (ent tab m).visible = true) (hg : (ent tab m).kind ≠ .prog) :
    (m, ⟨i, m, .dashed⟩) ∈ succOf tab nd .calls i ∧ (i, ⟨i, m, .dashed⟩) ∈ succOf tab nd .calledBy m := by
  have hf : m ∈ fwdOf nd i .iface :=
    (relation_exact tab fuel work nd h i m .iface).2
      ⟨registered_have_nodes tab fuel work nd h i hw, iface_specific_linked tab i m hk hi hm hp hv⟩
  have hc := create_consistent tab fuel work {} nd consistent_empty h
  have hg' : ((ent tab m).kind == Kind.prog) = false := by simpa using hg
  constructor
  · simp only [succOf, List.mem_append, mem_map_pair]
    exact Or.inr ⟨hf, trivial⟩
  · simp only [succOf, hg', Bool.false_eq_true, if_false, List.mem_append, mem_map_pair, inv_iff_fwd hc]
    exact Or.inr ⟨hf, trivial⟩

/-- Witness for the class excluded in `iface_rule_impl_partial`: with the row the unchanged tree
    yields for `FortranModuleProcedureImplementation` (a procedure class carrying the `module`
    marker, not linked as an implementation), the visible implementation `1` of the module
    procedure interface `0` gets no interface-to-implementation link. -/
theorem iface_impl_witness :
    let rules : List C13Gen.IfaceRule :=
      [{ name := "FortranModuleProcedureInterface", isProc := true, modproc := true },
       { name := "FortranModuleProcedureImplementation", isProc := true, declaresModule := true,
         modproc := true, impl := false }]
    let tab : Table := [{ kind := .proc, isIface := true, cls := 0, impl := some 1 }, { kind := .proc, cls := 1 }]
    (ent tab 1).visible = true ∧ ifaceTargets rules tab 0 = [] := by
  decide

/-- **Every node constructor registers both directions of every relation (table read from the
    source).**  For every class of ford.sourceform the graph code accepts (modules, submodules, types,
    every kind of procedure, programs, BLOCK DATA units, source files) and every attribute its node
    constructor reads, the real constructor — run by the translator on a stub object — stores the
    target's node on the new node **and** the new node in the inverse set of the target.  A constructor
    that fills `uses` without `used_by` (or skips one of the lists of program units of a file) changes
    a row of the regenerated table and breaks this proof. -/
theorem ctor_links_both_directions :
    ∀ r ∈ C13Gen.ctorLinks, r.fwd = true ∧ r.inv = true := by
  decide

/-- **The constructors read exactly the slots the model gives their node class.**  For every class
    with a node constructor, a slot is read by the real constructor (a row of the regenerated table)
    iff `slotsOf` lists it for the node class — USE for modules, submodules, procedures, programs and
    BLOCK DATA units; ancestry for submodules; extension and composition for types; calls (and
    bindings, for procedures); file dependencies for source files.  No relation of a program unit is
    left out of the model, none is in the model only. -/
theorem ctor_slots_match_model (c : Nat × Nat) (hc : c ∈ C13Gen.ctorClasses) (k : Kind) (hk : k.code = c.2)
    (s : Slot) :
    s ∈ slotsOf k ↔ ∃ r ∈ C13Gen.ctorLinks, r.cls = c.1 ∧ r.slot = s.code := by
  have key : ∀ c ∈ C13Gen.ctorClasses, ∀ k ∈ allKinds, k.code = c.2 → ∀ s ∈ allSlots,
      (s ∈ slotsOf k ↔ ∃ r ∈ C13Gen.ctorLinks, r.cls = c.1 ∧ r.slot = s.code) := by
    decide
  exact key c hc k (mem_allKinds k) hk s (mem_allSlots s)

/-- every node class of the model is the node class of some class of ford.sourceform (no part of
    `slotsOf` is beyond the reach of the table), and the rows of the table belong to listed classes -/
theorem ctor_classes_cover :
    (∀ k ∈ allKinds, k ≠ .ext → ∃ c ∈ C13Gen.ctorClasses, c.2 = k.code)
      ∧ (∀ r ∈ C13Gen.ctorLinks, (r.cls, r.kind) ∈ C13Gen.ctorClasses) := by
  decide

/-- **Every kind of documented entity is handed to the graph manager (partial).**  Every list of
    entities of a `Project` whose declared element class has a node constructor is among the lists
    `Documentation.__init__` registers with `GraphManager` (both read from the source: ford/output.py,
    ford/fortran_project.py).  Excluded by the decidable hypothesis: the list of abstract interfaces,
    which have pages but — calling nothing, called by nothing — no graphs (`registration_witness`). -/
theorem registration_partial :
    ∀ l ∈ C13Gen.projectLists, (∃ c ∈ C13Gen.ctorClasses, c.1 = l.cls) → l.name ≠ "absinterfaces" →
      l.registered = true := by
  decide

/-- ... so every node class of the model — modules, submodules, types, procedures, programs, files,
    BLOCK DATA units — has a registered list whose entities get it; and nothing is registered that
    the graph code has no node class for. -/
theorem registration_covers_kinds :
    (∀ k ∈ allKinds, k ≠ .ext →
        ∃ l ∈ C13Gen.projectLists, l.registered = true ∧ (l.cls, k.code) ∈ C13Gen.ctorClasses)
      ∧ (∀ l ∈ C13Gen.projectLists, l.registered = true → ∃ c ∈ C13Gen.ctorClasses, c.1 = l.cls) := by
  decide

/-- the excluded list: its element class (`FortranInterface`) has a node constructor, it is not registered -/
theorem registration_witness :
    ∃ l ∈ C13Gen.projectLists, l.name = "absinterfaces" ∧ (∃ c ∈ C13Gen.ctorClasses, c.1 = l.cls)
      ∧ l.registered = false := by
  decide

/-- **Whatever a relation slot holds ends in both sets.**  After any run of `register` / `get_node`
    (any order, both creation phases), for every entity `a` that has a node — module, submodule, type,
    procedure, program, BLOCK DATA unit or file — and every entity `t` one of its (non-call) slots
    holds: `t` is in the forward set of `a` **and** `a` is in the inverse set of `t` (`used_by`,
    `children`, `comp_of`, `afferent`).  (Types of an external project link nothing: `hx`.) -/
theorem ctor_slot_linked (tab : Table) (f1 f2 : Nat) (w1 w2 : List Node) (nd1 nd2 : NodeData)
    (h1 : create tab f1 w1 {} = some nd1) (h2 : create tab f2 w2 nd1 = some nd2) (a t : Node) (s : Slot)
    (ha : a ∈ nd2.created) (hs : s ∈ slotsOf (ent tab a).kind) (hc : s.isCall = false)
    (hx : (ent tab a).kind = .type → (ent tab a).extUrl = false)
    (ht : t ∈ slotVals (ent tab a) s) :
    t ∈ fwdOf nd2 a s.rel ∧ a ∈ invOf nd2 t s.rel := by
  have hf : t ∈ fwdOf nd2 a s.rel :=
    (relation_exact_later tab f1 f2 w1 w2 nd1 nd2 h1 h2 a t s.rel).2
      ⟨ha, targets_slot_complete tab a t s hs hc hx ht⟩
  exact ⟨hf, (inverse_sets_later tab f1 f2 w1 w2 nd1 nd2 h1 h2 a t s.rel).2 hf⟩

/-- ... **and nothing else does**: every member of a forward set (interface-to-implementation links
    aside, which have their own table) comes from a slot of the entity's node class — for the
    non-call slots it is literally a value of the slot, for the call slots it is a nearest shown
    descendant (`calls_shown_exact`). -/
theorem ctor_links_only_slots (tab : Table) (f1 f2 : Nat) (w1 w2 : List Node) (nd1 nd2 : NodeData)
    (h1 : create tab f1 w1 {} = some nd1) (h2 : create tab f2 w2 nd1 = some nd2) (a t : Node) (r : Rel)
    (hr : r ≠ .iface) (h : t ∈ fwdOf nd2 a r) :
    ∃ s ∈ slotsOf (ent tab a).kind, s.rel = r ∧ (s.isCall = false → t ∈ slotVals (ent tab a) s) :=
  targets_slot_sound tab a t r ((relation_exact_later tab f1 f2 w1 w2 nd1 nd2 h1 h2 a t r).1 h).2 hr

/-- **"Used by" knows every kind of program unit.**  Whatever has a node and a USE statement for `m`
    — a module, a submodule, a procedure, a program or a BLOCK DATA unit — is visited by the
    "used by" graph of `m`, with the dashed edge `a -> m` the "uses" graph of `a` draws. -/
theorem usedBy_every_unit (tab : Table) (f1 f2 : Nat) (w1 w2 : List Node) (nd1 nd2 : NodeData)
    (h1 : create tab f1 w1 {} = some nd1) (h2 : create tab f2 w2 nd1 = some nd2) (a m : Node)
    (ha : a ∈ nd2.created) (hk : Slot.uses ∈ slotsOf (ent tab a).kind) (hm : m ∈ (ent tab a).uses) :
    (a, ⟨a, m, .dashed⟩) ∈ succOf tab nd2 .usedBy m ∧ (m, ⟨a, m, .dashed⟩) ∈ succOf tab nd2 .uses a := by
  have hx : (ent tab a).kind = .type → (ent tab a).extUrl = false := by
    intro ht; rw [ht] at hk; simp [slotsOf] at hk
  have hl := ctor_slot_linked tab f1 f2 w1 w2 nd1 nd2 h1 h2 a m .uses ha hk rfl hx hm
  simp only [succOf, List.mem_append, mem_map_pair]
  exact ⟨Or.inl ⟨hl.2, trivial⟩, Or.inl ⟨hl.1, trivial⟩⟩

/-- the calls a procedure / program node shows are computed from exactly its call slots -/
theorem call_slots_exact (tab : Table) (a : Node) :
    rawCalls tab a = ((slotsOf (ent tab a).kind).filter Slot.isCall).flatMap (slotVals (ent tab a)) :=
  rawCalls_eq_slots tab a

/-- Witness for what `ctor_links_both_directions` excludes: were the USE links of a BLOCK DATA unit
    stored on its own node only (`inv` left out), the "uses" graph of the unit `1` would draw the
    edge to module `0` while the "used by" graph of the module stays empty. -/
theorem ctor_one_direction_witness :
    let tab : Table := [{ kind := .mod, maxNodes := 10 }, { kind := .block, uses := [0], maxNodes := 10 }]
    let nd : NodeData := { created := [0, 1], fwd := [⟨1, .uses, 0⟩], inv := [] }
    (0, ⟨1, 0, .dashed⟩) ∈ succOf tab nd .uses 1 ∧ succOf tab nd .usedBy 0 = []
      ∧ (graphOf false tab nd .usedBy [0]).added = [0] := by
  refine ⟨by decide, by decide, ?_⟩
  rw [graphOf, runGraph, addNodes]
  decide

/-- **The table fall-back shows exactly the first hop of the relation.**  When a graph is put on
    its page as a table (`__str__`), it has a single root, its first hop did not fit beside the root
    within `graph_maxnodes`, nothing but the root is drawn — and the rows of the table (`hop_nodes`
    / `hop_edges`) are exactly what the class's `add_node` yields for the root: every entity one step
    away, every edge of that step, nothing from a later hop. -/
theorem table_shows_first_hop (fx : Bool) (tab : Table) (nd : NodeData) (c : GClass) (roots : List Node)
    (h : shownOf fx tab nd c roots = .table) :
    roots.length = 1
      ∧ (graphOf fx tab nd c roots).added = dedup roots ∧ (graphOf fx tab nd c roots).edges = []
      ∧ (graphOf fx tab nd c roots).hopNodes = hopOf (cfgOf fx tab nd c roots) (dedup roots) roots
      ∧ (graphOf fx tab nd c roots).hopEdges = hopEdgesOf (cfgOf fx tab nd c roots) roots
      ∧ (cfgOf fx tab nd c roots).maxNodes
          < (hopOf (cfgOf fx tab nd c roots) (dedup roots) roots).length + (dedup roots).length := by
  have hh : (graphOf fx tab nd c roots).hopNodes ≠ [] ∧ roots.length = 1 := by
    unfold shownOf shownAs at h
    simp only at h
    repeat' split at h
    all_goals first | cases h | skip
    rename_i h1
    simpa [List.isEmpty_iff] using h1
  obtain ⟨h1, h2, _, h4, h5, h6⟩ := runGraph_table (cfgOf fx tab nd c roots) roots hh.1
  exact ⟨hh.2, h1, h2, h4, h5, h6⟩

/-- **A graph drawn as a picture respects the node limit and shows more than one node** ... -/
theorem svg_within_limits (fx : Bool) (tab : Table) (nd : NodeData) (c : GClass) (roots : List Node)
    (h : shownOf fx tab nd c roots = .svg) :
    1 < (graphOf fx tab nd c roots).added.length
      ∧ (graphOf fx tab nd c roots).added.length ≤ (cfgOf fx tab nd c roots).maxNodes := by
  unfold shownOf shownAs at h
  simp only at h
  repeat' split at h
  all_goals first | cases h | skip
  rename_i h1 h2 _ _
  constructor
  · by_cases hl : (graphOf fx tab nd c roots).added.length ≤ 1
    · exfalso; apply h1; refine ⟨hl, ?_⟩
      rename_i h4; simpa using h4
    · omega
  · omega

/-- ... **and every graph that has something to show and fits is shown**: more than one node, within
    `graph_maxnodes`, no root missing ⇒ the page carries the picture or the table, never nothing. -/
theorem shown_if_fits (fx : Bool) (tab : Table) (nd : NodeData) (c : GClass) (roots : List Node)
    (h1 : 1 < (graphOf fx tab nd c roots).added.length)
    (h2 : (graphOf fx tab nd c roots).added.length ≤ (cfgOf fx tab nd c roots).maxNodes)
    (h3 : roots.length ≤ (graphOf fx tab nd c roots).added.length) :
    shownOf fx tab nd c roots ≠ .nothing := by
  unfold shownOf shownAs
  simp only
  repeat' split
  all_goals first | omega | simp

/-- **The rows of the table name the entities beside the root (partial).**  The refused first hop of
    every graph class consists of edges that all leave the root or all enter it (`hop_edges_oriented`);
    for such a hop each row of the table shows the *other* end of its edge, with the style of the edge.
    Excluded for the code as it is, by the decidable hypothesis `hx`: the first kept edge leads from
    the root to itself (a recursive procedure, a type with a component of its own type) while some
    edge enters the root — finding `C13-table-self-loop`, see `table_rows_witness`. -/
theorem table_rows_partial (root : Node) (es : List Edge)
    (ho : (∀ e ∈ es, e.tail = root) ∨ (∀ e ∈ es, e.head = root))
    (hx : ¬ ∃ e0 rest, es = e0 :: rest ∧ e0.tail = root ∧ e0.head = root ∧ ∃ e ∈ es, e.tail ≠ root) :
    tableRows false root es = es.map (fun e => (otherEnd root e, e.style)) :=
  tableRows_asis root es ho hx

/-- ... with fixes/C13-table-self-loop.diff (the side is decided by the first edge that is not a
    self-loop) there is no excluded class. -/
theorem table_rows_fixed (root : Node) (es : List Edge)
    (ho : (∀ e ∈ es, e.tail = root) ∨ (∀ e ∈ es, e.head = root)) :
    tableRows true root es = es.map (fun e => (otherEnd root e, e.style)) :=
  tableRows_fixed root es ho

/-- the hypothesis `ho` holds for the first hop of every graph class and every root -/
theorem hop_edges_oriented (fx : Bool) (tab : Table) (nd : NodeData) (c : GClass) (r : Node) :
    (∀ e ∈ hopEdgesOf (cfgOf fx tab nd c [r]) [r], e.tail = r)
      ∨ (∀ e ∈ hopEdgesOf (cfgOf fx tab nd c [r]) [r], e.head = r) := by
  have h := succOf_oriented tab nd c r
  simp only [hopEdgesOf, cands, cfgOf, List.flatMap_cons, List.flatMap_nil, List.append_nil, List.mem_map]
  rcases h with h | h
  · left; rintro e ⟨p, hp, rfl⟩; exact h p hp
  · right; rintro e ⟨p, hp, rfl⟩; exact h p hp

/-- Witness for the excluded class: procedure `0` calls itself and is called by `1` and `2`; its
    "called by" hop starts with the self-loop, and the table of the code as it is names `0` three
    times (never `1` or `2`); with the fix it names `0`, `1`, `2`. -/
theorem table_rows_witness :
    let es : List Edge := [⟨0, 0, .solid⟩, ⟨1, 0, .solid⟩, ⟨2, 0, .solid⟩]
    tableRows false 0 es = [(0, .solid), (0, .solid), (0, .solid)]
      ∧ tableRows true 0 es = [(0, .solid), (1, .solid), (2, .solid)] := by
  decide

/-- non-vacuity (round 4): module `0`, BLOCK DATA unit `1` and program `2` both using it: after
    registering all three the module's `used_by` holds both, and its "used by" graph draws both edges. -/
example :
    let tab : Table := [{ kind := .mod, maxDepth := 5, maxNodes := 10 }, { kind := .block, uses := [0] },
      { kind := .prog, uses := [0] }]
    (graphAll false false tab [0, 1, 2]).perEntity.any (fun (e, c, g) =>
      e == 0 && c == .usedBy && g.edges.contains ⟨1, 0, .dashed⟩ && g.edges.contains ⟨2, 0, .dashed⟩) = true := by
  decide +kernel

/-- non-vacuity: a generic interface `0` over a subroutine `1`, an interface body `2` and a hidden
    procedure `3` links `1` and `2` under the generated table. -/
example :
    let sub := (C13Gen.ifaceRules.map (·.name)).idxOf "FortranSubroutine"
    let ifc := (C13Gen.ifaceRules.map (·.name)).idxOf "FortranModuleProcedureInterface"
    let tab : Table := [{ kind := .proc, isIface := true, cls := ifc, modprocs := [1, 2, 3] },
      { kind := .proc, cls := sub }, { kind := .proc, isIface := true, cls := ifc },
      { kind := .proc, cls := sub, visible := false }]
    ifaceTargets C13Gen.ifaceRules tab 0 = [1, 2] := by decide

/-- non-vacuity: an invisible procedure `1` between `0`'s call and the visible `2`, with a
    cycle `1 -> 1`: the call is shown as a call to `2`. -/
example :
    callNodesAux [{ kind := .proc, calls := [1] }, { kind := .proc, visible := false, calls := [1, 2] },
      { kind := .proc }] 10 [1] [] [] = some [2] := by decide

/-- non-vacuity: a simple binding (`1` bound to the visible `2`) is replaced by its target, a
    generic binding (`3` with two bindings) is kept. -/
example :
    callNodesAux [{ kind := .proc }, { kind := .proc, isBound := true, bindings := [2] },
      { kind := .proc, visibleF := true }, { kind := .proc, isBound := true, bindings := [1, 1] }]
      10 [1, 3] [] [] = some [2, 3] := by decide

/-- non-vacuity (round 3): two hidden helpers `2 ⇄ 3` that call each other and reach the visible
    `4` resp. `5`; the caller that enters at `2` and the caller that enters at `3` are shown the
    same two nodes. -/
example :
    let tab : Table := [{ kind := .proc, calls := [2] }, { kind := .proc, calls := [3] },
      { kind := .proc, visible := false, calls := [3, 4] }, { kind := .proc, visible := false, calls := [2, 5] },
      { kind := .proc }, { kind := .proc }]
    callNodes tab [2] = [5, 4] ∧ callNodes tab [3] = [4, 5] ∧ keep tab 2 = false ∧ keep tab 3 = false := by
  decide

/-! ## Round 6: the edges that are written (`add_to_graph`) and the labels of composition edges -/

/-- **No edge is invented.**  Every edge of every graph - all twelve classes, any limits, truncated or
    not - is an edge the class's `add_node` produces for a node drawn in that graph, towards a node drawn
    in that graph: tail, head *and* style are those of the relation (clause "each graph contains exactly
    the relation derived from the source", direction "nothing else"). -/
theorem edges_sound (fx : Bool) (tab : Table) (nd : NodeData) (c : GClass) (roots : List Node) :
    ∀ e ∈ (graphOf fx tab nd c roots).edges,
      ∃ n ∈ (graphOf fx tab nd c roots).added, ∃ x ∈ (graphOf fx tab nd c roots).added,
        (x, e) ∈ succOf tab nd c n := by
  intro e he
  have hs : EdgesFrom (cfgOf fx tab nd c roots) (graphOf fx tab nd c roots) :=
    addNodes_edges_sound _ _ _ _ (by intro e he; simp at he)
  obtain ⟨n, x, hx⟩ := hs e he
  obtain ⟨ht, hh⟩ := edges_closed fx tab nd c roots e he
  rcases succOf_wf tab nd c n x e hx with ⟨h1, h2⟩ | ⟨h1, h2⟩
  · exact ⟨n, h1 ▸ ht, x, h2 ▸ hh, hx⟩
  · exact ⟨n, h2 ▸ hh, x, h1 ▸ ht, hx⟩

/-- **No edge is lost.**  Unless `add_to_graph` refused a hop because of `graph_maxnodes`, the graph holds
    *every* edge `add_node` produces for every node that is closer to the roots than the depth bound
    (`graph_maxdepth` hops, at least one; the roots only for the project-wide graphs) - every edge, not
    one per pair of nodes: edges are told apart by tail, head and style, so two relations that join the
    same two entities are two arrows (clause "... exactly the relation ...", direction "all of it"). -/
theorem edges_complete (fx : Bool) (tab : Table) (nd : NodeData) (c : GClass) (roots : List Node)
    (hcut : (graphOf fx tab nd c roots).cutBySize = false) :
    ∀ d n, d + 1 ≤ (if c.nested then max 1 (cfgOf fx tab nd c roots).maxNesting else 1) →
      ReachLe (succN (succOf tab nd c)) roots d n →
      ∀ x e, (x, e) ∈ succOf tab nd c n → e ∈ (graphOf fx tab nd c roots).edges := by
  intro d n hd hn x e he
  refine addNodes_edges_complete (cfgOf fx tab nd c roots) roots roots 1 _ (by omega) ?_ ?_ ?_ hcut d n ?_ ?_
    hn x e he
  · rintro m ⟨k, hk, hr⟩
    have : k = 0 := by omega
    subst this
    cases hr with
    | root h => exact mem_dedup.2 h
  · intro m hm hmn; exact absurd (mem_dedup.1 hm) hmn
  · intro m hm hmn; exact absurd (mem_dedup.1 hm) hmn
  · intro hc; simp [cfgOf] at hc; simp [hc, cfgOf] at hd ⊢; exact hd
  · intro hc; simp [cfgOf] at hc; simp [hc] at hd ⊢; exact hd

/-- ... in particular every edge of the first hop: whatever `add_node` yields for a root is drawn as soon
    as the hop was accepted (any depth limit, also 0). -/
theorem root_edges_drawn (fx : Bool) (tab : Table) (nd : NodeData) (c : GClass) (roots : List Node)
    (hcut : (graphOf fx tab nd c roots).cutBySize = false) (r : Node) (hr : r ∈ roots) :
    ∀ x e, (x, e) ∈ succOf tab nd c r → e ∈ (graphOf fx tab nd c roots).edges :=
  edges_complete fx tab nd c roots hcut 0 r (by split <;> omega) ⟨0, by omega, .root hr⟩

/-- **A type that extends `t` and has a component of type `t` shows both relations**: the dashed
    composition edge and the solid extension edge `a -> t` are both in the type graph / "inherits" graph
    of `a` (they differ in style, and - `comp_edge_labelled` - the dashed one carries the component names). -/
theorem extends_and_contains_both_drawn (fx : Bool) (tab : Table) (nd : NodeData) (c : GClass)
    (hc : c = .type ∨ c = .inherits) (roots : List Node)
    (hcut : (graphOf fx tab nd c roots).cutBySize = false) (a t : Node) (ha : a ∈ roots)
    (h1 : t ∈ fwdOf nd a .comp) (h2 : t ∈ fwdOf nd a .ext) :
    (⟨a, t, .dashed⟩ : Edge) ∈ (graphOf fx tab nd c roots).edges
      ∧ (⟨a, t, .solid⟩ : Edge) ∈ (graphOf fx tab nd c roots).edges := by
  constructor
  · apply root_edges_drawn fx tab nd c roots hcut a ha t
    rcases hc with rfl | rfl <;>
      exact List.mem_append.2 (Or.inl (List.mem_map.2 ⟨t, h1, rfl⟩))
  · apply root_edges_drawn fx tab nd c roots hcut a ha t
    rcases hc with rfl | rfl <;>
      exact List.mem_append.2 (Or.inr (List.mem_map.2 ⟨t, h2, rfl⟩))

/-- **A submodule that also USEs its ancestor shows both relations**: the dashed USE edge and the solid
    ancestry edge `s -> m` are both in the module graph / "uses" graph, and both reversed edges in the
    "used by" graph of `m` when the inverse sets are consistent. -/
theorem uses_and_ancestor_both_drawn (fx : Bool) (tab : Table) (nd : NodeData) (c : GClass)
    (hc : c = .module ∨ c = .uses) (roots : List Node)
    (hcut : (graphOf fx tab nd c roots).cutBySize = false) (s m : Node) (hs : s ∈ roots)
    (h1 : m ∈ fwdOf nd s .uses) (h2 : m ∈ fwdOf nd s .anc) :
    (⟨s, m, .dashed⟩ : Edge) ∈ (graphOf fx tab nd c roots).edges
      ∧ (⟨s, m, .solid⟩ : Edge) ∈ (graphOf fx tab nd c roots).edges := by
  constructor
  · apply root_edges_drawn fx tab nd c roots hcut s hs m
    rcases hc with rfl | rfl <;>
      exact List.mem_append.2 (Or.inl (List.mem_map.2 ⟨m, h1, rfl⟩))
  · apply root_edges_drawn fx tab nd c roots hcut s hs m
    rcases hc with rfl | rfl <;>
      exact List.mem_append.2 (Or.inr (List.mem_map.2 ⟨m, h2, rfl⟩))

/-- **The label of a composition edge names exactly the components of that type.**  After the loop of
    `TypeNode.__init__` (`comp_types[node] += ", " + var.name`) the label stored for the component type
    `t` names position `i` iff the `i`-th derived-type component is of type `t`: no component is lost
    when several have the same type, none of another type slips in ... -/
theorem comp_label_exact (comps : List Node) (t : Node) (i : Nat) :
    i ∈ labelOf (compLoop comps 0 []) t ↔ comps[i]? = some t := by
  rw [labelOf_compLoop]; simp [labelOf, mem_posFrom]

/-- ... **in declaration order, each component once**. -/
theorem comp_label_ordered (comps : List Node) (t : Node) :
    (labelOf (compLoop comps 0 []) t).Pairwise (· < ·) := by
  rw [labelOf_compLoop]; simpa [labelOf] using posFrom_sorted comps 0 t

/-- **One composition edge per component type**: the keys of `comp_types` (one dashed edge each in
    `add_node`) are exactly the types that occur among the components, each once, however many
    components have that type. -/
theorem comp_one_edge_per_type (comps : List Node) :
    (∀ t, t ∈ (compLoop comps 0 []).map Prod.fst ↔ t ∈ comps) ∧ ((compLoop comps 0 []).map Prod.fst).Nodup := by
  obtain ⟨h1, h2⟩ := keys_compLoop comps 0 []
  exact ⟨fun t => by simpa using h1 t, h2 (by simp)⟩

/-- **"Inherited by" shows the same label as "inherits"**: the entry `t.comp_of[a]` written by the same
    loop equals `a.comp_types[t]`, so the dashed edge `a -> t` carries the same component names in the
    "inherited by" graph of `t` as in the type graph and the "inherits" graph of `a`. -/
theorem comp_label_inverse (tab : Table) (a t : Node) :
    edgeLabelBy tab ⟨a, t, .dashed⟩ = edgeLabel tab ⟨a, t, .dashed⟩ := by
  simp only [edgeLabelBy, edgeLabel, compOf, compTypes]
  split
  · rw [compOfLoop_eq, labelOf_compLoop]; simp [labelOf]
  · simp [labelOf]

/-- **Every composition edge is labelled, no other edge is**: the type `a` is linked to `t` by
    composition (`relation_exact`: that is the dashed edge of its graphs) iff the label stored for `t` is
    not empty; extension edges (solid) have no label. -/
theorem comp_edge_labelled (tab : Table) (a t : Node) (hk : (ent tab a).kind = .type) :
    ((Rel.comp, t) ∈ targets tab a ↔ edgeLabel tab ⟨a, t, .dashed⟩ ≠ [])
      ∧ edgeLabel tab ⟨a, t, .solid⟩ = [] := by
  refine ⟨?_, rfl⟩
  simp only [targets, hk, edgeLabel, compTypes]
  by_cases hx : (ent tab a).extUrl = true
  · simp [hx, labelOf]
  · have hx' : (ent tab a).extUrl = false := by simpa using hx
    simp only [hx', Bool.false_eq_true, if_false, List.mem_append, List.mem_map, Prod.mk.injEq]
    have hpos : posFrom (ent tab a).comps 0 t ≠ [] ↔ t ∈ (ent tab a).comps := by
      constructor
      · intro h
        obtain ⟨j, hj⟩ := List.exists_mem_of_ne_nil _ h
        exact List.mem_of_getElem? ((mem_posFrom _ _ _ _).1 hj).2
      · intro h hn
        obtain ⟨j, hj⟩ := List.getElem?_of_mem h
        have : j ∈ posFrom (ent tab a).comps 0 t := (mem_posFrom _ _ _ _).2 ⟨by omega, by simpa using hj⟩
        rw [hn] at this; simp at this
    have hc : (Kind.type == Kind.type && !false) = true := by decide
    rw [if_pos hc, labelOf_compLoop]
    simp only [labelOf, List.nil_append, hpos]
    constructor
    · rintro (⟨x, _, h, _⟩ | ⟨x, hx, _, rfl⟩)
      · cases h
      · exact hx
    · intro h; exact Or.inr ⟨t, h, trivial, rfl⟩

/-- non-vacuity (round 6): type `0` extends type `1` and has the components `c0 : 1`, `c1 : 2`, `c2 : 1`:
    its "inherits" graph holds the dashed and the solid edge to `1`, the dashed one is labelled with the
    positions 0 and 2, the edge to `2` with position 1, and "inherited by" reads the same label. -/
example :
    let tab : Table := [{ kind := .type, anc := some 1, comps := [1, 2, 1], maxDepth := 2, maxNodes := 10 },
      { kind := .type }, { kind := .type }]
    (graphAll false false tab [0, 1, 2]).perEntity.any (fun (e, c, g) =>
      e == 0 && c == .inherits && g.edges.contains ⟨0, 1, .dashed⟩ && g.edges.contains ⟨0, 1, .solid⟩
        && g.edges.length == 3) = true
    ∧ edgeLabel tab ⟨0, 1, .dashed⟩ = [0, 2] ∧ edgeLabel tab ⟨0, 2, .dashed⟩ = [1]
    ∧ edgeLabelBy tab ⟨0, 1, .dashed⟩ = [0, 2] ∧ compTypes tab 0 = [(1, [0, 2]), (2, [1])] := by
  refine ⟨by decide +kernel, by decide, by decide, by decide, by decide⟩

/-! ## Round 6: the labels of procedure nodes (`show_proc_parent`) -/

/-- **With `show_proc_parent` two different procedures never look the same.**  The label of a procedure
    node (`ProcNode.__init__`) is built from the name of its scope, the name of the type it is bound to
    and its own name; for Fortran names (no `:`, no `%`) the label determines all three, so two nodes
    of a picture, two rows of the table fall-back, that show the same text are the same procedure
    (quantifier "x show_proc_parent": what the option adds is exactly what tells `run` of module `a`
    from `run` of module `b`). -/
theorem proc_label_injective (i j : LabelIn) (hi : i.clean = true) (hj : j.clean = true)
    (h : procLabel true i = procLabel true j) : i = j := by
  rw [← decodeLabel_procLabel i hi, ← decodeLabel_procLabel j hj, h]

/-- what the option adds: the scope's name and `::` in front of the label without it ... -/
theorem proc_label_shows_parent (i : LabelIn) (p : Str) (hp : i.parent = some p) :
    procLabel true i = p ++ [':', ':'] ++ procLabel false i := by
  simp [procLabel, parentLabel, hp]

/-- ... nothing for a procedure that has no scope (known by name only), and the label always ends with
    the procedure's own name. -/
theorem proc_label_shows_name (sp : Bool) (i : LabelIn) :
    (i.parent = none → procLabel sp i = procLabel false i)
      ∧ ∃ pre, procLabel sp i = pre ++ i.name := by
  constructor
  · intro hp; simp [procLabel, parentLabel, hp]
  · exact ⟨parentLabel sp i ++ bindingLabel i, by simp [procLabel]⟩

/-- **Without the option (partial)**: the label still determines the type a procedure is bound to and its
    name - but not its scope: excluded is exactly the case of two procedures of the same name (and type) in
    different scopes, see `proc_label_ambiguous_witness`. -/
theorem proc_label_plain_partial (i j : LabelIn) (hi : i.clean = true) (hj : j.clean = true)
    (h : procLabel false i = procLabel false j) : i.binder = j.binder ∧ i.name = j.name := by
  have e : ∀ k : LabelIn, procLabel false k = procLabel true { k with parent := none } := by
    intro k; cases hk : k.parent <;> simp [procLabel, parentLabel, bindingLabel, hk]
  have c : ∀ k : LabelIn, k.clean = true → ({ k with parent := none } : LabelIn).clean = true := by
    intro k hk
    simp only [LabelIn.clean, Bool.and_eq_true] at hk ⊢
    exact ⟨⟨hk.1.1, by simp⟩, hk.2⟩
  rw [e i, e j] at h
  have := proc_label_injective _ _ (c i hi) (c j hj) h
  simp only [LabelIn.mk.injEq] at this
  exact ⟨this.2.2, this.1⟩

/-- Witness: `run` of module `a` and `run` of module `b` carry the same label unless `show_proc_parent`
    is on - so nothing that handles the nodes of a graph may identify them by their label. -/
theorem proc_label_ambiguous_witness :
    let i : LabelIn := { name := "run".toList, parent := some "a".toList }
    let j : LabelIn := { name := "run".toList, parent := some "b".toList }
    i ≠ j ∧ procLabel false i = procLabel false j ∧ procLabel true i ≠ procLabel true j
      ∧ procLabel true { name := "go".toList, parent := some "m".toList, binder := some "t".toList } = "m::t%go".toList := by
  decide

/-! ## Round 6: the table fall-back - rows against the cell of the root -/

/-- **The root's cell spans all the rows of the table (partial).**  A graph shown as a table has one row
    (two `<tr>`) per kept edge of the refused first hop, and the cell of the root is given a `rowspan`.
    For the code as it is the span covers the rows exactly when every entity one step away is joined to
    the root by *one* edge and the root has no edge to itself.  Excluded by the decidable hypotheses `hd`,
    `hr`: two relations to the same entity (a type that extends `t` and has a component of type `t`, a
    procedure reached by a call and by an interface edge) and self-loops (recursion) - finding
    `C13-table-rootspan`, see `table_root_span_witness`. -/
theorem table_root_span_partial (fx : Bool) (tab : Table) (nd : NodeData) (c : GClass) (r : Node)
    (h : shownOf fx tab nd c [r] = .table)
    (hd : ((succOf tab nd c r).map Prod.fst).Nodup) (hr : r ∉ (succOf tab nd c r).map Prod.fst) :
    rootSpan false (graphOf fx tab nd c [r]) = tableTrs (graphOf fx tab nd c [r]) + 1 := by
  obtain ⟨_, _, _, h4, h5, _⟩ := table_shows_first_hop fx tab nd c [r] h
  have hc : cands (cfgOf fx tab nd c [r]).succ [r] = succOf tab nd c r := by simp [cands, cfgOf]
  have hl := hop_lengths_eq (cfg := cfgOf fx tab nd c [r]) (added := dedup [r]) (nodes := [r])
    (by rw [hc]; exact hd)
    (by rw [hc]; intro x hx hxr; simp [dedup] at hxr; subst hxr; exact hr hx)
  simp only [rootSpan, tableTrs, h4, h5, hl]
  simp

/-- whatever the hop looks like, the code as it is never spans too many rows - when the span is wrong it
    is short, and the rows below it slide into the root's column ... -/
theorem table_root_span_short (fx : Bool) (tab : Table) (nd : NodeData) (c : GClass) (roots : List Node)
    (h : shownOf fx tab nd c roots = .table) :
    rootSpan false (graphOf fx tab nd c roots) ≤ tableTrs (graphOf fx tab nd c roots) + 1 := by
  obtain ⟨_, _, _, h4, h5, _⟩ := table_shows_first_hop fx tab nd c roots h
  have := hop_length_le (cfg := cfgOf fx tab nd c roots) (added := dedup roots) (nodes := roots)
  simp only [rootSpan, tableTrs, h4, h5]
  simp; omega

/-- ... with fixes/C13-table-rootspan.diff (span computed from the edges the rows are written for) there is
    no excluded class. -/
theorem table_root_span_fixed (g : GState) : rootSpan true g = tableTrs g + 1 := by
  simp [rootSpan, tableTrs]

/-- Witness for the excluded class: type `0` extends type `1` and has a component of type `1`,
    `graph_maxnodes: 1`: its "inherits" graph is shown as a table of two rows (four `<tr>`), the root's
    cell spans three. -/
theorem table_root_span_witness :
    let tab : Table := [{ kind := .type, anc := some 1, comps := [1], maxDepth := 2, maxNodes := 1 }, { kind := .type }]
    let nd : NodeData := { created := [0, 1], fwd := [⟨0, .ext, 1⟩, ⟨0, .comp, 1⟩], inv := [⟨1, .ext, 0⟩, ⟨1, .comp, 0⟩] }
    shownOf false tab nd .inherits [0] = .table
      ∧ tableTrs (graphOf false tab nd .inherits [0]) = 4
      ∧ rootSpan false (graphOf false tab nd .inherits [0]) = 3
      ∧ rootSpan true (graphOf false tab nd .inherits [0]) = 5 := by
  have hg : ∀ tab nd, graphOf false tab nd .inherits [0] = runGraph (cfgOf false tab nd .inherits [0]) [0] := fun _ _ => rfl
  simp only [shownOf, hg]
  rw [runGraph, addNodes]
  decide

end Ford.C13
