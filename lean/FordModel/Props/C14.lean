/-
  C14 — fixed-form sources document the same as their free-form equivalent.
  Property theorems only; the model is FordModel/Fixed.lean (converter) composed
  with FordModel/Reader.lean (free-form reader), the specification side is
  FordModel/FixedSpec.lean, helper lemmas live in FordModel/Lemmas/Fixed.lean.
-/
import FordModel.Fixed
import FordModel.FixedSpec
import FordModel.Reader
import FordModel.Lemmas.Fixed
import FordModel.Generated.C14
namespace Ford.C14
open Ford Ford.Fixed

/-- **Tie of the constants.**  The literal tables of `FortranLine.__analyse`,
    `__convert` and `continueLine`, regenerated from the source on every run
    (`translate/c14.py`), are the ones the model uses: comment characters,
    the `len(line) <= 6` / `> 73` thresholds, the column limit 72 (slice and
    both `ljust`s), the `$omp` sentinel and the `0` of column 6. -/
theorem model_constants_match_source :
    (∀ c : Char, commentHead (some c) = Gen.commentChars.contains c) ∧
    Gen.shortThreshold = 6 ∧ Gen.longThreshold = 73 ∧ Gen.colLimit = 72 ∧ Gen.padColumns = [72] ∧
    Gen.ompSentinel = ['$', 'o', 'm', 'p'] ∧ Gen.notContChar = ['0'] := by
  refine ⟨fun c => ?_, by decide, by decide, by decide, by decide, by decide, by decide⟩
  have h : Gen.commentChars = ['c', 'C', '*', '!'] := by decide
  rw [h]
  simp only [commentHead, List.contains_cons, List.contains_nil, Bool.or_false, Bool.or_assoc]

/-- The converter is line-for-line: whatever the input (junk included) and
    whichever limit setting, `convertToFree` yields exactly one output line per
    input line, so the hold-back in `linestack` never drops or duplicates a
    line and source line numbers of the `.f` file stay valid. -/
theorem convertToFree_length (lim : Bool) (lines : List Str) :
    (convertToFree lim lines).length = lines.length := by
  simp [convertToFree, convGo_length]

/-- **Simulation.**  For every well-formed fixed-form file - any number of
    statements, any number of continuation lines each, any continuation
    character, any label field, comment lines of every style / blank lines /
    preprocessor lines anywhere (also between continuation lines), any text
    beyond column 72, either limit setting - the stateful converter
    (`linestack` hold-back, column analysis) produces exactly the equivalent
    free-form file `renderFree`: same lines in the same order, ` &` on exactly
    the lines whose statement goes on, labels in front, comment lines as `!`
    comments. -/
theorem convertToFree_simulation (lim : Bool) (p : List Item) (h : WF p) :
    convertToFree lim (renderFixed p) = renderFree lim p := by
  have := convGo_sim lim p [] h.1 (Or.inr h.2)
  simpa [convertToFree, h.2] using this

/-- **Continuation is column 6, any character.**  A line with blank columns 1-5
    is a continuation line iff column 6 is neither blank nor `0` - for every
    character, every body and both limit settings; it is always a
    statement-carrying line. -/
theorem continuation_any_char (lim : Bool) (c6 : Char) (body : Str) :
    (analyse lim (blanks5 ++ c6 :: (body ++ ['\n']))).regular = true ∧
    (analyse lim (blanks5 ++ c6 :: (body ++ ['\n']))).cont = !(isSpace c6 || c6 == '0') := by
  have := analyse_code lim ' ' ' ' ' ' ' ' ' ' c6 body (by decide) (by decide) (by decide)
  simp only [blanks5, List.cons_append, List.nil_append]
  rw [this]; exact ⟨rfl, rfl⟩

/-- **Labels.**  Whatever stands in columns 1-5 of a statement line (not a
    comment character in column 1, no `!`), the line is *never* taken for a
    continuation because of it - only column 6 decides - and the converted
    line is the label (lower-cased, blanks stripped, one blank after it)
    followed by the statement field. -/
theorem label_leads_statement (lim : Bool) (a b c d e c6 : Char) (body : Str)
    (ha : commentHead (some a) = false) (ha' : a ≠ '#') (hb : [b, c, d, e].contains '!' = false)
    (h6 : isSpace c6 = true ∨ c6 = '0') (hlen : body.length ≤ 66) :
    (analyse lim (a :: b :: c :: d :: e :: c6 :: (body ++ ['\n']))).cont = false ∧
    (analyse lim (a :: b :: c :: d :: e :: c6 :: (body ++ ['\n']))).conv
      = labelOut [a, b, c, d, e] ++ body ++ ['\n'] := by
  rw [analyse_code lim a b c d e c6 body ha ha' hb]
  have h66 : ¬ (66 < body.length) := by omega
  refine ⟨?_, ?_⟩
  · rcases h6 with h | h <;> simp [h]
  · simp [freeCode, h66]

/-- a numeric label placed anywhere in the label field comes out as the digits -/
example : labelOut "  10 ".toList = "10 ".toList := by decide
example : labelOut " 0020".toList = "0020 ".toList := by decide
example : labelOut "     ".toList = [] := by decide

/-- **Comment-line styles.**  A line starting with `c`, `C`, `*` or `!` (and not
    an `$omp` sentinel) becomes the same `!` comment whatever the style, is not
    a statement-carrying line and never a continuation - so it is held back and
    cannot separate a statement from its continuation lines. -/
theorem comment_line_any_style (lim : Bool) (c : Char) (rest : Str)
    (hc : commentHead (some c) = true) (ho : lower (rest.take 4) ≠ ['$', 'o', 'm', 'p']) :
    (analyse lim (c :: rest)).conv = '!' :: rest ∧
    (analyse lim (c :: rest)).regular = false ∧
    (analyse lim (c :: rest)).cont = false := by
  have h := analyse_item lim (.comment c rest) (by simp [Item.ok, hc, ho])
  simpa [fixedLine, freeLine, Item.isRegular, Item.isCont] using And.intro h.1 (And.intro h.2.1 h.2.2.1)

/-- **Column 72, limit on.**  In the converted line of a statement-carrying
    line longer than 72 columns, everything beyond column 72 stands behind a
    `!` at index ≥ 72; when the visible part (label + columns 7-72, plus the
    ` &` if continued) is comment-free and quote-closed (`Atoms`, the reader's
    own notion), the reader's comment scanner cuts the line exactly there, so
    what reaches the statement is the visible part only. -/
theorem col72_limit_on_partial (lab body : Str) (amp : Bool) (hlong : body.length > 66)
    (hclean : Atoms (if amp then rstrip (lab ++ body.take 66) ++ [' ', '&'] else rstrip (lab ++ body.take 66))) :
    ∃ vis, freeCode true lab body amp = vis ++ '!' :: (body.drop 66 ++ ['\n']) ∧
      72 ≤ vis.length ∧
      comScan [] (freeCode true lab body amp) = some vis.length ∧
      rstrip vis = (if amp then rstrip (lab ++ body.take 66) ++ [' ', '&'] else rstrip (lab ++ body.take 66)) := by
  refine ⟨ljust 72 (if amp then rstrip (lab ++ body.take 66) ++ [' ', '&'] else rstrip (lab ++ body.take 66)), ?_, ?_, ?_, ?_⟩
  · simp [freeCode, hlong]
  · simp [ljust]; omega
  · have : freeCode true lab body amp =
        ljust 72 (if amp then rstrip (lab ++ body.take 66) ++ [' ', '&'] else rstrip (lab ++ body.take 66))
          ++ '!' :: (body.drop 66 ++ ['\n']) := by simp [freeCode, hlong]
    rw [this]
    exact comScan_after_atoms _ _ (atoms_ljust _ _ hclean)
  · rw [rstrip_ljust]
    cases amp
    · simp [rstrip_idem]
    · simp only [↓reduceIte]
      have : rstrip (lab ++ List.take 66 body) ++ [' ', '&'] = (rstrip (lab ++ List.take 66 body) ++ [' ']) ++ ['&'] := by simp
      rw [this, rstrip_of_last _ _ (by decide)]

/-- **Column 72, limit off.**  With the limit off nothing is cut: no line is
    ever classified long, no `!` is inserted, and the converted line of every
    statement-carrying line of a well-formed file is label + the *whole* body. -/
theorem col72_limit_off (lab body : Str) (l : Str) :
    (analyse false l).long = false ∧ (analyse false l).excess = [] ∧
    freeCode false lab body false = lab ++ body ++ ['\n'] := by
  simp [analyse, freeCode]

/-- **Continuation mark reaches the reader** (what still holds of "the output is
    a free-form layout of the same statement"): when the text of a continued
    line is comment-free and quote-closed after removing trailing blanks, the
    free-form line ends in `&` for the reader (no comment is detected, the last
    non-blank character is `&`).  The excluded class - a `!` comment or doc on a
    continued line - is `inline_comment_on_continued_line_witness`. -/
theorem continuation_mark_visible_partial (lim : Bool) (lab body : Str)
    (hshort : lim = false ∨ body.length ≤ 66)
    (h1 : comScan [] (rstrip (lab ++ body)) = none)
    (h2 : qscan .out (rstrip (lab ++ body)) = .out) :
    comScan [] (dropNL (freeCode lim lab body true)) = none ∧
    (strip (dropNL (freeCode lim lab body true))).getLast? = some '&' := by
  have hf : freeCode lim lab body true = rstrip (lab ++ body) ++ [' ', '&', '\n'] := by
    rcases hshort with h | h
    · simp [freeCode, h]
    · have : ¬ (66 < body.length) := by omega
      simp [freeCode, this]
  have hd : dropNL (rstrip (lab ++ body) ++ [' ', '&', '\n']) = (rstrip (lab ++ body) ++ [' ']) ++ ['&'] := by
    have : rstrip (lab ++ body) ++ [' ', '&', '\n'] = (rstrip (lab ++ body) ++ [' ', '&']) ++ ['\n'] := by simp
    rw [this]
    simp [dropNL]
  rw [hf, hd]
  refine ⟨?_, strip_getLast _ _ (by decide)⟩
  have : rstrip (lab ++ body) ++ [' '] ++ ['&'] = rstrip (lab ++ body) ++ [' ', '&'] := by simp
  rw [this]
  simp only [comScan] at h1 ⊢
  rw [comScanAux_nil_append, h1, h2]
  simp [comScanAux]

/-- non-vacuity: an ordinary continued line satisfies the hypotheses -/
example : comScan [] (rstrip "call f(a, 'it''s ! no comment',  ".toList) = none ∧
    qscan .out (rstrip "call f(a, 'it''s ! no comment',  ".toList) = .out := by decide

/-- **Finding C14-comment-on-continued-line.**  An inline `!` comment on a line
    that is continued: the converter appends ` &` *behind the comment*; the
    reader's comment scanner cuts the line before it, so the continuation mark
    is lost. -/
theorem inline_comment_on_continued_line_witness :
    convertToFree true ["      x = a + ! c\n".toList, "     & b\n".toList]
      = ["x = a + ! c &\n".toList, " b\n".toList] ∧
    comScan [] "x = a + ! c &".toList = some 8 := by decide

/-- **Finding C14-col7-comment-or-blank-line-between-continuation.**  A comment
    line whose `!` stands in column 7 (or a blank line of more than 5 blanks)
    between a line and its continuation is taken for a statement-carrying
    line: the statement line is released without ` &`, the mark lands on the
    comment / blank line. -/
theorem col7_comment_between_witness :
    convertToFree true ["      x = a +\n".toList, "      ! note\n".toList, "     & b\n".toList]
      = ["x = a +\n".toList, "! note &\n".toList, " b\n".toList] ∧
    convertToFree true ["      x = a +\n".toList, "        \n".toList, "     & b\n".toList]
      = ["x = a +\n".toList, " &\n".toList, " b\n".toList] := by decide

/-- **Finding C14-sequence-field-starting-with-bang.**  Limit on, the text
    beyond column 72 starts with `!`: behind the inserted `!` it reads `!!…`,
    which the reader takes for a doc comment (doc mark `!`). -/
theorem sequence_field_bang_witness :
    (analyse true ("      x = 1".toList ++ List.replicate 61 ' ' ++ "!SEQ\n".toList)).conv
      = "x = 1".toList ++ List.replicate 67 ' ' ++ "!!SEQ\n".toList ∧
    comScan ['!'] ("x = 1".toList ++ List.replicate 67 ' ' ++ "!!SEQ".toList) = some 72 := by decide

/-- **Finding C14-doc-comment-text-beyond-col72-kept.**  Limit on, an inline
    doc comment that runs past column 72: the doc mark is found before column
    72, so the text behind the inserted `!` stays part of the doc. -/
theorem doc_past_col72_witness :
    (analyse true ("      x = 1 !! d".toList ++ List.replicate 56 'o' ++ "c tail\n".toList)).conv
      = "x = 1 !! d".toList ++ List.replicate 56 'o' ++ "      !c tail\n".toList ∧
    comScan ['!'] ("x = 1 !! d".toList ++ List.replicate 56 'o' ++ "      !c tail".toList) = some 6 := by decide

end Ford.C14
