/-
  C14 — fixed-form sources document the same as their free-form equivalent.
  Property theorems only; the model is FordModel/Fixed.lean (converter) composed
  with FordModel/Reader.lean (free-form reader), the specification side is
  FordModel/FixedSpec.lean, helper lemmas live in FordModel/Lemmas/Fixed.lean.
-/
import FordModel.Fixed
import FordModel.FixedSpec
import FordModel.FixedTree
import FordModel.FixedProject
import FordModel.Reader
import FordModel.Lemmas.Fixed
import FordModel.Lemmas.FixedRead
import FordModel.Generated.C14
namespace Ford.C14
open Ford Ford.Fixed

/-- **Tie of the constants.**  The literal tables of `FortranLine.__analyse`,
    `__convert` and `continueLine`, regenerated from the source on every run
    (`translate/c14.py`), are the ones the model uses: comment characters,
    the `len(line) <= 6` / `> 73` thresholds, the column limit 72 (slice and
    both `ljust`s), the `$omp` sentinel and the `0` of column 6; and the
    overflow mark of the variant read from the source (`sourceVariant`) is the
    literal that stands in `excess_line = ... + line[72:]`. -/
theorem model_constants_match_source :
    (∀ c : Char, commentHead (some c) = Gen.commentChars.contains c) ∧
    Gen.shortThreshold = 6 ∧ Gen.longThreshold = 73 ∧ Gen.colLimit = 72 ∧ Gen.padColumns = [72] ∧
    Gen.ompSentinel = ['$', 'o', 'm', 'p'] ∧ Gen.notContChar = ['0'] ∧
    excessMark sourceVariant = Gen.excessLiteral := by
  refine ⟨fun c => ?_, by decide, by decide, by decide, by decide, by decide, by decide, by decide⟩
  -- the table is derived by probing, in code-point order: compare as sets
  have h : Gen.commentChars = ['!', '*', 'C', 'c'] := by decide
  rw [h]
  simp only [commentHead, List.contains_cons, List.contains_nil, Bool.or_false]
  cases c == 'c' <;> cases c == 'C' <;> cases c == '*' <;> cases c == '!' <;> rfl

/-- The converter is line-for-line: whatever the input (junk included),
    whichever limit setting and whichever variant of the code, `convertToFree` yields exactly one output line per
    input line, so the hold-back in `linestack` never drops or duplicates a
    line and source line numbers of the `.f` file stay valid. -/
theorem convertToFree_length (v : Variant) (lim : Bool) (lines : List Str) :
    (convertToFree v lim lines).length = lines.length := by
  simp [convertToFree, convGo_length]

/-- **Simulation.**  For every well-formed fixed-form file - any number of
    statements, any number of continuation lines each, any continuation
    character, any label field, comment lines of every style / blank lines /
    preprocessor lines anywhere (also between continuation lines), any text
    beyond column 72, either limit setting, every variant of the code (for the
    repaired code also blank lines of any length and `!` comment lines starting
    in column 7 or later, anywhere) - the stateful converter
    (`linestack` hold-back, column analysis) produces exactly the equivalent
    free-form file `renderFree`: same lines in the same order, ` &` on exactly
    the lines whose statement goes on, labels in front, comment lines as `!`
    comments. -/
theorem convertToFree_simulation (v : Variant) (lim : Bool) (p : List Item) (h : WF v p) :
    convertToFree v lim (renderFixed p) = renderFree v lim p := by
  have := convGo_sim v lim p [] h.1 (Or.inr h.2)
  simpa [convertToFree, h.2] using this

/-- non-vacuity of the repaired variant's larger class: a statement, a blank line of 9
    blanks, a `!` comment line starting in column 9 and the continuation line form a
    well-formed file for the repaired code (and not for the code as it is) -/
example : WF Variant.repaired [.init blanks5 ' ' "x = a +".toList, .blank 9, .bang7 2 " note\n".toList,
    .cont '&' " b".toList] ∧
    (Item.blank 9).ok Variant.asIs = false ∧ (Item.bang7 2 " note\n".toList).ok Variant.asIs = false := by
  refine ⟨⟨by decide, by decide⟩, by decide, by decide⟩

/-- **Held-back lines never separate a statement from its continuation.**  A
    statement line, then any number of lines that are comment lines for the
    variant (column-1 comments of every style, `!` in columns 2-5, blank lines,
    preprocessor lines - and, for the repaired code, blank lines of any length
    and `!` comment lines starting in column 7 or later), then a continuation
    line: the ` &` goes on the statement line, the lines in between come out as
    they are in free form, whatever their number. -/
theorem held_back_lines_transparent (v : Variant) (lim : Bool) (lab5 : Str) (c6 : Char) (body : Str)
    (fill : List Item) (c6' : Char) (body' : Str)
    (ha : (Item.init lab5 c6 body).ok v = true)
    (hf : ∀ f ∈ fill, f.ok v = true ∧ f.isRegular = false)
    (hb : (Item.cont c6' body').ok v = true) :
    convertToFree v lim (renderFixed (.init lab5 c6 body :: (fill ++ [.cont c6' body']))) =
      freeLine v lim (.init lab5 c6 body) true ::
        (fill.map (fun f => freeLine v lim f false) ++ [freeLine v lim (.cont c6' body') false]) := by
  have hreg : ∀ f ∈ fill, f.isRegular = false := fun f hm => (hf f hm).2
  have hwf : WF v (.init lab5 c6 body :: (fill ++ [.cont c6' body'])) := by
    refine ⟨fun it hm => ?_, by simp [nextIsCont, Item.isRegular, Item.isCont]⟩
    simp only [List.mem_cons, List.mem_append, List.not_mem_nil, or_false] at hm
    rcases hm with rfl | hm | rfl
    · exact ha
    · exact (hf it hm).1
    · exact hb
  rw [convertToFree_simulation v lim _ hwf]
  simp only [renderFree, Item.isRegular, Bool.true_and]
  rw [nextIsCont_fill fill _ hreg, renderFree_fill v lim fill _ hreg]
  simp [nextIsCont, renderFree, Item.isRegular, Item.isCont]

/-- **Repaired code: blank-only lines and column-7 comment lines are comment
    lines** (the exclusion of finding
    `C14-col7-comment-or-blank-line-between-continuation` is not needed any
    more): with `blankShort` a line of `n` blanks - any `n` - and with
    `col7Comment` a line whose first non-blank character is a `!` in column 7
    or later are not statement-carrying, never continuation lines, and come out
    unchanged (the blank line without its first six columns); so by
    `held_back_lines_transparent` they cannot take the ` &` of the statement
    before them. -/
theorem blank_and_col7_comment_lines_held_back_repaired (v : Variant) (lim : Bool) (n k : Nat) (rest : Str) :
    (v.blankShort = true →
      (analyse v lim (List.replicate n ' ' ++ ['\n'])).regular = false ∧
      (analyse v lim (List.replicate n ' ' ++ ['\n'])).cont = false ∧
      (analyse v lim (List.replicate n ' ' ++ ['\n'])).conv = List.replicate (n - 6) ' ' ++ ['\n']) ∧
    (v.col7Comment = true →
      (analyse v lim (List.replicate (6 + k) ' ' ++ '!' :: rest)).regular = false ∧
      (analyse v lim (List.replicate (6 + k) ' ' ++ '!' :: rest)).cont = false ∧
      (analyse v lim (List.replicate (6 + k) ' ' ++ '!' :: rest)).conv
        = List.replicate (6 + k) ' ' ++ '!' :: rest) := by
  constructor
  · intro hv
    rw [analyse_blank v lim n (by simp [hv])]
    exact ⟨rfl, rfl, rfl⟩
  · intro hv
    rw [analyse_bang7 v lim k rest hv]
    exact ⟨rfl, rfl, rfl⟩

/-- **Continuation is column 6, any character.**  A line with blank columns 1-5
    is a continuation line iff column 6 is neither blank nor `0` - for every
    character, every body, both limit settings and every variant of the code;
    it is a statement-carrying line (always for the code as it is; for the
    repaired code unless column 6 is blank too - then the line may be a
    blank-only line or a column-7 comment line). -/
theorem continuation_any_char (v : Variant) (lim : Bool) (c6 : Char) (body : Str) :
    ((isSpace c6 = false ∨ (v.blankShort = false ∧ v.col7Comment = false)) →
      (analyse v lim (blanks5 ++ c6 :: (body ++ ['\n']))).regular = true) ∧
    (analyse v lim (blanks5 ++ c6 :: (body ++ ['\n']))).cont = !(isSpace c6 || c6 == '0') := by
  by_cases hc : isSpace c6 = false ∨ (v.blankShort = false ∧ v.col7Comment = false)
  · have := analyse_code v lim ' ' ' ' ' ' ' ' ' ' c6 body (by decide) (by decide) (by decide)
      (by rcases hc with h | h <;> simp [isBlank, h]) (by rcases hc with h | h <;> simp [isBlank, h])
    simp only [blanks5, List.cons_append, List.nil_append]
    rw [this]; exact ⟨fun _ => rfl, rfl⟩
  · have h6 : isSpace c6 = true := by
      cases h : isSpace c6
      · exact absurd (Or.inl h) hc
      · rfl
    refine ⟨fun h => absurd h hc, ?_⟩
    simp [analyse, blanks5, h6]

/-- **Labels.**  Whatever stands in columns 1-5 of a statement line (not a
    comment character in column 1, no `!`), the line is *never* taken for a
    continuation because of it - only column 6 decides - and the converted
    line is the label (lower-cased, blanks stripped, one blank after it)
    followed by the statement field.  `fieldOk` holds of every line for the
    code as it is (`fieldOk_asIs`); for the repaired code it excludes the
    blank-only line and the column-7 comment line, which are comment lines
    there. -/
theorem label_leads_statement (v : Variant) (lim : Bool) (a b c d e c6 : Char) (body : Str)
    (ha : commentHead (some a) = false) (ha' : a ≠ '#') (hb : [b, c, d, e].contains '!' = false)
    (h6 : isSpace c6 = true ∨ c6 = '0') (hlen : body.length ≤ 66)
    (hf : fieldOk v [a, b, c, d, e] c6 body = true) :
    (analyse v lim (a :: b :: c :: d :: e :: c6 :: (body ++ ['\n']))).cont = false ∧
    (analyse v lim (a :: b :: c :: d :: e :: c6 :: (body ++ ['\n']))).conv
      = labelOut [a, b, c, d, e] ++ body ++ ['\n'] := by
  obtain ⟨hs, hn⟩ := fieldOk_hyps v a b c d e c6 body hf
  rw [analyse_code v lim a b c d e c6 body ha ha' hb hs hn]
  have h66 : ¬ (66 < body.length) := by omega
  refine ⟨?_, ?_⟩
  · rcases h6 with h | h <;> simp [h]
  · simp [freeCode, h66]

/-- `fieldOk` is no restriction for the code as it is, and holds of any labelled line -/
example (lab5 : Str) (c6 : Char) (body : Str) : fieldOk Variant.asIs lab5 c6 body = true := fieldOk_asIs lab5 c6 body
example : fieldOk Variant.repaired "  10 ".toList ' ' " ! x".toList = true := by decide

/-- a numeric label placed anywhere in the label field comes out as the digits -/
example : labelOut "  10 ".toList = "10 ".toList := by decide
example : labelOut " 0020".toList = "0020 ".toList := by decide
example : labelOut "     ".toList = [] := by decide

/-- **Comment-line styles.**  A line starting with `c`, `C`, `*` or `!` (and not
    an `$omp` sentinel) becomes the same `!` comment whatever the style, is not
    a statement-carrying line and never a continuation - so it is held back and
    cannot separate a statement from its continuation lines. -/
theorem comment_line_any_style (v : Variant) (lim : Bool) (c : Char) (rest : Str)
    (hc : commentHead (some c) = true) (ho : lower (rest.take 4) ≠ ['$', 'o', 'm', 'p']) :
    (analyse v lim (c :: rest)).conv = '!' :: rest ∧
    (analyse v lim (c :: rest)).regular = false ∧
    (analyse v lim (c :: rest)).cont = false := by
  have h := analyse_item v lim (.comment c rest) (by simp [Item.ok, hc, ho])
  simpa [fixedLine, freeLine, Item.isRegular, Item.isCont] using And.intro h.1 (And.intro h.2.1 h.2.2.1)

/-- **The OpenMP sentinel is exactly `$omp`.**  A line whose column 1 is a comment
    character is statement-carrying (flushes the held-back lines, has its column 6
    read as a continuation mark) iff its columns 2-5 are, case-insensitively,
    exactly the sentinel regenerated from the source and the line is longer than 6
    characters - whatever else stands in the comment: `$`, `$$$`, RCS keywords,
    commented-out continuation lines, any column-6 character, any length. -/
theorem omp_sentinel_exact (v : Variant) (lim : Bool) (c : Char) (rest : Str)
    (hc : commentHead (some c) = true) :
    (analyse v lim (c :: rest)).regular =
      (decide ((c :: rest).length > 6) && lower (rest.take 4) == Gen.ompSentinel) ∧
    ((analyse v lim (c :: rest)).cont = true → lower (rest.take 4) = Gen.ompSentinel) := by
  have hs : Gen.ompSentinel = ['$', 'o', 'm', 'p'] := by decide
  have hne : (c == '#') = false := by
    cases hh : c == '#'
    · rfl
    · have : c = '#' := by simpa using hh
      subst this; simp [commentHead] at hc
  by_cases ho : lower (rest.take 4) = ['$', 'o', 'm', 'p']
  · have hsp : isSpace c = false := by
      simp only [commentHead, Bool.or_eq_true, beq_iff_eq] at hc
      rcases hc with ((rfl | rfl) | rfl) | rfl <;> decide
    have hb : isBlank (c :: rest) = false := by simp [isBlank, hsp]
    rw [hs]
    refine ⟨?_, fun _ => ho⟩
    simp [analyse, isShortLine, hc, ho, hne, hb]
    by_cases hl : List.length rest ≤ 5
    · have : ¬ (6 < List.length rest + 1) := by omega
      simp [hl, this]
    · have : 6 < List.length rest + 1 := by omega
      simp [hl, this]
  · have h := comment_line_any_style v lim c rest hc ho
    rw [hs]
    refine ⟨?_, fun hcont => ?_⟩
    · rw [h.2.1]; simp [ho]
    · rw [h.2.2] at hcont; exact absurd hcont (by simp)

/-- **Column 72, limit on.**  In the converted line of a statement-carrying
    line longer than 72 columns, everything beyond column 72 stands behind a
    `!` at index ≥ 72; when the visible part (label + columns 7-72, plus the
    ` &` if continued) is comment-free and quote-closed (`Atoms`, the reader's
    own notion), the reader's comment scanner cuts the line exactly there, so
    what reaches the statement is the visible part only. -/
theorem col72_limit_on_partial (v : Variant) (lab body : Str) (amp : Bool) (hlong : body.length > 66)
    (hclean : Atoms (if amp then rstrip (lab ++ body.take 66) ++ [' ', '&'] else rstrip (lab ++ body.take 66))) :
    ∃ vis, freeCode v true lab body amp = vis ++ (excessMark v ++ (body.drop 66 ++ ['\n'])) ∧
      72 ≤ vis.length ∧
      comScan [] (freeCode v true lab body amp) = some vis.length ∧
      rstrip vis = (if amp then rstrip (lab ++ body.take 66) ++ [' ', '&'] else rstrip (lab ++ body.take 66)) := by
  refine ⟨ljust 72 (if amp then rstrip (lab ++ body.take 66) ++ [' ', '&'] else rstrip (lab ++ body.take 66)), ?_, ?_, ?_, ?_⟩
  · simp [freeCode, hlong]
  · simp [ljust]; omega
  · have : freeCode v true lab body amp =
        ljust 72 (if amp then rstrip (lab ++ body.take 66) ++ [' ', '&'] else rstrip (lab ++ body.take 66))
          ++ (excessMark v ++ (body.drop 66 ++ ['\n'])) := by simp [freeCode, hlong]
    rw [this, excessMark_cons, List.cons_append]
    exact comScan_after_atoms _ _ (atoms_ljust _ _ hclean)
  · rw [rstrip_ljust]
    cases amp
    · simp [rstrip_idem]
    · simp only [↓reduceIte]
      have : rstrip (lab ++ List.take 66 body) ++ [' ', '&'] = (rstrip (lab ++ List.take 66 body) ++ [' ']) ++ ['&'] := by simp
      rw [this, rstrip_of_last _ _ (by decide)]

/-- **Repaired code: the sequence field never forms a doc mark** (the exclusion of
    finding `C14-sequence-field-starting-with-bang` is not needed any more).  With
    `spacedExcess` the text beyond column 72 stands behind `! `: whatever that text
    is (also when it starts with `!`, `!!`, `>`...), for every documentation mark
    that does not begin with a blank the reader's doc-mark scanner finds nothing
    in the converted line when the visible part is comment-free and quote-closed;
    the sequence field is an ordinary comment (`col72_limit_on_partial`). -/
theorem sequence_field_never_doc_repaired (v : Variant) (hv : v.spacedExcess = true)
    (lab body : Str) (amp : Bool) (hlong : body.length > 66)
    (hclean : Atoms (if amp then rstrip (lab ++ body.take 66) ++ [' ', '&'] else rstrip (lab ++ body.take 66)))
    (m : Char) (mark : Str) (hm : m ≠ ' ') :
    comScan (m :: mark) (freeCode v true lab body amp) = none := by
  have : freeCode v true lab body amp =
      ljust 72 (if amp then rstrip (lab ++ body.take 66) ++ [' ', '&'] else rstrip (lab ++ body.take 66))
        ++ '!' :: (' ' :: (body.drop 66 ++ ['\n'])) := by
    simp [freeCode, hlong, excessMark, hv]
  rw [this]
  simp only [comScan]
  rw [comScanAux_of_atoms _ _ _ 0 (atoms_ljust _ _ hclean)]
  have : (' ' == m) = false := by
    cases h : ' ' == m
    · rfl
    · exact absurd (by simpa using h : ' ' = m).symm hm
  simp [startsWith, this]

/-- **Column 72, limit off.**  With the limit off nothing is cut: no line is
    ever classified long, no `!` is inserted, and the converted line of every
    statement-carrying line of a well-formed file is label + the *whole* body. -/
theorem col72_limit_off (v : Variant) (lab body : Str) (l : Str) :
    (analyse v false l).long = false ∧ (analyse v false l).excess = [] ∧
    freeCode v false lab body false = lab ++ body ++ ['\n'] := by
  simp [analyse, freeCode]

/-- **Continuation mark reaches the reader** (what still holds of "the output is
    a free-form layout of the same statement"): when the text of a continued
    line is comment-free and quote-closed after removing trailing blanks, the
    free-form line ends in `&` for the reader (no comment is detected, the last
    non-blank character is `&`).  The excluded class - a `!` comment or doc on a
    continued line - is `inline_comment_on_continued_line_witness`. -/
theorem continuation_mark_visible_partial (v : Variant) (lim : Bool) (lab body : Str)
    (hshort : lim = false ∨ body.length ≤ 66)
    (h1 : comScan [] (rstrip (lab ++ body)) = none)
    (h2 : qscan .out (rstrip (lab ++ body)) = .out) :
    comScan [] (dropNL (freeCode v lim lab body true)) = none ∧
    (strip (dropNL (freeCode v lim lab body true))).getLast? = some '&' := by
  have hf : freeCode v lim lab body true = rstrip (lab ++ body) ++ [' ', '&', '\n'] := by
    rcases hshort with h | h
    · simp [freeCode, h]
    · have : ¬ (66 < body.length) := by omega
      simp [freeCode, this]
  have hd : dropNL (rstrip (lab ++ body) ++ [' ', '&', '\n']) = (rstrip (lab ++ body) ++ [' ']) ++ ['&'] := by
    have : rstrip (lab ++ body) ++ [' ', '&', '\n'] = (rstrip (lab ++ body) ++ [' ', '&']) ++ ['\n'] := by simp
    rw [this]
    simp [dropNL]
  rw [hf, hd]
  refine ⟨?_, strip_getLast _ _ (by decide)⟩
  have : rstrip (lab ++ body) ++ [' '] ++ ['&'] = rstrip (lab ++ body) ++ [' ', '&'] := by simp
  rw [this]
  simp only [comScan] at h1 ⊢
  rw [comScanAux_nil_append, h1, h2]
  simp [comScanAux]

/-- non-vacuity: an ordinary continued line satisfies the hypotheses -/
example : comScan [] (rstrip "call f(a, 'it''s ! no comment',  ".toList) = none ∧
    qscan .out (rstrip "call f(a, 'it''s ! no comment',  ".toList) = .out := by decide

/-- **Finding C14-comment-on-continued-line.**  An inline `!` comment on a line
    that is continued: the converter appends ` &` *behind the comment*; the
    reader's comment scanner cuts the line before it, so the continuation mark
    is lost. -/
theorem inline_comment_on_continued_line_witness :
    convertToFree Variant.asIs true ["      x = a + ! c\n".toList, "     & b\n".toList]
      = ["x = a + ! c &\n".toList, " b\n".toList] ∧
    comScan [] "x = a + ! c &".toList = some 8 := by decide

/-- **Finding C14-col7-comment-or-blank-line-between-continuation.**  A comment
    line whose `!` stands in column 7 (or a blank line of more than 5 blanks)
    between a line and its continuation is taken for a statement-carrying
    line: the statement line is released without ` &`, the mark lands on the
    comment / blank line. -/
theorem col7_comment_between_witness :
    convertToFree Variant.asIs true ["      x = a +\n".toList, "      ! note\n".toList, "     & b\n".toList]
      = ["x = a +\n".toList, "! note &\n".toList, " b\n".toList] ∧
    convertToFree Variant.asIs true ["      x = a +\n".toList, "        \n".toList, "     & b\n".toList]
      = ["x = a +\n".toList, " &\n".toList, " b\n".toList] := by decide

/-- **Finding C14-sequence-field-starting-with-bang.**  Limit on, the text
    beyond column 72 starts with `!`: behind the inserted `!` it reads `!!…`,
    which the reader takes for a doc comment (doc mark `!`). -/
theorem sequence_field_bang_witness :
    (analyse Variant.asIs true ("      x = 1".toList ++ List.replicate 61 ' ' ++ "!SEQ\n".toList)).conv
      = "x = 1".toList ++ List.replicate 67 ' ' ++ "!!SEQ\n".toList ∧
    comScan ['!'] ("x = 1".toList ++ List.replicate 67 ' ' ++ "!!SEQ".toList) = some 72 := by decide

/-- **Finding C14-doc-comment-text-beyond-col72-kept.**  Limit on, an inline
    doc comment that runs past column 72: the doc mark is found before column
    72, so the text behind the inserted `!` stays part of the doc. -/
theorem doc_past_col72_witness :
    (analyse Variant.asIs true ("      x = 1 !! d".toList ++ List.replicate 56 'o' ++ "c tail\n".toList)).conv
      = "x = 1 !! d".toList ++ List.replicate 56 'o' ++ "      !c tail\n".toList ∧
    comScan ['!'] ("x = 1 !! d".toList ++ List.replicate 56 'o' ++ "      !c tail".toList) = some 6 := by decide

/-- the inline-comment finding is not touched by the candidate repair -/
theorem inline_comment_on_continued_line_witness_repaired :
    convertToFree Variant.repaired true ["      x = a + ! c\n".toList, "     & b\n".toList]
      = ["x = a + ! c &\n".toList, " b\n".toList] := by decide

/-- **Repaired code, the witnesses of finding
    C14-col7-comment-or-blank-line-between-continuation come out right:** the
    ` &` is on the statement line, the comment / blank line is passed through. -/
theorem col7_comment_between_repaired :
    convertToFree Variant.repaired true ["      x = a +\n".toList, "      ! note\n".toList, "     & b\n".toList]
      = ["x = a + &\n".toList, "      ! note\n".toList, " b\n".toList] ∧
    convertToFree Variant.repaired true ["      x = a +\n".toList, "        \n".toList, "     & b\n".toList]
      = ["x = a + &\n".toList, "  \n".toList, " b\n".toList] := by decide

/-- **Repaired code, the witness of finding C14-sequence-field-starting-with-bang
    comes out right:** `!SEQ` stands behind `! `, the doc-mark scanner finds nothing. -/
theorem sequence_field_bang_repaired :
    (analyse Variant.repaired true ("      x = 1".toList ++ List.replicate 61 ' ' ++ "!SEQ\n".toList)).conv
      = "x = 1".toList ++ List.replicate 67 ' ' ++ "! !SEQ\n".toList ∧
    comScan ['!'] ("x = 1".toList ++ List.replicate 67 ' ' ++ "! !SEQ".toList) = none ∧
    comScan [] ("x = 1".toList ++ List.replicate 67 ' ' ++ "! !SEQ".toList) = some 72 := by decide

/-- the doc-beyond-column-72 finding is not repaired: the tail stays part of the doc -/
theorem doc_past_col72_witness_repaired :
    (analyse Variant.repaired true ("      x = 1 !! d".toList ++ List.replicate 56 'o' ++ "c tail\n".toList)).conv
      = "x = 1 !! d".toList ++ List.replicate 56 'o' ++ "      ! c tail\n".toList := by decide

/-- **Documentation marks in comment lines of every style** (round 5, class of seed m10).
    A line whose column 1 is `c`, `C`, `*` or `!` is a documentation line for a mark - any
    mark: `docmark`, `predocmark`, the alternative marks, a customised one, of any length -
    exactly when the mark stands in columns 2 and following, precisely as for the free-form
    line `!` + the same text: the reader's mark scanner finds the converted line at index 0
    iff the text behind column 1 starts with the mark, and never anywhere else.  So `C*`,
    `c|`, `*>`, `C<` lines document what `!*`, `!|`, `!>`, `!<` document. -/
theorem comment_line_doc_mark_any_style (v : Variant) (lim : Bool) (c : Char) (rest mark : Str)
    (hc : commentHead (some c) = true) (ho : lower (rest.take 4) ≠ ['$', 'o', 'm', 'p']) :
    comScan mark (analyse v lim (c :: rest)).conv = comScan mark ('!' :: rest) ∧
    comScan mark (analyse v lim (c :: rest)).conv = (if startsWith rest mark then some 0 else none) := by
  rw [(comment_line_any_style v lim c rest hc ho).1]
  simp [comScan, comScanAux]

/-- non-vacuity: `C* text` is found by the alternative mark `*`, `C text` by no mark -/
example : comScan ['*'] (analyse Variant.repaired true "C* sub-diagonal\n".toList).conv = some 0 ∧
    comScan ['*'] (analyse Variant.repaired true "C  first element\n".toList).conv = none ∧
    comScan ['<'] (analyse Variant.asIs false "*< custom\n".toList).conv = some 0 := by decide

/-- **Included files are read in the same form and with the same column-72 setting** (round 5,
    class of seed m7).  `FortranReader.include` reads the named file with a nested reader that
    gets the including reader's `fixed` and `length_limit` (`readFixedTree`: the converter with the
    same limit in front of every reader of the tree).  Hence for every tree of well-formed
    fixed-form files - any include depth, any number of include lines wherever `include()`
    looks at them, either limit setting, every variant of the code, every set of marks - reading
    the fixed-form tree gives exactly what reading the tree of the equivalent free-form files
    gives: each include statement is replaced by the items of the equivalent free-form file,
    lines beyond column 72 of an included file kept when the limit is off and cut when it is on,
    exactly as in the including file. -/
theorem include_tree_same_form_and_limit (c : Include.Cfg) (v : Variant) (lim : Bool) (m : Marks)
    (ps : List (Str × List Item)) (hwf : ∀ f ∈ ps, WF v f.2) (main : List Item) (hmain : WF v main)
    (depth : Nat) :
    readFixedTree c v lim m (ps.map fun f => (f.1, renderFixed f.2)) depth (renderFixed main) =
      readFreeTree c m (ps.map fun f => (f.1, renderFree v lim f.2)) depth (renderFree v lim main) := by
  simp only [readFixedTree, readFreeTree, fixedView, freeView, List.map_map]
  rw [convertToFree_simulation v lim main hmain]
  congr 1
  apply List.map_congr_left
  intro f hf
  simp only [Function.comp]
  rw [convertToFree_simulation v lim f.2 (hwf f hf)]

/-- non-vacuity: limit off, the included file has a declaration that runs beyond column 72 -
    the fixed-form tree yields the whole line, as the free-form tree does -/
example :
    (readFixedTree ⟨true, true, true, true⟩ Variant.repaired false Marks.default
      [("w.inc".toList, [("      integer n_alpha, n_beta" ++ String.ofList (List.replicate 40 ' ') ++ ", n_theta\n").toList])]
      3 ["      include 'w.inc'\n".toList, "      x = 1\n".toList]).toOption
    = some [("integer n_alpha, n_beta" ++ String.ofList (List.replicate 40 ' ') ++ ", n_theta").toList, "x = 1".toList] := by
  decide

/-- **The form is chosen by the extension: every fixed-form extension is read in fixed form**
    (round 5, class of seed m8).  Whatever the two extension lists are - also when an extension
    stands in both, which is what `ProjectSettings.__post_init__` produces for the preprocessed
    fixed-form extensions - a file whose extension is a fixed-form extension is parsed, and in
    fixed form; a file is parsed in free form only if its extension is not a fixed-form one. -/
theorem fixed_extension_selects_fixed_form (extensions fixedExtensions : List Str) (ext : Str) :
    (ext ∈ fixedExtensions → sourceForm extensions fixedExtensions ext = some true) ∧
    (sourceForm extensions fixedExtensions ext = some false → ext ∉ fixedExtensions ∧ ext ∈ extensions) := by
  constructor
  · intro h
    simp [sourceForm, h]
  · intro h
    simp only [sourceForm] at h
    split at h
    · rename_i hmem
      have hf : fixedExtensions.contains ext = false := by simpa using h
      have hnot : ext ∉ fixedExtensions := by simpa using hf
      refine ⟨hnot, ?_⟩
      have : ext ∈ extensions ++ fixedExtensions := by simpa using hmem
      rcases List.mem_append.mp this with h1 | h2
      · exact h1
      · exact absurd h2 hnot
    · cases h

/-- **... in particular with the extension lists of a default project**, regenerated from
    `ProjectSettings()` on every run: each of its fixed-form extensions selects the fixed form,
    although some of them (the preprocessed ones) are also in the effective free-form list. -/
theorem default_fixed_extensions_select_fixed_form :
    ∀ ext ∈ Gen.fixedExtensions, sourceForm Gen.extensions Gen.fixedExtensions ext = some true :=
  fun ext h => (fixed_extension_selects_fixed_form Gen.extensions Gen.fixedExtensions ext).1 h

/-- non-vacuity: an extension in both lists (the `.F` trap), one in neither -/
example : sourceForm ["F".toList, "f90".toList] ["f".toList, "F".toList] "F".toList = some true ∧
    sourceForm ["F".toList, "f90".toList] ["f".toList, "F".toList] "f90".toList = some false ∧
    sourceForm ["F".toList, "f90".toList] ["f".toList, "F".toList] "txt".toList = none := by decide

/-! ### Round 6 - with which configuration a project's file and its INCLUDEd files are read -/

/-- **A fixed-form file is read with the `fixed_length_limit` *setting*, preprocessed or not**
    (round 6, class of seed m12).  Whatever the three extension lists and the setting are: a file
    whose extension is a fixed-form extension is parsed, its reader is constructed with
    `fixed = True` and `length_limit =` the setting - also when the extension is a preprocessed one
    (`.F`, `.FOR` of a default project), the only thing that membership in `fpp_extensions`
    decides is whether the preprocessor runs first.  So "text beyond column 72 ignored when the
    length limit is on and kept when it is off" is decided by the setting alone. -/
theorem fixed_file_reader_config (s : ProjSettings) (ext : Str) (h : ext ∈ s.fixedExtensions) :
    fileCfg s ext = some { fixed := true, lim := s.lengthLimit, pp := s.fppExtensions.contains ext } := by
  simp [fileCfg, (fixed_extension_selects_fixed_form s.extensions s.fixedExtensions ext).1 h]

/-- **... for every file that is parsed at all the limit handed to the reader is the setting**
    (free-form files carry it along unused; their INCLUDEd files inherit it). -/
theorem reader_limit_is_the_setting (s : ProjSettings) (ext : Str) (c : ReaderCfg)
    (h : fileCfg s ext = some c) : c.lim = s.lengthLimit ∧ c.pp = s.fppExtensions.contains ext := by
  simp only [fileCfg] at h
  split at h
  · cases h
  · cases h; exact ⟨rfl, rfl⟩

/-- **`preprocess: false` switches the preprocessor off for every file and changes nothing else**:
    same form, same limit. -/
theorem preprocess_off_only_drops_the_preprocessor (exts fixedExts fpp : List Str) (lim : Bool) (ext : Str) :
    fileCfg ⟨exts, fixedExts, effectiveFpp false fpp, lim⟩ ext =
      (fileCfg ⟨exts, fixedExts, fpp, lim⟩ ext).map includeCfg := by
  simp only [fileCfg, effectiveFpp]
  cases sourceForm exts fixedExts ext <;> simp [includeCfg]

/-- **INCLUDEd files inherit form and limit, never the preprocessor - at every depth.** -/
theorem included_file_inherits_form_and_limit (c : ReaderCfg) :
    (includeCfg c).fixed = c.fixed ∧ (includeCfg c).lim = c.lim ∧ (includeCfg c).pp = false ∧
    includeCfg (includeCfg c) = includeCfg c := by
  simp [includeCfg]

/-- **The default project**: the lists regenerated from `ProjectSettings()` on every run; each
    fixed-form extension, with preprocessing on or off, either limit setting, is read in fixed form
    with the setting as its limit; and the situation is not empty - there are default fixed-form
    extensions that are preprocessed. -/
theorem default_fixed_extensions_keep_the_limit_setting :
    (∀ ext ∈ Gen.fixedExtensions, ∀ preprocess lim : Bool,
      fileCfg ⟨Gen.extensions, Gen.fixedExtensions, effectiveFpp preprocess Gen.fppExtensions, lim⟩ ext =
        some { fixed := true, lim := lim, pp := (effectiveFpp preprocess Gen.fppExtensions).contains ext }) ∧
    (∃ ext ∈ Gen.fixedExtensions, Gen.fppExtensions.contains ext = true) := by
  constructor
  · intro ext h preprocess lim
    exact fixed_file_reader_config ⟨_, _, _, lim⟩ ext h
  · decide

/-- **The probed wiring is the modelled one.**  `Gen.readerCfgProbe` is regenerated on every run
    by constructing the real `FortranSourceFile` for each of the 8 combinations (fixed, limit
    setting, preprocessor given) on a file that INCLUDEs another one and recording the arguments
    the real `FortranReader`s are constructed with: the main reader gets exactly (fixed, setting,
    preprocessor), the nested reader `includeCfg` of that.  All 8 combinations are present. -/
theorem reader_config_probe_matches_model :
    (∀ row ∈ Gen.readerCfgProbe,
      let c : ReaderCfg := { fixed := row.1.1, lim := row.1.2.1, pp := row.1.2.2 }
      (⟨row.2.1.1, row.2.1.2.1, row.2.1.2.2⟩ : ReaderCfg) = c ∧
      (⟨row.2.2.1, row.2.2.2.1, row.2.2.2.2⟩ : ReaderCfg) = includeCfg c) ∧
    (∀ a b c : Bool, (Gen.readerCfgProbe.map (·.1)).contains (a, b, c) = true) := by
  decide

/-- **A fixed-form file of a project, preprocessed or not, reads as its free-form equivalent**
    (round 6).  For every project (any extension lists, either limit setting, preprocessing on or
    off), every file with a fixed-form extension, every preprocessor `pp` (any function) and every
    tree of INCLUDEd files: when what reaches the converter - the file itself, or the
    preprocessor's output for a preprocessed extension - is a well-formed fixed-form file `main`,
    the items are those of the equivalent free-form tree rendered *with the limit setting*
    (text beyond column 72 cut iff the setting is on), in the main file and in every INCLUDEd
    file at every depth. -/
theorem project_fixed_file_same_as_free_equivalent (ic : Include.Cfg) (v : Variant) (s : ProjSettings)
    (ext : Str) (hext : ext ∈ s.fixedExtensions) (m : Marks) (pp : List Str → List Str)
    (ps : List (Str × List Item)) (hwf : ∀ f ∈ ps, WF v f.2) (main : List Item) (hmain : WF v main)
    (raw : List Str)
    (hraw : (if s.fppExtensions.contains ext then pp raw else raw) = renderFixed main) (depth : Nat) :
    ∃ c, fileCfg s ext = some c ∧
      readProjectFile ic v c m pp (ps.map fun f => (f.1, renderFixed f.2)) depth raw =
        readFreeTree ic m (ps.map fun f => (f.1, renderFree v s.lengthLimit f.2)) depth
          (renderFree v s.lengthLimit main) := by
  refine ⟨_, fixed_file_reader_config s ext hext, ?_⟩
  rw [← include_tree_same_form_and_limit ic v s.lengthLimit m ps hwf main hmain depth]
  simp only [readProjectFile, readFixedTree, readerView, includeCfg, hraw, List.map_map]
  simp [Function.comp_def]

/-- non-vacuity (the `.F` situation of a default project, limit on): the sequence field of a
    preprocessed fixed-form file is not part of the statement; with the limit off it is -/
example :
    (fileCfg ⟨Gen.extensions, Gen.fixedExtensions, Gen.fppExtensions, true⟩ "F".toList).map
      (fun c => (c, (readProjectFile ⟨true, true, true, true⟩ Variant.repaired c Marks.default id [] 2
        [("      integer n".toList ++ List.replicate 57 ' ' ++ "FILL0020\n".toList)]).toOption))
      = some (⟨true, true, true⟩, some ["integer n".toList]) ∧
    (fileCfg ⟨Gen.extensions, Gen.fixedExtensions, Gen.fppExtensions, false⟩ "F".toList).map
      (fun c => (c, (readProjectFile ⟨true, true, true, true⟩ Variant.repaired c Marks.default id [] 2
        [("      integer n".toList ++ List.replicate 57 ' ' ++ "FILL0020\n".toList)]).toOption))
      = some (⟨true, false, true⟩, some [("integer n".toList ++ List.replicate 57 ' ' ++ "FILL0020".toList)]) := by
  decide

/-! ### Round 6 - converter and reader composed on one continued statement -/

/-- **A fixed-form statement continued over any number of lines is read as one logical line**
    (round 6; the composition of the converter with the reader that was "only corresponded").
    The file: an initial line (any label, column 6 blank or `0`), then any mixture of held-back
    lines (comment lines of every style, blank lines, `!`-lines) and continuation lines (any
    column-6 character), a last continuation line, then the rest of the file (which starts a new
    statement).  `list(FortranReader(file, fixed=True, length_limit=lim))` - converter, then
    reader - yields the items of the single logical line obtained by joining the statement
    fields (`Mid.join`: one blank between the pieces), split at `;` outside literals, followed
    by what the rest of the file yields.  The hypotheses on the individual lines are those of
    C02's `layout_join`, stated on the *free-form equivalent* of each fixed-form line
    (`freeLine`): no doc comment on it and its code part is the intended piece;
    `comment_line_between_is_transparent` / `continuation_line_code_part` below discharge them
    from the spelling of the fixed-form line.  Every variant of the code, both limit settings,
    every mark set; no bound on the number of lines. -/
theorem fixed_statement_reads_as_one_logical_line (v : Variant) (lim : Bool) (m : Marks)
    (lab5 : Str) (c6 : Char) (body0 : Str) (mid : List Item) (cn : Char) (bodyn : Str) (rest : List Item)
    (hwf : WF v (.init lab5 c6 body0 :: (mid ++ .cont cn bodyn :: rest)))
    (hmid : ∀ it ∈ mid, it.midOk = true) (hrest : nextIsCont rest = false)
    (x : Char) (r : Str) (mids : List Mid) (lead : Bool) (b : Str)
    (h0 : NoDoc m false (dropNL (freeLine v lim (.init lab5 c6 body0) true)))
    (hc0 : codeOf false (dropNL (freeLine v lim (.init lab5 c6 body0) true)) = x :: r ++ ['&']) (hx : x ≠ '&')
    (hr : Rendered m (' ' :: x :: r) mids (mid.map fun it => dropNL (midFree v lim it)))
    (hn : NoDoc m (unterminated (mids.foldl Mid.join (' ' :: x :: r)))
      (dropNL (freeLine v lim (.cont cn bodyn) false)))
    (hcn : codeOf (unterminated (mids.foldl Mid.join (' ' :: x :: r)))
      (dropNL (freeLine v lim (.cont cn bodyn) false)) = lastCode lead b)
    (hb : isBlank b = false) (hl : b.getLast? ≠ some '&')
    (hh : lead = false → ∃ y t, b = y :: t ∧ y ≠ '&')
    (hJ : itemsOf (Mid.join (mids.foldl Mid.join (' ' :: x :: r)) (.cont lead b)) ≠ []) :
    readAll m ((convertToFree v lim (renderFixed (.init lab5 c6 body0 :: (mid ++ .cont cn bodyn :: rest)))).map dropNL) =
      match readAll m ((convertToFree v lim (renderFixed rest)).map dropNL) with
      | .error e => .error e
      | .ok more => .ok (itemsOf (Mid.join (mids.foldl Mid.join (' ' :: x :: r)) (.cont lead b)) ++ more) := by
  have hwr : WF v rest := ⟨fun it hm => hwf.1 it (by simp [hm]), hrest⟩
  rw [convertToFree_simulation v lim _ hwf, convertToFree_simulation v lim rest hwr]
  simp only [renderFree, Item.isRegular, Bool.true_and]
  rw [nextIsCont_mid mid cn bodyn rest hmid, renderFree_mid v lim mid cn bodyn rest hmid]
  simp only [renderFree, Item.isRegular, Bool.true_and, hrest, List.map_cons, List.map_append, List.map_map]
  exact continuation_join m _ x r mids _ _ lead b _ h0 hc0 hx hr hn hcn hb hl hh hJ

/-- **Comment lines of every style between the lines of a statement are transparent to the
    reader.**  The free-form equivalent of a `c`/`C`/`*`/`!` comment line whose text does not
    begin with a documentation mark carries no doc comment and no code: in
    `fixed_statement_reads_as_one_logical_line` it is a `Mid.blank`, the joined text is
    unchanged by it. -/
theorem comment_line_between_is_transparent (v : Variant) (lim : Bool) (m : Marks) (c : Char) (t : Str)
    (J : Str) (hJ : unterminated J = false)
    (h1 : startsWith t m.pre = false) (h2 : startsWith t m.preAlt = false)
    (h3 : startsWith t m.alt = false) (h4 : startsWith t m.doc = false) (ht : t.getLast? ≠ some '\n') :
    dropNL (midFree v lim (.comment c (t ++ ['\n']))) = '!' :: t ∧
    NoDoc m (unterminated J) ('!' :: t) ∧ codeOf (unterminated J) ('!' :: t) = Mid.blank.code ∧
    Mid.blank.join J = J := by
  have hd : dropNL (midFree v lim (.comment c (t ++ ['\n']))) = '!' :: t := by
    have : ('!' :: (t ++ ['\n'])) = ('!' :: t) ++ ['\n'] := rfl
    simp only [midFree, freeLine, dropNL, this, List.getLast?_append, List.dropLast_concat]
    simp
  rw [hJ]
  exact ⟨hd, (comment_line_no_code m t h1 h2 h3 h4).1, (comment_line_no_code m t h1 h2 h3 h4).2, rfl⟩

/-- non-vacuity of `fixed_statement_reads_as_one_logical_line`: label, column-6 `0`, three
    continuation characters, a `C` comment line, a blank line and a `*` comment line in between,
    then a second statement - two items, the first one the joined statement -/
example :
    (readAll Marks.default ((convertToFree Variant.repaired true
      ["  10 0call f(a,\n".toList, "C note\n".toList, "     &  b,\n".toList, "\n".toList, "* more\n".toList,
       "     1  c)\n".toList, "      x = 1\n".toList]).map dropNL)).toOption
      = some ["10 call f(a, b, c)".toList, "x = 1".toList] := by decide

/-- **The statement field of a continuation line is the piece that is joined** - whatever the
    continuation character in column 6.  For a continuation line that is not cut (limit off, or
    nothing beyond column 72) whose statement field is comment-free and quote-closed, does not
    start with `&` or `#` and is not blank: its free-form equivalent is the field with ` &`
    appended, carries no doc comment, and in `fixed_statement_reads_as_one_logical_line` it is the
    piece `Mid.cont false` of the field without the blanks around it - joined to what came before
    with exactly one blank. -/
theorem continuation_line_code_part (v : Variant) (lim : Bool) (m : Marks) (c : Char) (body J : Str)
    (hJ : unterminated J = false) (hshort : lim = false ∨ body.length ≤ 66)
    (hs : Atoms (rstrip body ++ [' ', '&'])) (hne : isBlank (rstrip body) = false)
    (hhead : ∀ y, (lstrip (rstrip body)).head? = some y → y ≠ '&' ∧ y ≠ '#') :
    dropNL (midFree v lim (.cont c body)) = rstrip body ++ [' ', '&'] ∧
    NoDoc m (unterminated J) (rstrip body ++ [' ', '&']) ∧
    codeOf (unterminated J) (rstrip body ++ [' ', '&']) = (Mid.cont false (lstrip (rstrip body) ++ [' '])).code ∧
    (Mid.cont false (lstrip (rstrip body) ++ [' '])).wf ∧
    (Mid.cont false (lstrip (rstrip body) ++ [' '])).join J = strip J ++ ' ' :: (lstrip (rstrip body) ++ [' ']) := by
  obtain ⟨y, r, hy, hsp⟩ := lstrip_ne_nil_of_not_blank _ hne
  have hyy := hhead y (by simp [hy])
  have hd : dropNL (midFree v lim (.cont c body)) = rstrip body ++ [' ', '&'] := by
    have hcond : (lim && decide (body.length > 66)) = false := by
      rcases hshort with h | h
      · simp [h]
      · have : ¬ body.length > 66 := by omega
        simp [this]
    have : rstrip body ++ [' ', '&', '\n'] = (rstrip body ++ [' ', '&']) ++ ['\n'] := by simp
    simp only [midFree, freeLine, Item.isRegular, freeCode, hcond, Bool.false_eq_true, ↓reduceIte,
      List.nil_append, this, dropNL, List.getLast?_append, List.dropLast_concat]
    simp
  rw [hJ]
  refine ⟨hd, ⟨?_, matchDocmark_plain _ _ hs, matchDocmark_plain _ _ hs, matchDocmark_plain _ _ hs,
    matchDocmark_plain _ _ hs⟩, ?_, ?_, rfl⟩
  · simp only [firstStripped, lstrip_append_of_not_blank _ _ hne, hy]
    simpa using hyy.2
  · rw [codeOf_continued _ hs hne]; rfl
  · exact ⟨y, r ++ [' '], by simp [hy], hyy.1⟩

/-- non-vacuity of `continuation_line_code_part`: column 6 is `$`, the field has blanks on both
    sides and a literal with `!` and `&` in it -/
example :
    dropNL (midFree Variant.repaired true (.cont '$' "   b // 'it!&'  ".toList)) = "   b // 'it!&' &".toList ∧
    codeOf false "   b // 'it!&' &".toList = (Mid.cont false "b // 'it!&' ".toList).code := by decide

end Ford.C14
