/-
  C19 - a run touches nothing outside its output directory (and graph directory).
  Property theorems only; the model is FordModel/Fs.lean, helper lemmas are in
  FordModel/Lemmas/Fs.lean, the tables are regenerated from the repo into
  FordModel/Generated/C19.lean on every run.
-/
import FordModel.Fs
import FordModel.FsPages
import FordModel.Lemmas.Fs
import FordModel.Lemmas.FsPages
import FordModel.FsGlob
import FordModel.Lemmas.FsGlob
namespace Ford.C19
open Ford Ford.Fs

/-- **Prefix lemma.** Joining a relative path that never climbs above its starting
    point (`safe 0 x`: at no point more `..` than real segments before it) to a
    normal base and letting the OS resolve `.`, `..` and `//` gives a path below
    the base - for every base and every such `x`, of any length. -/
theorem norm_under (o : Path) (ho : Normal o) (x : List Seg) (hx : safe 0 x = true) :
    o <+: norm (o ++ x) := under_of_safe o ho x hx

/-- The prefix lemma with a budget: starting `y.length` segments below the base,
    `x` may climb up to `y.length` levels (this is why the shipped example
    `copy_subdir: ../images` stays inside the output directory). -/
theorem norm_under_budget (o y : Path) (ho : Normal o) (hy : Normal y) (x : List Seg)
    (hx : safe y.length x = true) : o <+: norm (o ++ y ++ x) := by
  obtain ⟨z, hz⟩ := normAux_under o x y.reverse (by simpa using hx)
  refine ⟨z, ?_⟩
  have hoy : Normal (o ++ y) := by
    intro s hs
    rcases List.mem_append.1 hs with h | h
    · exact ho s h
    · exact hy s h
  have h2 := normAux_append_normal (o ++ y) hoy [] x
  simp only [List.reverse_append, List.append_nil] at h2
  show o ++ z = normAux [] (o ++ y ++ x)
  rw [h2, hz]

/-- Whatever the placement of `output_dir` / `graph_dir` (relative, absolute, with
    `..`, `.`, `//`, reached through symbolic links), the normalised directories the
    run works with contain no `.`/`..`/empty segment: the base of every later join
    is normal. -/
theorem dirs_normal (c : Cfg) (hl : LinksOk c.links) :
    Normal (outDir c) ∧ ∀ g, graphDir c = some g → Normal g := by
  refine ⟨resolve_normal _ hl _, ?_⟩
  intro g hg
  simp [graphDir] at hg
  obtain ⟨raw, _, rfl⟩ := hg
  exact resolve_normal _ hl _

/-- `NameSelector.get_name` (with the replacement table as it is in the source):
    the page file name of *every* entity name - any characters, any homonym number -
    is a single path segment that is not `..`, so `out_dir / get_dir() / ident.html`
    cannot leave `out_dir / get_dir()`. Editing `/` out of the table breaks this proof. -/
theorem ident_safe (name : Str) (num : Nat) : safeRel (identFile name num) = true := by
  apply safeRel_of_no_slash _ _ (identFile_ne_dotdot name num)
  have hs : '/' ∉ sanitize Generated.C19.symbolReplacements (lower name) :=
    sanitize_removes _ '/' (by decide) (by decide) _
  have hn : '/' ∉ natStr num := by
    simp only [natStr]
    intro h
    rw [Nat.toString_eq_ofList_toDigits] at h
    have := Nat.isDigit_of_mem_toDigits (b := 10) (by decide) (by decide) (by simpa using h)
    exact absurd this (by decide)
  unfold identFile ident
  simp only
  split <;> split <;> simp_all <;> decide

/-- Every fixed name that `writeout` joins to the output directory (generated
    tables: sub-directories, copied installation directories, list pages, string
    constants) cannot climb. -/
theorem fixed_names_safe :
    (∀ d ∈ Generated.C19.outDirs, safeRel d = true) ∧ (∀ d ∈ Generated.C19.libDirs, safeRel d = true) ∧
    (∀ d ∈ Generated.C19.listPages, safeRel d = true) ∧ (∀ d ∈ Generated.C19.fixedNames, safeRel d = true) :=
  tables_safe

/-- **Symbolic links inside copied trees are dereferenced.** For every tree that FORD copies
    verbatim (`media_dir`, a page's `copy_subdir` directory, its own css/js/fonts) and *every* table
    of symbolic links among its entries - pointing inside the tree, elsewhere in the project or
    anywhere on disk, existing or dangling - the attempts of the copy (including FORD's `touch` pass
    over the result) are the same as for the link-free tree: where the links point is irrelevant.
    Rests on the generated constant `copytreeSymlinks` (the `symlinks=` argument of the
    `shutil.copytree` call in `ford.output.copytree`): keeping links as links breaks this proof. -/
theorem copy_dereferences_links (dst : Path) (t : Tree) (l : List (Str × Path)) :
    copyTree dst { t with links := l } = copyTree dst t := by
  rw [copyTree_eq_deref, copyTree_eq_deref]
  rfl

/-- ... and the copy never creates a symbolic link, so the output directory (wiped at the start of
    the run) holds regular files and directories only and `Path.touch()` cannot be redirected. -/
theorem copy_creates_no_link (dst : Path) (t : Tree) : ∀ p ∈ copyTree dst t, p.kind ≠ .symlink := by
  intro p hp
  rw [copyTree_eq_deref] at hp
  simp only [copyTreeDeref, List.mem_cons, List.mem_append] at hp
  rcases hp with ((rfl | h) | h) | h
  · simp
  · obtain ⟨e, _, _, hk⟩ := mem_walkOps dst t.walk p h
    rcases hk with ⟨_, hk | hk⟩ | ⟨_, hk⟩ | ⟨_, hk | hk⟩ <;> simp [hk]
  · simp at h; rcases h with rfl | rfl <;> simp
  · split at h
    · cases h
    · obtain ⟨r, _, rfl⟩ := List.mem_map.1 h
      simp

/-- **Why links must be dereferenced.** Had the copy kept links as links (`copyTreeKeep`, the
    behaviour of `symlinks=True`), a tree `{a -> /v/f, b -> /v/gone (dangling)}` copied to `/o/media`
    would make the `touch` pass set the times of `/v/f` and create `/v/gone`, both outside `/o`. -/
theorem kept_links_escape_witness :
    let t : Tree := ⟨[(0, ['a']), (3, ['b'])], [['a']], [(['a'], [['v'], ['f']]), (['b'], [['v'], ['g', 'o', 'n', 'e']])]⟩
    (⟨.utime, [['v'], ['f']]⟩ ∈ copyTreeKeep [['o'], ['m', 'e', 'd', 'i', 'a']] t) ∧
    (⟨.wr, [['v'], ['g', 'o', 'n', 'e']]⟩ ∈ copyTreeKeep [['o'], ['m', 'e', 'd', 'i', 'a']] t) ∧
    (∀ p ∈ copyTreeDeref [['o'], ['m', 'e', 'd', 'i', 'a']] t, [['o']] <+: p.path) := by
  decide

/-- **FORD only touches what it has just created.** In a copy (coherent listing, `treeWf`), every
    `utime` attempt - `copystat` on the directories and the `touch` pass over `rglob("*")` - targets
    the destination directory itself or a path for which the same copy made an `open`-for-write or
    `mkdir` attempt. Nothing that existed before the copy is touched. -/
theorem touch_only_own_copies (dst : Path) (t : Tree) (hwf : treeWf t = true) :
    ∀ p ∈ copyTree dst t, p.kind = .utime →
      p.path = dst ∨ ∃ q ∈ copyTree dst t, (q.kind = .wr ∨ q.kind = .mk) ∧ q.path = p.path := by
  intro p hp hk
  simp only [treeWf, Bool.and_eq_true, List.all_eq_true, Bool.or_eq_true, List.contains_iff_mem,
    bne_iff_ne, ne_eq] at hwf
  obtain ⟨hT, hW⟩ := hwf
  rw [copyTree_eq_deref] at hp ⊢
  have hsub : ∀ q ∈ walkOps dst t.walk, q ∈ copyTreeDeref dst t := by
    intro q hq; simp [copyTreeDeref, hq]
  have hrel : ∀ rel, (0, rel) ∈ t.walk ∨ (1, rel) ∈ t.walk →
      ∃ q ∈ copyTreeDeref dst t, (q.kind = .wr ∨ q.kind = .mk) ∧ q.path = sub dst rel := by
    rintro rel (h | h)
    · exact ⟨_, hsub _ (walkOps_file dst t.walk rel h), Or.inl rfl, rfl⟩
    · exact ⟨_, hsub _ (walkOps_dir dst t.walk rel h), Or.inr rfl, rfl⟩
  simp only [copyTreeDeref, List.mem_cons, List.mem_append] at hp
  rcases hp with ((rfl | h) | h) | h
  · cases hk
  · obtain ⟨e, he, hpath, hkind⟩ := mem_walkOps dst t.walk p h
    rcases hkind with ⟨_, h' | h'⟩ | ⟨_, h'⟩ | ⟨h2, _⟩
    · rw [hk] at h'; cases h'
    · rw [hk] at h'; cases h'
    · rw [hk] at h'; cases h'
    · right
      rw [hpath]
      rcases hW e he with h' | h'
      · exact absurd h2 h'
      · exact hrel _ (Or.inr h')
  · simp at h
    rcases h with rfl | rfl
    · exact Or.inl rfl
    · cases hk
  · split at h
    · cases h
    · obtain ⟨r, hr, rfl⟩ := List.mem_map.1 h
      exact Or.inr (hrel r (hT r hr))

/-- **The containment guard of page-level `copy_subdir`** (`self.out_dir in target.parents`, with
    `parents` as pathlib defines it) accepts a target exactly when it lies strictly below the output
    directory *component by component*. -/
theorem guard_iff_strictly_below (o dst : Path) :
    guardAccepts o dst = true ↔ o <+: dst ∧ o ≠ dst := by
  simp [guardAccepts, mem_parents_iff_proper]

/-- With the guard, *whatever* the `copy_subdir` item is - absolute, any number of `..`, a name
    that merely resembles the output directory's (`doc` / `docs`, `doc-assets`, `doc.old`), the
    output directory itself or an ancestor - every attempt of the copy lies below the output
    directory; items the guard rejects cause no attempt at all. -/
theorem guarded_copy_below (c : Cfg) (o : Path) (to : List Seg) (created : List Path) (pc : PCopy)
    (hv : c.repaired = true) (ht : ∀ t, pc.tree = some t → (∀ e ∈ t.walk, safeRel e.2 = true) ∧ ∀ e ∈ t.touch, safeRel e = true) :
    (∀ p ∈ pcopyOps c o to created pc, o <+: p.path) ∧
    (guardAccepts o (norm (joinRaw to pc.item)) = false → pcopyOps c o to created pc = []) := by
  refine ⟨pcopyOps_under c o to created pc (Or.inl hv) ht, ?_⟩
  intro hg
  simp [pcopyOps, hv, hg]

/-- **Why the guard must compare components.** The textual test
    `str(target).startswith(str(out_dir))` accepts the sibling `/p/docs` (and `/p/doc-assets`) of
    the output directory `/p/doc`, which the guard rejects and which is not below it. -/
theorem string_prefix_guard_unsound_witness :
    let o : Path := [['p'], ['d', 'o', 'c']]
    let d1 : Path := [['p'], ['d', 'o', 'c', 's'], ['x']]
    let d2 : Path := [['p'], ['d', 'o', 'c', '-', 'a', 's', 's', 'e', 't', 's']]
    strPrefixGuard o d1 = true ∧ guardAccepts o d1 = false ∧ ¬ o <+: d1 ∧
    strPrefixGuard o d2 = true ∧ guardAccepts o d2 = false ∧ ¬ o <+: d2 := by
  decide

/-- **Confinement (repaired variant).** For all placements of `output_dir` and
    `graph_dir`, all option combinations (graph, search, media_dir, css, favicon,
    incl_src, mathjax_config, page_dir with copy_subdir, externalize), all projects
    and page trees of any size: every file-system attempt of the run targets the
    output directory or the graph directory (or creates a missing ancestor of them).
    Side conditions: names that come from directory listings do not climb (`SiteOk`); the copied
    trees may contain symbolic links to anywhere (`Tree.links` is unconstrained). -/
theorem confined (c : Cfg) (s : Site) (hl : LinksOk c.links) (hs : SiteOk s) (hv : c.repaired = true) :
    ∀ p ∈ run c s, Allowed (outDir c) (graphDir c) p := by
  intro p hp
  exact runW_allowed _ c s hl hs (Or.inl hv) p hp

/-- **Confinement, code as it is.** The same, provided no page's `copy_subdir`
    item is absolute or climbs out of the output directory (`noEscape`, decidable). -/
theorem confined_partial (c : Cfg) (s : Site) (hl : LinksOk c.links) (hs : SiteOk s)
    (hne : noEscape s = true) : ∀ p ∈ run c s, Allowed (outDir c) (graphDir c) p := by
  intro p hp
  exact runW_allowed _ c s hl hs (Or.inr hne) p hp

/-- **Witness of the defect.** Project in `/p`, `output_dir: doc`, top page with
    `copy_subdir: ../../x` (source directory containing `a`): the unrepaired run
    writes `/p/x/a`, outside `/p/doc`; the repaired variant performs no attempt
    outside. -/
theorem copy_subdir_escape_witness :
    let c : Cfg := { dir := ["p".toList], out := "doc".toList }
    let s : Site := { pages := [{ loc := [], stem := "index".toList, files := [],
                                  copies := [{ item := "../../x".toList, tree := some ⟨[(0, "a".toList)], ["a".toList], []⟩ }] }] }
    noEscape s = false ∧ (∃ p ∈ run c s, ¬ Allowed (outDir c) (graphDir c) p) ∧
    (run { c with repaired := true } s).all (fun p => (outDir c).isPrefixOf p.path) = true := by
  intro c s
  refine ⟨by decide, ⟨⟨.wr, ["p".toList, "x".toList, "a".toList]⟩, by decide, ?_⟩, by decide⟩
  rintro (h | ⟨gd, hg, _⟩ | ⟨hk, _⟩)
  · exact absurd h (by decide)
  · simp [graphDir, c] at hg
  · cases hk

/-- **A source file is copied under its last path component only.** Wherever a source file lies - below
    the project, in a directory several levels above the project file, anywhere on disk, whatever `..` its
    path contains - and however many files share its name, `incl_src` writes it to `src/<last component>`:
    inside `output_dir/src`. No hypothesis on the path: no part of the file's directory reaches the target
    (a copy placed under the file's project-relative path would not have this property). -/
theorem src_copy_confined (o : Path) (ho : Normal o) (path : Str) :
    ∀ q ∈ copyFile (norm (o ++ ["src".toList] ++ [baseName path])), o <+: q.path := by
  apply copyFile_under
  have := under_join o ho _ (safe_two "src".toList (baseName path) ⟨by decide, by decide, by decide⟩)
  simpa using this

/-- **`os.path.relpath` below its start.** When `start` is, after normalisation, a prefix of `p`, the
    relative path is what remains of `p` - a path without `.`, `..` or empty components. -/
theorem relpath_below (p start : List Seg) (h : norm start <+: norm p) :
    relpath p start = (norm p).drop (norm start).length ∧ Normal (relpath p start) :=
  ⟨relpath_of_prefix p start h, relpath_normal_of_prefix p start h⟩

/-- **The containment test of `get_page_tree`** (repaired variant: `rel = os.path.relpath(filename, topdir)`
    must be neither `.` nor start with `..`) accepts an entry `name` of a page in `topdir` exactly when
    `topdir / name` lies, after lexical normalisation, strictly below `topdir` - whatever the entry is:
    nested, absolute, with `..` anywhere, with `//` or `.` components. -/
theorem subpage_guard_iff_strictly_inside (topdir : List Seg) (name : Str) :
    relOutside (joinLex topdir name) topdir = false ↔
      norm topdir <+: norm (joinLex topdir name) ∧ norm topdir ≠ norm (joinLex topdir name) :=
  relOutside_false_iff _ _

/-- **Every static page is placed inside `page/` (repaired variant).** For every page directory - any
    listings, any symbolic links inside it pointing anywhere (sections shared with other projects, linked
    page files, dangling links), any `ordered_subpage` entries in any page's metadata (names, nested paths,
    `..` to any depth, absolute paths, naming directories, page files or plain files inside or outside the
    page directory) - the `location` of every node of the page tree is a path without `..`: the page is
    written below `output_dir/page`. The location is computed lexically (`relpath`), never through a link:
    where a linked section really lies does not enter it. -/
theorem page_locations_inside (pin : PageIn) :
    ∀ n ∈ pageTree true pin, Normal n.loc ∧ safe 0 n.loc = true := by
  intro n hn
  have h := pageTree_locs true pin (Or.inl rfl) n hn
  exact ⟨h, safe_of_normal _ h 0⟩

/-- **... code as it is**, under the decidable hypothesis on the *input* that no `ordered_subpage` entry
    (and no name of a directory listing) is absolute or climbs above the directory of the page that lists
    it (`noSubpageEscape`). -/
theorem page_locations_inside_partial (pin : PageIn) (h : noSubpageEscape pin = true) :
    ∀ n ∈ pageTree false pin, Normal n.loc ∧ safe 0 n.loc = true := by
  intro n hn
  have h := pageTree_locs false pin (Or.inr h) n hn
  exact ⟨h, safe_of_normal _ h 0⟩

/-- **Confinement as a function of the input page tree (both repairs).** The static pages are not given
    but *computed* from what lies in the page directory and what the metadata says (`pageTree`, the model of
    `get_page_tree` / `PageNode`): for all placements, options, sites and page directories every attempt of
    the run targets the output directory or the graph directory. No hypothesis on page locations or on
    `ordered_subpage` entries is left; the side conditions are those on directory listings (`SiteOk` for the
    non-page part, `TreesOk` for the directories that `copy_subdir` items name). -/
theorem confined_from_input (c : Cfg) (s : Site) (pin : Option PageIn) (hl : LinksOk c.links) (hs : SiteOk s)
    (ht : ∀ p, pin = some p → TreesOk p) (hv : c.repaired = true) (hg : c.subGuard = true) :
    ∀ p ∈ runIn c s pin, Allowed (outDir c) (graphDir c) p := by
  intro p hp
  exact runW_allowed _ c _ hl (siteOk_withPages _ _ s pin hs (fun q hq => ⟨Or.inl hg, ht q hq⟩)) (Or.inl hv) p hp

/-- **... code as it is**: the same under the two decidable hypotheses on the input, `noSubpageEscape` (no
    `ordered_subpage` entry leaves its directory; not needed once `get_page_tree` tests containment) and
    `noEscape` (no page-level `copy_subdir` item leaves the output directory; not needed with the guard of
    `PagetreePage.writeout`). -/
theorem confined_from_input_partial (c : Cfg) (s : Site) (pin : Option PageIn) (hl : LinksOk c.links) (hs : SiteOk s)
    (ht : ∀ p, pin = some p → TreesOk p)
    (hv : c.repaired = true ∨ noEscape (withPages c.subGuard (outDir c) s pin) = true)
    (hg : c.subGuard = true ∨ ∀ p, pin = some p → noSubpageEscape p = true) :
    ∀ p ∈ runIn c s pin, Allowed (outDir c) (graphDir c) p := by
  intro p hp
  refine runW_allowed _ c _ hl (siteOk_withPages _ _ s pin hs (fun q hq => ⟨?_, ht q hq⟩)) hv p hp
  rcases hg with h | h
  · exact Or.inl h
  · exact Or.inr (h q hq)

/-- ... at every crash point / under every sequence of caught failures, -/
theorem crash_closed_from_input (c : Cfg) (s : Site) (pin : Option PageIn) (hl : LinksOk c.links) (hs : SiteOk s)
    (ht : ∀ p, pin = some p → TreesOk p)
    (hv : c.repaired = true ∨ noEscape (withPages c.subGuard (outDir c) s pin) = true)
    (hg : c.subGuard = true ∨ ∀ p, pin = some p → noSubpageEscape p = true)
    (l : List Prim) (h : l.Sublist (runIn c s pin)) : ∀ p ∈ l, Allowed (outDir c) (graphDir c) p :=
  fun p hp => confined_from_input_partial c s pin hl hs ht hv hg p (h.subset hp)

/-- **The order of the attempts is immaterial.** The check compares the attempts of a real run with the
    model's up to the order of attempts in different sub-trees (a write-out whose independent statements
    were re-ordered performs a permutation of the model's run). Confinement does not depend on the
    order: a list made of attempts of the model's run - in any order, any part of it, with
    repetitions - is confined. -/
theorem any_order_closed_from_input (c : Cfg) (s : Site) (pin : Option PageIn) (hl : LinksOk c.links) (hs : SiteOk s)
    (ht : ∀ p, pin = some p → TreesOk p)
    (hv : c.repaired = true ∨ noEscape (withPages c.subGuard (outDir c) s pin) = true)
    (hg : c.subGuard = true ∨ ∀ p, pin = some p → noSubpageEscape p = true)
    (l : List Prim) (h : ∀ p ∈ l, p ∈ runIn c s pin) : ∀ p ∈ l, Allowed (outDir c) (graphDir c) p :=
  fun p hp => confined_from_input_partial c s pin hl hs ht hv hg p (h p hp)

/-- ... in particular a permutation of the run that is aborted at the n-th attempt, all n. -/
theorem reordered_prefix_closed_from_input (c : Cfg) (s : Site) (pin : Option PageIn) (hl : LinksOk c.links)
    (hs : SiteOk s) (ht : ∀ p, pin = some p → TreesOk p)
    (hv : c.repaired = true ∨ noEscape (withPages c.subGuard (outDir c) s pin) = true)
    (hg : c.subGuard = true ∨ ∀ p, pin = some p → noSubpageEscape p = true)
    (l : List Prim) (h : l.Perm (runIn c s pin)) (n : Nat) :
    ∀ p ∈ l.take n, Allowed (outDir c) (graphDir c) p :=
  any_order_closed_from_input c s pin hl hs ht hv hg _ (fun _ hp => h.subset (List.mem_of_mem_take hp))

/-- **Witness of the defect "an `ordered_subpage` entry leaves the page directory".** Project in `/w/p`,
    `page_dir: pages`, `output_dir: out/doc`; `pages/index.md` lists `sub/../../../elsewhere` and
    `/w/elsewhere/index.md` exists. The code as it is gives that page the location `../../elsewhere` and
    writes `/w/p/out/elsewhere/index.html`, outside `/w/p/out/doc`; with the containment test in
    `get_page_tree` the entry is skipped and every attempt lies below the output directory. -/
theorem ordered_subpage_escape_witness :
    let w : Seg := chars! "w"
    let pp : Seg := chars! "p"
    let pages : Seg := chars! "pages"
    let els : Seg := chars! "elsewhere"
    let pin : PageIn :=
      { pageDir := [w, pp, pages]
        nodes := [([w], .dir [chars! "elsewhere", chars! "p"]), ([w, pp], .dir [chars! "pages"]),
                  ([w, pp, pages], .dir [chars! "index.md", chars! "sub"]),
                  ([w, pp, pages, chars! "index.md"], .file (some { ordered := [chars! "sub/../../../elsewhere"] })),
                  ([w, pp, pages, chars! "sub"], .dir []),
                  ([w, els], .dir [chars! "index.md"]),
                  ([w, els, chars! "index.md"], .file (some {}))] }
    let c : Cfg := { dir := [w, pp], out := chars! "out/doc" }
    noSubpageEscape pin = false ∧
    (pageTree false pin).map (·.loc) = [[], [dotdot, dotdot, els]] ∧
    (∃ p ∈ runIn c {} (some pin), p = ⟨.wr, [w, pp, chars! "out", els, chars! "index.html"]⟩ ∧
        ¬ Allowed (outDir c) (graphDir c) p) ∧
    (pageTree true pin).map (·.loc) = [[]] ∧
    (runIn { c with subGuard := true } {} (some pin)).all (fun p => (outDir c).isPrefixOf p.path) = true := by
  intro w pp pages els pin c
  refine ⟨by decide, by decide, ⟨_, by decide, rfl, ?_⟩, by decide, by decide⟩
  rintro (h | ⟨gd, hg, _⟩ | ⟨hk, _⟩)
  · exact absurd h (by decide)
  · simp [graphDir, c] at hg
  · cases hk

/-- **Nothing that was left in the old output directory survives the clean-up.** For every table of
    symbolic links lying in the old output directory - at any depth, under any name (also the names
    the run is about to create: `page`, `media`, `css`, `index.html` ...), pointing to files or
    directories anywhere on disk - none is still there when the run starts to write, provided every
    removal succeeds. Rests on the generated constant `wipeWholeTree` (the clean-up of
    `Documentation.writeout` is `shutil.rmtree(out_dir)` on the output directory itself, which unlinks
    links without following them): emptying the directory entry by entry instead breaks this proof. -/
theorem wipe_leaves_no_link (c : Cfg) (hin : ∀ l ∈ c.old, outDir c <+: l.loc) (hk : ∀ l ∈ c.old, l.kept = false) :
    survivors c = [] := by
  have hw : Generated.C19.wipeWholeTree = true := by decide
  unfold survivors
  rw [hw]
  exact survivorsW_whole c hin hk

/-- ... hence the place where the OS performs each attempt is the place its path names: the physical
    run equals the lexical one (the assumption under which `norm` models the OS's resolution). -/
theorem physical_eq_lexical (c : Cfg) (s : Site) (hin : ∀ l ∈ c.old, outDir c <+: l.loc)
    (hk : ∀ l ∈ c.old, l.kept = false) : runPhys c s = run c s := by
  have hw : Generated.C19.wipeWholeTree = true := by decide
  have hany : c.old.any (fun l => (outDir c).isPrefixOf l.loc && l.kept) = false := by
    rw [List.any_eq_false]
    intro l hl
    simp [hk l hl]
  unfold runPhys runPhysW run
  rw [hw]
  split
  · rename_i h; rw [h]
  · rename_i w r h
    rw [h, hany, survivorsW_whole c hin hk, map_physical_nil]
    simp

/-- **Confinement of the physical run.** With any symbolic links whatsoever left in the old output
    directory, every attempt of the run - resolved through whatever links are still there - targets
    the output directory or the graph directory. Excluded, as explicit hypotheses: a link whose
    removal fails while the run goes on regardless (`kept`; finding C19-wipe-failure-ignored, witness
    below - not excluded once a failing `mkdir` of the output directory ends the run, generated constant
    `wipeFailureFatal`), and links lying in a graph directory outside the output directory, which is
    never cleaned (`hin`; finding C19-graphdir-stale-link, witness below). -/
theorem confined_physical_partial (c : Cfg) (s : Site) (hl : LinksOk c.links) (hs : SiteOk s)
    (hv : c.repaired = true ∨ noEscape s = true) (hin : ∀ l ∈ c.old, outDir c <+: l.loc)
    (hk : Generated.C19.wipeFailureFatal = true ∨ ∀ l ∈ c.old, l.kept = false) :
    ∀ p ∈ runPhys c s, Allowed (outDir c) (graphDir c) p := by
  have hw : Generated.C19.wipeWholeTree = true := by decide
  have hall := runW_allowed Generated.C19.graphSkipsLinks c s hl hs hv
  intro p hp
  unfold runPhys runPhysW at hp
  rw [hw] at hp
  split at hp
  · cases hp
  · rename_i w r h
    rw [h] at hall
    split at hp
    · apply hall p
      rcases List.mem_cons.1 hp with rfl | hp
      · simp
      · exact List.mem_cons_of_mem _ (List.mem_of_mem_take hp)
    · rename_i hc
      have hk' : ∀ l ∈ c.old, l.kept = false := by
        rcases hk with hf | hk
        · intro l hl'
          rw [hf] at hc
          simp only [Bool.true_and, Bool.not_eq_true, List.any_eq_false, Bool.and_eq_true, not_and] at hc
          have := hc l hl' (List.isPrefixOf_iff_prefix.2 (hin l hl'))
          simpa using this
        · exact hk
      rw [survivorsW_whole c hin hk', map_physical_nil] at hp
      exact hall p hp

/-- ... and physically, through whatever symbolic links were left in the old output directory. -/
theorem confined_physical_from_input (c : Cfg) (s : Site) (pin : Option PageIn) (hl : LinksOk c.links) (hs : SiteOk s)
    (ht : ∀ p, pin = some p → TreesOk p)
    (hv : c.repaired = true ∨ noEscape (withPages c.subGuard (outDir c) s pin) = true)
    (hg : c.subGuard = true ∨ ∀ p, pin = some p → noSubpageEscape p = true)
    (hin : ∀ l ∈ c.old, outDir c <+: l.loc)
    (hk : Generated.C19.wipeFailureFatal = true ∨ ∀ l ∈ c.old, l.kept = false) :
    ∀ p ∈ runPhysIn c s pin, Allowed (outDir c) (graphDir c) p := by
  refine confined_physical_partial c _ hl (siteOk_withPages _ _ s pin hs (fun q hq => ⟨?_, ht q hq⟩)) hv hin hk
  rcases hg with h | h
  · exact Or.inl h
  · exact Or.inr (h q hq)

/-- **Why the old output must be removed as a whole.** Project in `/p`, `output_dir: doc`, one static
    page; the old `doc/` holds `page -> /v` (a directory elsewhere), `index.html -> /v/f` and, inside a
    real sub-directory, `lists/l -> /v`. Emptying `doc/` entry by entry (`is_dir()` follows the link,
    `rmtree` refuses to remove one) leaves `page`, and the page is then written to `/v/index.html`;
    the other two links are removed either way. After `rmtree(doc)` every attempt lands below `/p/doc`. -/
theorem entrywise_wipe_escape_witness :
    let c : Cfg := { dir := ["p".toList], out := "doc".toList, outKind := 2,
                     old := [⟨["p".toList, "doc".toList, "page".toList], ["v".toList], true, false⟩,
                             ⟨["p".toList, "doc".toList, "index.html".toList], ["v".toList, "f".toList], false, false⟩,
                             ⟨["p".toList, "doc".toList, "lists".toList, "l".toList], ["v".toList], true, false⟩] }
    let s : Site := { pages := [{ loc := [], stem := "index".toList, files := [], copies := [] }] }
    (survivorsW false c).map (·.loc) = [["p".toList, "doc".toList, "page".toList]] ∧
    ⟨.wr, ["v".toList, "index.html".toList]⟩ ∈ runPhysW false false false c s ∧
    survivorsW true c = [] ∧
    (runPhysW true false false c s).all (fun p => (outDir c).isPrefixOf p.path) = true := by
  decide

/-- **Witness of the defect "a failed clean-up is ignored".** Same project; the removal of
    `doc/page -> /v` fails (`kept`). `rmtree(..., ignore_errors=True)` swallows that, the failing
    `mkdir` of the still existing `doc/` is only reported, and the page is written to `/v/index.html`.
    If the failing `mkdir` ends the run (`fatal`), nothing is attempted outside `/p/doc`. -/
theorem failed_wipe_escape_witness :
    let c : Cfg := { dir := ["p".toList], out := "doc".toList, outKind := 2,
                     old := [⟨["p".toList, "doc".toList, "page".toList], ["v".toList], true, true⟩] }
    let s : Site := { pages := [{ loc := [], stem := "index".toList, files := [], copies := [] }] }
    ⟨.wr, ["v".toList, "index.html".toList]⟩ ∈ runPhysW true false false c s ∧
    (runPhysW true true false c s).all (fun p => (outDir c).isPrefixOf p.path) = true := by
  decide

/-- **Witness of the defect "a link left in the graph directory is written through".** `graph_dir: g`
    (outside `doc/`, never cleaned) holds `n.svg -> /v/f`; saving the graph `n` lets graphviz write
    `/v/f`. If `_create_image_file` skips graphs whose files are symbolic links (`skipLinks`), every
    attempt lands below `/p/doc` or `/p/g`. -/
theorem graphdir_stale_link_witness :
    let c : Cfg := { dir := ["p".toList], out := "doc".toList, gdir := some "g".toList, graph := true,
                     old := [⟨["p".toList, "g".toList, "n.svg".toList], ["v".toList, "f".toList], false, false⟩] }
    let s : Site := { graphs := ["n".toList] }
    ⟨.wr, ["v".toList, "f".toList]⟩ ∈ runPhysW true false false c s ∧
    (runPhysW true false true c s).all (fun p => (outDir c).isPrefixOf p.path ||
      ["p".toList, "g".toList].isPrefixOf p.path) = true := by
  decide

/-- **Crash points / injected faults.** Whatever subsequence of the attempts is
    actually executed - a run aborted at any operation, or continuing after a
    caught failure - it is confined. -/
theorem crash_closed (c : Cfg) (s : Site) (hl : LinksOk c.links) (hs : SiteOk s)
    (hv : c.repaired = true ∨ noEscape s = true) (l : List Prim) (h : l.Sublist (run c s)) :
    ∀ p ∈ l, Allowed (outDir c) (graphDir c) p := by
  intro p hp
  exact runW_allowed _ c s hl hs hv p (h.subset hp)

/-- ... in particular every prefix of the run (abort at the n-th operation, all n). -/
theorem prefix_closed (c : Cfg) (s : Site) (hl : LinksOk c.links) (hs : SiteOk s)
    (hv : c.repaired = true ∨ noEscape s = true) (n : Nat) :
    ∀ p ∈ (run c s).take n, Allowed (outDir c) (graphDir c) p :=
  crash_closed c s hl hs hv _ (List.take_sublist n _)

/-- **Refusal.** `parse_arguments` refuses exactly when the output directory is a
    source directory or an ancestor of one (after normalisation: through `..`,
    symbolic links, any of several source directories) ... -/
theorem refusal_iff (c : Cfg) : refuses c = true ↔ ∃ d ∈ srcDirsN c, outDir c <+: d :=
  refuses_iff c

/-- ... and the refusal precedes the first file-system operation: such a run does nothing. -/
theorem refusal_no_ops (c : Cfg) (s : Site) (h : ∃ d ∈ srcDirsN c, outDir c <+: d) : run c s = [] := by
  simp [run, runW, (refuses_iff c).2 h]

/-- **Inputs are read-only.** A path `q` that is not inside the output directory
    nor inside the graph directory (a source file, the project file, the page or
    media directory, anything else on disk): no attempt of the run targets `q` or an
    ancestor of `q`, except `mkdir` (which cannot alter what exists). -/
theorem inputs_read_only (c : Cfg) (s : Site) (hl : LinksOk c.links) (hs : SiteOk s)
    (hv : c.repaired = true ∨ noEscape s = true) (q : Path)
    (hq : ¬ outDir c <+: q) (hg : ∀ g, graphDir c = some g → ¬ g <+: q) :
    ∀ p ∈ run c s, p.path <+: q → p.kind = .mk := by
  intro p hp hpq
  rcases crash_closed c s hl hs hv _ (List.Sublist.refl _) p hp with h | ⟨g, hgd, h⟩ | ⟨hk, _⟩
  · exact absurd (h.trans hpq) hq
  · exact absurd (h.trans hpq) (hg g hgd)
  · exact hk

/-- **Source directories survive.** If the run does anything at all, then no source
    directory, and nothing above one, is removed, overwritten or renamed - unless the
    user put the graph directory there. -/
theorem sources_untouched (c : Cfg) (s : Site) (hl : LinksOk c.links) (hs : SiteOk s)
    (hv : c.repaired = true ∨ noEscape s = true) (d : Path) (hd : d ∈ srcDirsN c)
    (hg : ∀ g, graphDir c = some g → ¬ g <+: d) :
    ∀ p ∈ run c s, p.path <+: d → p.kind = .mk := by
  intro p hp
  have hne : ¬ outDir c <+: d := by
    intro h
    rw [refusal_no_ops c s ⟨d, hd, h⟩] at hp
    cases hp
  exact inputs_read_only c s hl hs hv d hne hg p hp

/-- non-vacuity: a listing with a link to a directory outside and a dangling link is coherent -/
example : treeWf ⟨[(0, ['a']), (1, ['d']), (0, ['d', '/', 'x']), (2, ['d']), (3, ['g'])], [['a'], ['d'], ['d', '/', 'x']],
    [(['d'], [['v'], ['i']]), (['g'], [['v'], ['g']])]⟩ = true := by decide

/-- non-vacuity: the shipped example `copy_subdir: ../images` is not in the defect class,
    a deeper climb is -/
example : copyEscapes { loc := [], stem := "index".toList, copies := [], files := [] }
    { item := "../images".toList, tree := none } = false := by decide
example : copyEscapes { loc := ["sub".toList], stem := "index".toList, copies := [], files := [] }
    { item := "../../../victim".toList, tree := none } = true := by decide
example : copyEscapes { loc := [], stem := "index".toList, copies := [], files := [] }
    { item := "/abs/img".toList, tree := none } = true := by decide

/-! ## Round 6 - directory names are arbitrary strings: the pattern test of the source search and the refusal -/

section Names
open Ford.FsGlob

/-- **`fnmatch` on a pattern without `*`, `?`, `[` is string equality** - for every name and every
    such pattern, of any length (the base case of everything below: only these three characters
    are given a meaning). -/
theorem fnmatch_plain_iff_eq (s p : Str) (hp : plain p = true) : fnmatch s p = true ↔ s = p :=
  fnmatch_plain_iff s p hp

/-- **Clause "output directory excluded from source discovery", the test itself.** For a directory
    whose path contains no pattern character, `fnmatch(str(src), f"{dir}/*")` holds exactly for the
    strings that begin with `<dir>/` - any depth below it (`*` crosses `/`), not the directory's
    look-alike siblings (`<dir>s/...`), not the directory itself. -/
theorem exclude_plain_iff_prefix (d f : Str) (hd : plain d = true) :
    excludedBy d f = true ↔ (d ++ ['/']) <+: f :=
  excludedBy_plain_iff d f hd

/-- **... the source search, code as it is (partial).** Whatever the user's `exclude_dir` entries
    and whatever files were found: a file whose path begins with `<output_dir>/` is not among the
    files `find_all_files` keeps - under the decidable hypothesis that the output directory's
    path contains none of `*`, `?`, `[` (`plain`).  Holds for both variants of the code
    (`Generated.C19.excludeOutputByPath`). -/
theorem output_excluded_partial (ue : List Str) (out : Str) (files : List Str) (f : Str)
    (hp : plain out = true) (hf : (out ++ ['/']) <+: f) : f ∉ keepSourcesGen ue out files := by
  intro h
  have h1 := keepSources_sub _ ue out files f h
  have h2 := ((mem_dropExcluded _ _ _).1 h1).2 out (by simp)
  rw [(excludedBy_plain_iff out f hp).2 hf] at h2
  exact absurd h2 (by simp)

/-- **... and why the hypothesis is needed (finding C19-output-exclude-glob).** Output directory
    `/w [v2]/p/src/doc` below the source directory: the copy an earlier run left in
    `doc/src/old.f90` is kept as a source file by the pattern test (`[v2]` is read as "one of `v`,
    `2`"), a look-alike directory `/w 2/p/src/doc` that has nothing to do with the run is dropped
    instead; with the location test of the repair exactly the files below the output directory go. -/
theorem output_exclude_glob_witness :
    keepSources false [] "/w [v2]/p/src/doc".toList
        ["/w [v2]/p/src/a.f90".toList, "/w [v2]/p/src/doc/src/old.f90".toList]
      = ["/w [v2]/p/src/a.f90".toList, "/w [v2]/p/src/doc/src/old.f90".toList]
    ∧ excludedBy "/w [v2]/p/src/doc".toList "/w 2/p/src/doc/x.f90".toList = true
    ∧ keepSources true [] "/w [v2]/p/src/doc".toList
        ["/w [v2]/p/src/a.f90".toList, "/w [v2]/p/src/doc/src/old.f90".toList]
      = ["/w [v2]/p/src/a.f90".toList] := by
  decide

/-- **... repaired variant, every name.** With the location test (`output_dir in src.parents`) no
    kept file has the output directory among its ancestors - for every output path (any characters
    in any component), every list of user patterns, every file list; no hypothesis. -/
theorem output_excluded (ue : List Str) (out : Str) (files : List Str) (f : Str)
    (hf : belowStr out f = true) : f ∉ keepSources true ue out files := by
  intro h
  simp only [keepSources, if_true] at h
  have := (List.mem_filter.1 h).2
  simp [hf] at this

/-- ... and the location test drops nothing else: a file that no pattern matches and that is not
    below the output directory is kept (the repair cannot lose a source file). -/
theorem output_excluded_only (ue : List Str) (out : Str) (files : List Str) (f : Str)
    (hin : f ∈ files) (hu : ∀ d ∈ ue ++ [out], excludedBy d f = false) (hf : belowStr out f = false) :
    f ∈ keepSources true ue out files := by
  simp only [keepSources, if_true]
  exact List.mem_filter.2 ⟨(mem_dropExcluded _ _ _).2 ⟨hin, hu⟩, by simp [hf]⟩

/-- **Clause "for source directories FORD detects that case and refuses", every legal name.** On
    the path strings `normalise_paths` produces - components made of *any* characters, pattern
    characters, blanks, quotes included - the refusal holds iff the output directory is, component
    by component, a source directory or above one.  No hypothesis on the names. -/
theorem refusal_any_name (out : Str) (srcs : List Str) :
    refusesStr out srcs = true ↔ ∃ s ∈ srcs, norm (splitSlash out) <+: norm (splitSlash s) := by
  simp only [refusesStr, List.any_eq_true]
  constructor
  · rintro ⟨s, hs, h⟩
    exact ⟨s, hs, (self_or_parent_iff _ _).1 h⟩
  · rintro ⟨s, hs, h⟩
    exact ⟨s, hs, (self_or_parent_iff _ _).2 h⟩

/-- The same decision taken with the pattern test of the source search
    (`fnmatch(f"{src}/", f"{out}/*")`) agrees with the textual prefix **only** when the output
    path contains no pattern character ... -/
theorem refusal_glob_plain (out : Str) (srcs : List Str) (hp : plain out = true) :
    refusesGlob out srcs = true ↔ ∃ s ∈ srcs, (out ++ ['/']) <+: (s ++ ['/']) := by
  simp only [refusesGlob, List.any_eq_true]
  constructor
  · rintro ⟨s, hs, h⟩
    exact ⟨s, hs, (excludedBy_plain_iff out _ hp).1 h⟩
  · rintro ⟨s, hs, h⟩
    exact ⟨s, hs, (excludedBy_plain_iff out _ hp).2 h⟩

/-- ... and is wrong in both directions otherwise: `/w [v2]/api` with the sources in
    `/w [v2]/api/src` is **not** refused (the run would wipe its own sources), `/w/a*` is refused
    for the unrelated source directory `/w/abc/src`; the component-wise test decides both
    correctly. -/
theorem refusal_glob_unsound_witness :
    refusesGlob "/w [v2]/api".toList ["/w [v2]/api/src".toList] = false
    ∧ refusesStr "/w [v2]/api".toList ["/w [v2]/api/src".toList] = true
    ∧ refusesGlob "/w/a*".toList ["/w/abc/src".toList] = true
    ∧ refusesStr "/w/a*".toList ["/w/abc/src".toList] = false := by
  decide

/-- non-vacuity: the pattern language is really there (class, negated class, range, `?`, `*`
    across `/`, an unclosed `[` is literal, `]` first in a class is a member) -/
example : fnmatch "ab2/x".toList "a?[v2]*".toList = true
    ∧ fnmatch "a[".toList "a[".toList = true
    ∧ fnmatch "x]".toList "x[]]".toList = true
    ∧ fnmatch "xw".toList "x[!w]".toList = false
    ∧ fnmatch "[v2]".toList "[v2]".toList = false := by decide

/-- non-vacuity of `output_excluded_partial` / `exclude_plain_iff_prefix` -/
example : plain "/w/p/doc".toList = true
    ∧ keepSources false ["/w/p/src/old*".toList] "/w/p/doc".toList
        ["/w/p/doc/src/a.f90".toList, "/w/p/docs/b.f90".toList, "/w/p/src/older/c.f90".toList, "/w/p/src/d.f90".toList]
      = ["/w/p/docs/b.f90".toList, "/w/p/src/d.f90".toList] := by decide

end Names

end Ford.C19
