import FordModel.Fs
import FordModel.Lemmas.Fs
namespace Ford.C19
open Ford Ford.Fs

/-- **prefix lemma** -/
theorem norm_under (o : Path) (ho : Normal o) (x : List Seg) (hx : safe 0 x = true) :
    o <+: norm (o ++ x) := under_of_safe o ho x hx

end Ford.C19
