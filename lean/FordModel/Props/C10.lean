/-
  C10 — distinct entities never share a page, anchor or copied file.
  Property theorems only; the model is FordModel/Names.lean (+ the generated
  literals in FordModel/Generated/C10.lean), helper lemmas live in
  FordModel/Lemmas/Names*.lean.

  Vocabulary.  A request sequence `rs : List Req` is the sequence of calls
  `namelist.get_name(item)` of one FORD run, in any order and with any number of
  repetitions (`id` = identity of `item`, `dir = item.get_dir()`, `name =
  item.name`); `trace cfg v {} rs` pairs every call with the stem it returns.
  `cfg` carries the literals extracted from the working tree.  `Legal cfg opNames n`
  (decidable) describes the names a Fortran project can produce: any name free of
  replaced symbols and of the suffix separator (identifiers in any letter case,
  `operator(.x.)`, the empty name of unnamed units, file names - also with blanks),
  one of the names listed in `opNames`, or an `operator`/`assignment` generic spec of
  `opCores` written with any number of blanks between its tokens (`spellOp`; FORD keeps
  the spelling of `interface operator ( + )` verbatim).
-/
import FordModel.NamesCfg
import FordModel.Lemmas.Names
import FordModel.Lemmas.NamesLegal
import FordModel.Lemmas.NamesIdent
import FordModel.Lemmas.SourceOf
namespace Ford.C10
open Ford Ford.Names Ford.Generated.C10 Ford.SourceOf

/-- The finitely many facts about the *generated* symbol table, separator and
    unnamed-stem literal that the unbounded theorems below rest on: the separator
    occurs neither in the unnamed stem nor in the image of any listed operator
    name, the symbol replacement is injective on the listed names, and none of
    them is mapped to the unnamed stem; blanks and parentheses are not replaced, the
    separator is none of them, and keyword and operator token of every generic spec stay
    recognisable and distinct after the replacement (so that `operator (+)` and
    `operator(+)`, which FORD keeps as two names, also keep two stems).  Editing the
    dict literal, `"~"` or `"__unnamed__"` in `get_name` changes this obligation. -/
theorem table_ok : TableOK cfg opNames :=
  ⟨by decide, by decide, by decide, by decide, by decide, by decide, by decide, by decide, by decide,
   by decide, by decide⟩

/-- Clause "names that differ only in letter case / operator interfaces": on legal
    names the stem before numbering (`lower` + symbol replacement + `__unnamed__`)
    identifies the name up to letter case - two legal names with the same base are
    the same name in Fortran's eyes. -/
theorem base_injective_on_legal_names (a b : Str)
    (ha : Legal cfg opNames a) (hb : Legal cfg opNames b)
    (h : baseOf cfg a = baseOf cfg b) : lower a = lower b :=
  legal_base_inj cfg opNames table_ok a b ha hb h

/-- Clause "equal names in different modules, files or directories": a numbered
    stem `base~k` (k ≥ 2) is never the un-numbered stem of any legal name, and never
    another entity's numbered stem unless base and number agree. -/
theorem suffix_fresh (a b : Str) (k j : Nat) (hk : 1 ≤ k) (hj : 1 ≤ j)
    (ha : Legal cfg opNames a) (hb : Legal cfg opNames b)
    (h : stemOf cfg a k = stemOf cfg b j) : baseOf cfg a = baseOf cfg b ∧ k = j :=
  stemOf_inj cfg a b k j (legal_sep cfg opNames table_ok a ha) (legal_sep cfg opNames table_ok b hb) hk hj h

/-- The page found at an entity's URL is that entity's: however often and in
    whatever order `ident` is requested, one entity always receives the same stem
    (both variants, all names). -/
theorem ident_stable (v : Variant) (rs : List Req) :
    ∀ p ∈ trace cfg v {} rs, ∀ q ∈ trace cfg v {} rs, p.1.id = q.1.id → p.2 = q.2 :=
  trace_stable cfg v rs

/-- MAIN (full strength, `repaired` = uses counted under the lower-cased name):
    for every number of entities, every order and repetition of requests, any mix
    of directories, names equal up to case, equal names, unnamed units and
    operator interfaces - two different entities of the same output directory never
    receive the same stem, hence never the same page `dir/stem.html`. -/
theorem stems_injective (rs : List Req) (hc : Consistent rs)
    (hl : ∀ r ∈ rs, Legal cfg opNames r.name) :
    ∀ p ∈ trace cfg .repaired {} rs, ∀ q ∈ trace cfg .repaired {} rs,
      p.1.id ≠ q.1.id → p.1.dir = q.1.dir → p.2 ≠ q.2 :=
  stems_distinct_core cfg .repaired rs hc
    (fun r hr => legal_sep cfg opNames table_ok _ (hl r hr))
    (fun a ha b hb h => legal_base_inj cfg opNames table_ok _ _ (hl a ha) (hl b hb) h)

/-- What the unchanged code (`asIs`: uses counted under the *raw* name) still
    guarantees: the same conclusion for every project in which no two entities have
    names that differ only in letter case (`lower a = lower b → a = b`). -/
theorem stems_injective_partial (rs : List Req) (hc : Consistent rs)
    (hl : ∀ r ∈ rs, Legal cfg opNames r.name)
    (hcase : ∀ a ∈ rs, ∀ b ∈ rs, lower a.name = lower b.name → a.name = b.name) :
    ∀ p ∈ trace cfg .asIs {} rs, ∀ q ∈ trace cfg .asIs {} rs,
      p.1.id ≠ q.1.id → p.1.dir = q.1.dir → p.2 ≠ q.2 :=
  stems_distinct_core cfg .asIs rs hc
    (fun r hr => legal_sep cfg opNames table_ok _ (hl r hr))
    (fun a ha b hb h => hcase a ha b hb (legal_base_inj cfg opNames table_ok _ _ (hl a ha) (hl b hb) h))

/-- The candidate repair is conservative: on every request sequence in which no two
    names differ only in letter case, counting under the lower-cased name returns
    exactly the stems the unchanged code returns - the fix renames a page only in
    projects that hit the defect. -/
theorem fix_conservative (rs : List Req)
    (hcase : ∀ a ∈ rs, ∀ b ∈ rs, lower a.name = lower b.name → a.name = b.name) :
    trace cfg .asIs {} rs = trace cfg .repaired {} rs := by
  apply sim_trace cfg (rs.map (·.name)) ?_ rs {} {} ⟨rfl, fun _ _ _ => rfl⟩
  · intro r hr; exact List.mem_map.2 ⟨r, hr, rfl⟩
  · intro a ha b hb h
    obtain ⟨ra, hra, rfl⟩ := List.mem_map.1 ha
    obtain ⟨rb, hrb, rfl⟩ := List.mem_map.1 hb
    exact hcase ra hra rb hrb h

/-- The excluded class is a genuine violation of the unchanged code: module
    procedures `Foo` and `foo` of two modules (both in `proc/`) get the stem `foo`,
    i.e. one file `proc/foo.html`; counting under the lower-cased name separates
    them.  Replay input of finding C10-case-only-names. -/
theorem stems_case_witness :
    (trace cfg .asIs {} [⟨1, some "proc".toList, "Foo".toList⟩, ⟨2, some "proc".toList, "foo".toList⟩]).map (·.2)
      = ["foo".toList, "foo".toList]
    ∧ (trace cfg .repaired {} [⟨1, some "proc".toList, "Foo".toList⟩, ⟨2, some "proc".toList, "foo".toList⟩]).map (·.2)
      = ["foo".toList, "foo~2".toList] := by decide

/-- The hypothesis `Legal` is not a hidden restriction: *every* Fortran identifier
    (a letter followed by letters, digits, underscores; ASCII), in any letter case,
    satisfies it for the literals of the working tree - no identifier contains a
    replaced symbol or the suffix separator, starts like the unnamed stem, or equals
    the image of an operator name.  (A separator `_`, or a replacement to lower-case
    text only, would break this obligation.) -/
theorem identifiers_legal (n : Str) (ha : Ascii n) (hi : isIdent n = true) : Legal cfg opNames n :=
  ident_legal opNames cfg (by decide) (by decide) (by decide) (by decide) n ha hi

/-- Clause "operator/assignment interfaces", any spacing: FORD keeps the generic spec of
    `interface operator ( + )` verbatim, so the same operator written with different
    blanks is a different name.  Every such spelling (any letter case, any number of
    blanks after the keyword and inside the parentheses, all 13 intrinsic generic
    specs) satisfies `Legal` - the theorems above therefore cover `operator (+)` next to
    `operator(+)`, `assignment ( = )`, `OPERATOR( < )` ... -/
theorem spellings_legal (n : Str) (p : Str × Str) (hp : p ∈ opCores) (a b c : Nat)
    (h : lower n = spellOp p a b c) : Legal cfg opNames n := by
  refine Or.inr (Or.inr ?_)
  rw [h]
  unfold OpSpelled
  rw [parseSp_spell p (table_ok.core_good p hp).1 a b c]
  exact ⟨hp, rfl⟩

/-- ... and two spellings of generic specs get the same stem-before-numbering only when
    they are the same operator in the same spacing: the symbol replacement (which runs
    *after* the uses of a name were counted) never merges two spellings that were counted
    as different names.  (An entry `" ": ""` in the dict would break exactly this.) -/
theorem spellings_distinct (p q : Str × Str) (hp : p ∈ opCores) (hq : q ∈ opCores) (a b c a' b' c' : Nat)
    (h : baseL cfg (spellOp p a b c) = baseL cfg (spellOp q a' b' c')) :
    p = q ∧ a = a' ∧ b = b' ∧ c = c' := by
  rw [baseL_spell cfg table_ok.keys_clear, baseL_spell cfg table_ok.keys_clear] at h
  obtain ⟨e, ea, eb, ec⟩ :=
    spellOp_inj _ _ (table_ok.core_good p hp).2 (table_ok.core_good q hq).2 _ _ _ _ _ _ h
  exact ⟨table_ok.core_inj p hp q hq e, ea, eb, ec⟩

/-- non-vacuity: the hypotheses of the theorems above admit the interesting names -/
example : Legal cfg opNames "Foo".toList ∧ Legal cfg opNames "FOO_bar2".toList ∧ Legal cfg opNames [] ∧
    Legal cfg opNames "OPERATOR(<=)".toList ∧ Legal cfg opNames "operator(.Add.)".toList ∧
    Legal cfg opNames "assignment(=)".toList ∧ Legal cfg opNames "Util.F90".toList ∧
    Legal cfg opNames "<em>unnamed</em>".toList := by decide
example : Legal cfg opNames "operator (+)".toList ∧ Legal cfg opNames "Operator( <  )".toList ∧
    Legal cfg opNames "assignment  ( = )".toList ∧ Legal cfg opNames "operator ( // )".toList ∧
    Legal cfg opNames "my mod.f90".toList ∧ Legal cfg opNames "operator ( .add. )".toList := by decide
/-- ... and exclude exactly the spellings that would collide -/
example : ¬ Legal cfg opNames "foo~2".toList ∧ ¬ Legal cfg opNames "__unnamed__".toList ∧
    ¬ Legal cfg opNames "operator(lt)".toList ∧ ¬ Legal cfg opNames "a<b".toList ∧
    ¬ Legal cfg opNames "operator ( lt )".toList ∧ ¬ Legal cfg opNames "operator (/ /)".toList := by decide

/-- No stem contains `/` (the table replaces it and no replacement, the separator,
    the unnamed stem or a digit brings one back): for *every* name and number, so
    `out/dir/(stem + ".html")` is a file directly inside `dir` - an interface called
    `operator(/)` cannot escape into a sub-directory or onto another page. -/
theorem stem_no_slash (name : Str) (k : Nat) : '/' ∉ stemOf cfg name k := by
  have hb : '/' ∉ baseOf cfg name := by
    unfold baseOf
    have h := replaceAll_removes '/' cfg.table (lower name) (by decide) (by decide)
    split
    · decide
    · rename_i c cs e; rw [← e]; exact h
  unfold stemOf
  split
  · simp only [List.mem_append, List.mem_cons, not_or]
    exact ⟨hb, by decide, decimal_keeps '/' (by decide) k⟩
  · exact hb

/-- Entity pages: the output file determines directory and stem (with
    `stem_no_slash` the path is exactly `[dir, stem.html]`), so two page objects
    share an output file only if they share (directory, stem). -/
theorem outfile_injective (d1 d2 n1 n2 : Str) (k1 k2 : Nat)
    (h : outfileOf d1 (stemOf cfg n1 k1) = outfileOf d2 (stemOf cfg n2 k2)) :
    d1 = d2 ∧ stemOf cfg n1 k1 = stemOf cfg n2 k2 := by
  rw [outfileOf_noslash _ _ (stem_no_slash n1 k1), outfileOf_noslash _ _ (stem_no_slash n2 k2)] at h
  simp at h
  exact ⟨h.1, h.2⟩

/-- URLs `dir/stem.html`: for directories without `/` (all of `get_dir`'s answers) the
    URL determines directory and stem, for arbitrary stems. -/
theorem url_injective (d1 d2 s1 s2 : Str) (h1 : '/' ∉ d1) (h2 : '/' ∉ d2)
    (h : urlOf d1 s1 = urlOf d2 s2) : d1 = d2 ∧ s1 = s2 := by
  obtain ⟨hd, hs⟩ := split_first_sep '/' d1 d2 _ _ h1 h2 h
  exact ⟨hd, List.append_cancel_right hs⟩

/-- HEADLINE (composition, `repaired`): in one run, two different entities that have
    pages never get the same output file - whatever their kinds, directories, names
    (legal), and the order of requests. -/
theorem pages_distinct (rs : List Req) (hc : Consistent rs)
    (hl : ∀ r ∈ rs, Legal cfg opNames r.name) :
    ∀ p ∈ trace cfg .repaired {} rs, ∀ q ∈ trace cfg .repaired {} rs, ∀ d1 d2 : Str,
      p.1.id ≠ q.1.id → p.1.dir = some d1 → q.1.dir = some d2 →
      outfileOf d1 p.2 ≠ outfileOf d2 q.2 := by
  intro p hp q hq d1 d2 hid hd1 hd2 heq
  obtain ⟨n1, k1, e1⟩ := trace_stem_form cfg .repaired rs p hp
  obtain ⟨n2, k2, e2⟩ := trace_stem_form cfg .repaired rs q hq
  rw [e1, e2] at heq
  obtain ⟨hd, hs⟩ := outfile_injective d1 d2 n1 n2 k1 k2 heq
  exact stems_injective rs hc hl p hp q hq hid (by rw [hd1, hd2, hd]) (by rw [e1, e2, hs])

/-- The same for the unchanged code, for projects without case-only name pairs. -/
theorem pages_distinct_partial (rs : List Req) (hc : Consistent rs)
    (hl : ∀ r ∈ rs, Legal cfg opNames r.name)
    (hcase : ∀ a ∈ rs, ∀ b ∈ rs, lower a.name = lower b.name → a.name = b.name) :
    ∀ p ∈ trace cfg .asIs {} rs, ∀ q ∈ trace cfg .asIs {} rs, ∀ d1 d2 : Str,
      p.1.id ≠ q.1.id → p.1.dir = some d1 → q.1.dir = some d2 →
      outfileOf d1 p.2 ≠ outfileOf d2 q.2 := by
  rw [fix_conservative rs hcase]
  exact pages_distinct rs hc hl

/-- Every directory `get_dir` can answer (all entity kinds, all parents, the three
    overrides) is created by `writeout` (generated list) and is none of the
    directories FORD uses for other things - so an entity page never lands on a
    list page, a copied source file, a static page or a top-level page. -/
theorem entity_dirs_disjoint (k : Kind) (parent : Option Kind) (g n : Bool) (d : Str)
    (h : dirOf k parent g n = some d) :
    d ∈ outDirs ∧ d ∉ ["lists", "src", "page", "search", "css", "js", "webfonts", "media"].map String.toList := by
  have hm : d ∈ entityDirs := dirOf_mem k parent g n d h
  have hall : ∀ x ∈ entityDirs, x ∈ outDirs ∧
      x ∉ ["lists", "src", "page", "search", "css", "js", "webfonts", "media"].map String.toList := by decide
  exact hall d hm

/-- Clause "the page found at an entity's URL documents that entity / distinct items on one
    page never share an anchor", for the one place where an entity does *not* use a stem of
    its own: a procedure for which `is_interface_procedure` (generated from the source)
    holds takes `ident` (hence anchor `proc-<ident>` and URL `interface/<ident>.html`) from
    its parent interface.  For every interface block - named or not, abstract or not, with
    any number of bodies - an interface entity whose children borrow its identifier has at
    most one child: the borrowed identifier is used by the wrapper and its single procedure
    only, never by two procedures. -/
theorem borrowers_alone (b : Block) (e : Bool × List Nat) (he : e ∈ ifaceEntities b)
    (k pk : Kind) (hpk : isInterfaceKind pk = true) (hb : identBorrows k (some pk) e.1 = true) :
    ∀ c1 ∈ e.2, ∀ c2 ∈ e.2, c1 = c2 := by
  unfold ifaceEntities at he
  by_cases h1 : (b.named && b.abstract) = true
  · rw [if_pos h1] at he; cases he
  · rw [if_neg h1] at he
    by_cases h2 : b.named = true
    · rw [if_pos h2] at he
      simp at he
      subst he
      simp [identBorrows, parentIsInterface, hpk, Ford.Generated.C10.isInterfaceProcedure] at hb
    · rw [if_neg h2] at he
      obtain ⟨p, _, rfl⟩ := List.mem_map.1 he
      intro c1 h1 c2 h2
      simp at h1 h2
      rw [h1, h2]

/-- ... and the bodies of a generic interface (all listed on the one page of the generic)
    keep identifiers of their own: they are numbered like every other entity
    (`stems_injective`, `anchors_distinct` apply to them). -/
theorem generic_children_own_ident (k : Kind) (parent : Option Kind) :
    identBorrows k parent true = false := by
  cases k <;> cases parent <;> simp [identBorrows, isProcKind, Ford.Generated.C10.isInterfaceProcedure]

/-- non-vacuity of `borrowers_alone`: a plain block with two bodies yields two wrappers whose
    child borrows; a generic block with two bodies yields one entity with two children -/
example : ifaceEntities ⟨false, false, [1, 2]⟩ = [(false, [1]), (false, [2])] ∧
    ifaceEntities ⟨true, false, [1, 2]⟩ = [(true, [1, 2])] ∧
    identBorrows .function (some .modprocinterface) false = true := by decide

/-- Anchors `obj-quote(stem)`: the anchor determines the object kind word and the
    stem (quoting is injective, no kind word contains `-`), so two items on one
    page share an `id` only if they share (kind word, stem). -/
theorem anchor_injective (k1 k2 : Kind) (s1 s2 : Str) (a1 : Ascii s1) (a2 : Ascii s2)
    (h : anchorOf (objOf k1) s1 = anchorOf (objOf k2) s2) : objOf k1 = objOf k2 ∧ s1 = s2 :=
  anchorOf_inj _ _ s1 s2 (by cases k1 <;> decide) (by cases k2 <;> decide) a1 a2 h

/-- Composition for anchors (`repaired`): two different entities of the same
    directory (in particular all entities without a page of their own - variables,
    bound procedures, internal procedures ... - which share the counter `None`) never
    get the same anchor `obj-quote(stem)`, whatever their kind words. -/
theorem anchors_distinct (rs : List Req) (hc : Consistent rs)
    (hl : ∀ r ∈ rs, Legal cfg opNames r.name) (k1 k2 : Kind) :
    ∀ p ∈ trace cfg .repaired {} rs, ∀ q ∈ trace cfg .repaired {} rs,
      p.1.id ≠ q.1.id → p.1.dir = q.1.dir → Ascii p.2 → Ascii q.2 →
      anchorOf (objOf k1) p.2 ≠ anchorOf (objOf k2) q.2 := by
  intro p hp q hq hid hdir a1 a2 heq
  exact stems_injective rs hc hl p hp q hq hid hdir (anchor_injective k1 k2 _ _ a1 a2 heq).2

/-- `urllib.parse.quote` is injective on ASCII strings (used for anchors and links). -/
theorem quote_injective (a b : Str) (ha : Ascii a) (hb : Ascii b) (h : quote a = quote b) : a = b :=
  quote_inj a b ha hb h

/-- The flat `src/` copy: when the base names of the source files are pairwise
    different, `src/<name>` serves, for every file, exactly that file's content -
    the "Source File" link of an entity serves the file that defines it. -/
theorem src_copy_partial (files : List (Str × Str))
    (hd : ∀ f ∈ files, ∀ g ∈ files, basename f.1 = basename g.1 → f = g) :
    ∀ f ∈ files, served files (srcLink f.1) = some f.2 := by
  intro f hf
  unfold served srcLink
  rw [copySrc_eq, List.append_nil]
  apply assoc_functional ((files.map srcEntry).reverse) (srcEntry f)
  · exact List.mem_reverse.2 (List.mem_map.2 ⟨f, hf, rfl⟩)
  · intro x hx y hy hxy
    obtain ⟨f1, hf1, rfl⟩ := List.mem_map.1 (List.mem_reverse.1 hx)
    obtain ⟨f2, hf2, rfl⟩ := List.mem_map.1 (List.mem_reverse.1 hy)
    rw [hd f1 hf1 f2 hf2 hxy]

/-- ... and the excluded class is a genuine violation: two files with the same base
    name in different source directories are copied onto each other, the link of the
    first one serves the second one's text.  Replay input of finding C10-src-basename. -/
theorem src_copy_witness :
    served [("a/util.f90".toList, "A".toList), ("b/util.f90".toList, "B".toList)] (srcLink "a/util.f90".toList)
      = some "B".toList := by decide

/-! ### which file the 'Source File' link of an entity names (round 6)

  `FortranBase._make_hierarchy` / `source_file` / `filename` (model: FordModel/SourceOf.lean).  The entity
  tree is any list of (child, parent) pairs, of any size and depth; `fuel` is any bound on the climb. -/

/-- Clause "the 'source file' link of an entity serves the file that defines it", first half: the
    object `source_file` answers (`hierarchy[0]`, or the entity itself when the hierarchy is empty) is
    the entity in which the `parent` chain of the entity ends - the `FortranSourceFile` whose text was
    being read when the entity was created - for every tree, every depth, every entity.  (Code that puts
    anything else in front of `hierarchy` - the ancestor module of a submodule, say - no longer
    corresponds to `hierarchy`/`sourceFile`.) -/
theorem source_file_is_defining_file (ps : Parents) (fuel e : Nat) :
    sourceFile ps fuel e = rootOf ps fuel e :=
  sourceFile_eq_root ps fuel e

/-- A source file (an entity without parent) is its own `source_file`, with an empty hierarchy. -/
theorem file_is_own_source (ps : Parents) (fuel f : Nat) (h : parentOf ps f = none) :
    hierarchy ps fuel f = [] ∧ sourceFile ps fuel f = f := by
  have hc : climb ps fuel f = [] := by
    cases fuel with
    | zero => rfl
    | succ n => unfold climb; rw [h]
  constructor
  · unfold hierarchy; rw [hc]; rfl
  · rw [sourceFile_eq_root, climb_nil_root ps fuel f hc]

/-- Everything inside an entity is linked to the file the entity itself is linked to: a child's
    `source_file` is its parent's (a procedure of a submodule that sits in a file of its own points to
    that file, not to the file of the ancestor module). -/
theorem children_share_source_file (ps : Parents) (fuel c p : Nat) (h : parentOf ps c = some p) :
    sourceFile ps (fuel + 1) c = sourceFile ps fuel p := by
  rw [sourceFile_eq_root, sourceFile_eq_root]
  show (match parentOf ps c with | none => c | some p => rootOf ps fuel p) = rootOf ps fuel p
  rw [h]

/-- `hierarchy` lists exactly the ancestors, outermost first, nearest last: the hierarchy of a child
    is the hierarchy of its parent followed by the parent. -/
theorem hierarchy_extends_parent (ps : Parents) (fuel c p : Nat) (h : parentOf ps c = some p) :
    hierarchy ps (fuel + 1) c = hierarchy ps fuel p ++ [p] := by
  unfold hierarchy
  show (match parentOf ps c with | none => [] | some p => p :: climb ps fuel p).reverse = _
  rw [h]
  simp

/-- Clause "the 'source file' link of an entity serves the file that defines it", composed with the
    flat `src/` copy: when the base names of the source files are pairwise different, the file served
    under `src/{{ entity.filename }}` has the content of the file in which the entity's parent chain
    ends - for every entity of every tree. -/
theorem source_link_serves_definer_partial (ps : Parents) (fuel e : Nat) (paths : List (Nat × Str))
    (files : List (Str × Str))
    (hd : ∀ f ∈ files, ∀ g ∈ files, basename f.1 = basename g.1 → f = g)
    (f : Str × Str) (hf : f ∈ files) (hp : assoc (rootOf ps fuel e) paths = some f.1) :
    (filenameOf paths ps fuel e).bind (served files) = some f.2 := by
  unfold filenameOf
  rw [sourceFile_eq_root, hp]
  exact src_copy_partial files hd f hf

/-- ... and the excluded class (finding C10-src-basename) seen from an entity: a procedure (3) of a
    module (2) of `a/util.f90` (1) is linked to `src/util.f90`, which holds the text of `b/util.f90`. -/
theorem source_link_witness :
    (filenameOf [(1, "a/util.f90".toList), (4, "b/util.f90".toList)] [(2, 1), (3, 2), (5, 4)] 9 3).bind
      (served [("a/util.f90".toList, "A".toList), ("b/util.f90".toList, "B".toList)]) = some "B".toList := by
  decide

/-- non-vacuity: module 10 in file 1; submodule 20 of it in a file of its own (2) with procedure 21:
    the hierarchy of 21 is [file 2, submodule 20] - the ancestor module is *not* in the parent chain -
    and its link names `sub.f90` -/
example : hierarchy [(10, 1), (20, 2), (21, 20)] 7 21 = [2, 20] ∧ sourceFile [(10, 1), (20, 2), (21, 20)] 7 21 = 2 ∧
    filenameOf [(1, "src/geo.f90".toList), (2, "src/x/sub.f90".toList)] [(10, 1), (20, 2), (21, 20)] 7 21
      = some "sub.f90".toList ∧ sourceFile [(10, 1), (20, 2), (21, 20)] 7 2 = 2 := by decide

end Ford.C10
