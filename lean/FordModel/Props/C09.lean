/-
  C09 — every internal link resolves, and the output is relocatable.
  Property theorems only; helper lemmas live in FordModel/Lemmas.
-/
import FordModel.Path
import FordModel.Nav
import FordModel.Url
import FordModel.StrLink
import FordModel.Lemmas.Path
import FordModel.Lemmas.Nav
import FordModel.Lemmas.Url
import FordModel.Lemmas.StrLink
import FordModel.Lemmas.ReadMore
import FordModel.Lemmas.Relurl
import FordModel.Lemmas.Assets
import FordModel.Lemmas.Footnotes
import FordModel.Lemmas.Memo
import FordModel.Lemmas.PageName
import FordModel.Lemmas.GraphUrl
import FordModel.Generated.C09
namespace Ford.C09
open Ford Ford.Path Ford.Nav Ford.Url Ford.StrLink Ford.ReadMore Ford.Relurl Ford.Assets Ford.Generated.C09

/-! ## relative URLs: `os.path.relpath` and its resolution -/

/-- Clause "is relative and resolves": for all normal absolute paths, resolving
    `relpath(target, start)` against `start` gives `target` back.  This is what
    `relative_url` (`relpath(link, page.parent)`), `BasePage.project_url`
    (`relpath(project_url, outfile.parent)`) and the `[[..]]` processor rely on,
    for every depth of `start` and `target`. -/
theorem relpath_roundtrip (t s : List Seg) (ht : Normal t) (hs : Normal s) :
    resolve s (relpath t s) = t := by
  simp [resolve, norm, foldl_relpath t s ht hs []]

/-- ... and with Python's conventions (arguments normalised first, `.` for the
    empty result). -/
theorem relpathPy_roundtrip (t s : List Seg) (ht : Normal t) (hs : Normal s) :
    resolve s (relpathPy t s) = t :=
  resolve_relpathPy t s ht hs

/-- Clause "is relative": the reference consists of `..` steps, or `.`, followed
    by segments of the target only — no root, no scheme, nothing of the location
    of the output directory that is not also part of the target's own path. -/
theorem relpath_relative (t s : List Seg) :
    ∀ x ∈ relpath t s, x = up ∨ x ∈ t :=
  relpath_mem t s

/-- Clause "the output can be moved or published unchanged": the reference FORD
    computes between two files of the output tree does not depend on where the
    tree lives (`base`), hence the same bytes resolve correctly under any other
    root `base'`. -/
theorem relpath_relocatable (base base' t s : List Seg)
    (hb' : Normal base') (ht : Normal t) (hs : Normal s) :
    relpath (base ++ t) (base ++ s) = relpath t s ∧
      resolve (base' ++ s) (relpath (base ++ t) (base ++ s)) = base' ++ t := by
  refine ⟨relpath_prefix base t s, ?_⟩
  rw [relpath_prefix base t s, ← relpath_prefix base' t s]
  exact relpath_roundtrip _ _ (normal_append hb' ht) (normal_append hb' hs)

/-- Clause "from every page depth": `{{ project_url }}/<target>` written on any
    page (root, lists/, entity directories, static pages nested arbitrarily deep)
    resolves to `<output dir>/<target>`. -/
theorem navHref_resolves (base page target : List Seg)
    (hb : Normal base) (hp : Normal page) (ht : Normal target) :
    resolve (base ++ dirOf page) (navHref base page target) = base ++ target :=
  resolve_navHref base page target hb hp ht

/-! ## which pages exist versus which pages the navigation links to -/

/-- The decision procedure behind the next theorems is sound for **all** project
    shapes: a condition it accepts holds whatever the entity counts (0, 1, 2, 3, …
    of every kind) and whatever the option values. -/
theorem valid_all_shapes (c : Cond) (h : valid c = true) : ∀ sh : Shape, eval sh c = true :=
  valid_sound c h

/-- A list page is written exactly when its condition in `Documentation.__init__` holds. -/
theorem list_page_written_iff (T : Nav.Tables) (sh : Shape) (t : Target) :
    targetExists T sh t = true ↔ eval sh (targetCond T t) = true := by
  rw [targetExists_eq]

/-- Generic form of the navigation clause, for any extracted tables: if an entry
    passes the check, then for every project shape for which `main` gets as far as
    writing pages, whenever the template emits the link its target page is written. -/
theorem nav_entry_sound (T : Nav.Tables) (e : NavEntry) (h : entryOk T e = true) (sh : Shape)
    (hpre : eval sh T.mainPre = true) (hc : eval sh e.cond = true) :
    targetExists T sh e.target = true := by
  rw [targetExists_eq]
  have := valid_sound _ h sh
  rw [eval_imp] at this
  exact this (by simp [eval, hpre, hc])

/-- The one navigation link of the unrepaired templates whose condition does not
    imply the existence of its target (pre-finding 10). -/
def excluded (e : NavEntry) : Bool :=
  decide (e.tpl = ['i', 'n', 'd', 'e', 'x', '.', 'h', 't', 'm', 'l']) &&
    decide (e.target = .list ['f', 'i', 'l', 'e', 's', '.', 'h', 't', 'm', 'l'])

/-- Clause "resolves to a file that exists … for every project shape and option
    combination", navigation part, over the tables regenerated from
    `Documentation.__init__`, base.html and index.html: every link into `lists/`
    and every `project.X[0]` link of the navigation bar and of the front page —
    except the front page's "All source files" link — has its target page written,
    for all counts of files, modules, submodules, programs, block data,
    procedures, types, abstract interfaces, namelists and all option values. -/
theorem nav_targets_exist_partial (e : NavEntry) (he : e ∈ navTables.navConds) (hx : excluded e = false)
    (sh : Shape) (hpre : eval sh navTables.mainPre = true) (hc : eval sh e.cond = true) :
    targetExists navTables sh e.target = true := by
  have hall : (navTables.navConds.filter fun e => !excluded e).all (entryOk navTables) = true := by
    decide +kernel
  have : entryOk navTables e = true :=
    List.all_eq_true.1 hall e (List.mem_filter.2 ⟨he, by simp [hx]⟩)
  exact nav_entry_sound navTables e this sh hpre hc

/-- Full strength, for a tree in which the excluded entry passes the check too
    (the harness evaluates `entryOk` on the regenerated table at run time: it is
    `false` on the unrepaired index.html and `true` once the link is put under the
    condition of the list page). -/
theorem nav_targets_exist (hfix : navTables.navConds.all (entryOk navTables) = true)
    (e : NavEntry) (he : e ∈ navTables.navConds)
    (sh : Shape) (hpre : eval sh navTables.mainPre = true) (hc : eval sh e.cond = true) :
    targetExists navTables sh e.target = true :=
  nav_entry_sound navTables e (List.all_eq_true.1 hfix e he) sh hpre hc

/-- The condition index.html puts on "All source files…" in the unrepaired tree. -/
def asIsIndexFiles : NavEntry :=
  { tpl := ['i', 'n', 'd', 'e', 'x', '.', 'h', 't', 'm', 'l'], label := [],
    target := .list ['f', 'i', 'l', 'e', 's', '.', 'h', 't', 'm', 'l'],
    cond := .and (.and (.opt ['c', 'o', 'u', 'n', 't']) (.opt ['m', 'a', 'x', '_', 'l', 'e', 'n', 'g', 't', 'h']))
              (.opt ['i', 'n', 'c', 'l', '_', 's', 'r', 'c']) }

/-- A single-file project with `incl_src` on. -/
def singleFileShape : Shape :=
  { count := fun l => if l = ['f', 'i', 'l', 'e', 's'] then 1 else 0, opt := fun _ => true }

/-- Witness of pre-finding 10: for a single-file project with sources included the
    front page emits the link to lists/files.html, and that page is not written. -/
theorem nav_index_files_witness :
    eval singleFileShape navTables.mainPre = true ∧
      eval singleFileShape asIsIndexFiles.cond = true ∧
      targetExists navTables singleFileShape asIsIndexFiles.target = false := by
  decide +kernel

/-- Non-vacuity: the same shape does satisfy a non-excluded entry (the navigation
    bar's "Source File" link), whose target then exists by the theorem above. -/
example : ∃ e ∈ navTables.navConds, excluded e = false ∧ eval singleFileShape e.cond = true ∧
    targetExists navTables singleFileShape e.target = true := by
  decide +kernel

/-! ## links printed by `FortranBase.__str__` versus the pages that are written -/

/-- `pageWritten` is exactly the (disjunction of the) `entity_list_page_map` guards that
    cover the project list, e.g. `settings.incl_src` for the source files. -/
theorem entity_pages_written_iff (N : Nav.Tables) (sh : Shape) (l : Str) :
    pageWritten N sh l = true ↔ eval sh (pageCond N l) = true := by
  rw [pageWritten_eq]

/-- Generic form, for any extracted tables: if a project list passes the check, then
    for every project shape (all counts, all option values) for which `main` gets as
    far as writing pages, whenever `__str__` of a member prints the `<a href=…>` form
    (the entity has a URL and its `visible` flag is on) the member's page is made. -/
theorem str_link_entry_sound (N : Nav.Tables) (U : Url.Tables) (T : StrLink.Tables) (e : Str × Str)
    (h : listOk N T e = true) (sh : Shape) (hpre : eval sh N.mainPre = true)
    (n : Node) (hn : n.cls = e.2) (rest : List Node) (flag : Option Bool)
    (hs : strEmitsLink U T sh (n :: rest) flag = true) :
    pageWritten N sh e.1 = true :=
  listOk_sound N T e h sh hpre (hn ▸ (strEmitsLink_visCond U T sh n rest flag hs).2)

/-- Clause "resolves to a file that exists … for every … option combination (… sources
    hidden …)", for the links that the templates print through `FortranBase.__str__` for
    the *parent* of an entity (the "Location"/"Parent" cells of the list pages, the
    breadcrumbs, `{{ x.parent | relurl }}`): over the regenerated tables — `__str__`'s
    gate, the constructors' rule for `self.visible` with the keywords the project hands
    them, the member class of every project list, `entity_list_page_map` with its guards —
    for every project list whose members can be somebody's parent (`isinstance(self.parent,
    …)` tuple of `get_dir`: source files, modules, submodules, programs, block data) and
    every project shape: if `__str__` of a member prints a link, the page it points at is
    written.  (`_partial`: lists whose members are never a parent — the extra, non-Fortran
    files, which no template prints through `__str__` when sources are hidden — are
    outside; that is the explicit hypothesis `hp`.) -/
theorem parent_str_link_page_written_partial (l c : Str) (hl : (l, c) ∈ visTables.listClass)
    (hp : isParentClass urlTables c = true) (sh : Shape) (hpre : eval sh navTables.mainPre = true)
    (n : Node) (hn : n.cls = c) (rest : List Node) (flag : Option Bool)
    (hs : strEmitsLink urlTables visTables sh (n :: rest) flag = true) :
    pageWritten navTables sh l = true := by
  have hall : (parentLists urlTables visTables).all (listOk navTables visTables) = true := by
    decide +kernel
  exact str_link_entry_sound navTables urlTables visTables (l, c)
    (List.all_eq_true.1 hall (l, c) (List.mem_filter.2 ⟨hl, hp⟩)) sh hpre n hn rest flag hs

/-- The same, read the other way round (what "sources hidden" relies on): when the pages
    of such a list are not written, no member prints a link to its page. -/
theorem no_page_no_parent_str_link (l c : Str) (hl : (l, c) ∈ visTables.listClass)
    (hp : isParentClass urlTables c = true) (sh : Shape) (hpre : eval sh navTables.mainPre = true)
    (hw : pageWritten navTables sh l = false)
    (n : Node) (hn : n.cls = c) (rest : List Node) (flag : Option Bool) :
    strEmitsLink urlTables visTables sh (n :: rest) flag = false := by
  cases hs : strEmitsLink urlTables visTables sh (n :: rest) flag with
  | false => rfl
  | true =>
    have := parent_str_link_page_written_partial l c hl hp sh hpre n hn rest flag hs
    simp [hw] at this

/-- Non-vacuity: the source files are such a list, a source file of a project with
    sources included does print its link, and a project with sources hidden has no
    pages for them. -/
example :
    let file : Node := ⟨"FortranSourceFile".toList, "sourcefile".toList, "a.f90".toList, true, false⟩
    let on : Shape := { count := fun _ => 1, opt := fun _ => true }
    let off : Shape := { count := fun _ => 1, opt := fun _ => false }
    ("files".toList, "FortranSourceFile".toList) ∈ visTables.listClass ∧
      isParentClass urlTables "FortranSourceFile".toList = true ∧
      strEmitsLink urlTables visTables on [file] none = true ∧
      eval off navTables.mainPre = true ∧ pageWritten navTables off "files".toList = false := by
  decide +kernel

/-! ## entity URLs: `get_dir`, `get_url`, page files -/

/-- Clause "resolves to a file that exists", directory part, over the regenerated
    class hierarchy / isinstance tuples / overrides / `self.obj` table: whatever
    `get_dir()` returns for an entity of any class is one of the directories
    `Documentation.writeout` creates (so `DocPage.outfile` can be written and the
    URL `dir/ident.html` points below an existing directory). -/
theorem getDir_in_outDirs (n : Node) (rest : List Node) (hwf : WfNode urlTables n) (d : Str)
    (hd : getDir urlTables (n :: rest) = some d) : d ∈ urlTables.outDirs :=
  getDir_in urlTables (by decide +kernel) n rest hwf d hd

/-- Clause "its file": the file part of `get_url()` of any entity, at any nesting
    depth, is `get_dir()/ident.html` of the nearest enclosing entity that owns a
    page — exactly the `outfile` of that entity's `DocPage` — and entities in
    between (variables, bound procedures, enums, internal procedures …) only
    contribute the `#obj-ident` fragment of the innermost one. -/
theorem getUrl_points_at_owner_page (T : Url.Tables) (chain : List Node) (u : Loc)
    (h : getUrl T chain = some u) :
    ∃ pre c rest, chain = pre ++ c :: rest ∧ getDir T (c :: rest) = some u.dir ∧ u.stem = c.ident ∧
      (∀ n ∈ pre, isinst T n T.anchorClasses = true) ∧ (u.frag = none ↔ pre = []) ∧
      (∀ n, pre.head? = some n → u.frag = some (anchor n)) :=
  getUrl_owner T chain u h

/-- Clause "from every page depth (… list pages, entity pages …)": every entity
    URL lives exactly one directory below the output root, in a directory that
    `writeout` creates and that is a plain segment different from the virtual
    sibling directory the `[[..]]` processor uses. -/
theorem entity_url_depth_one (chain : List Node) (hwf : ∀ n ∈ chain, WfNode urlTables n) (u : Loc)
    (h : getUrl urlTables chain = some u) :
    depth u.file = 1 ∧ u.dir ∈ urlTables.outDirs ∧ NormalSeg u.dir ∧ u.dir ≠ virtualDir := by
  obtain ⟨pre, c, rest, hch, hdir, _⟩ := getUrl_owner urlTables chain u h
  have hc : WfNode urlTables c := hwf c (by simp [hch])
  have hin := getDir_in_outDirs c rest hc _ hdir
  have hall : ∀ d ∈ urlTables.outDirs, NormalSeg d ∧ d ≠ virtualDir := by decide +kernel
  exact ⟨by simp [depth, Loc.file], hin, hall _ hin⟩

/-- Clause "resolves … from every page depth", `[[..]]` links: the `href` the link
    processor writes into the documentation of an entity (relative to the virtual
    sibling directory of `MetaMarkdown.convert`) resolves to the target's page from
    **every** directory one level below the output root — i.e. both from the
    entity's own page and from every list page that repeats its summary —
    wherever the output directory is. -/
theorem doclink_resolves_from_depth_one (base : List Seg) (hb : Normal base) (ctx t : Loc)
    (ht : Normal t.file) (hv : t.dir ≠ virtualDir) (d : Seg) (hd : NormalSeg d) :
    resolve (base ++ [d]) (docLinkPath base ctx t) = base ++ t.file :=
  resolve_doclink base hb ctx t ht hv d hd

/-- ... and only from there: the same `href` is wrong on a page in the output root
    (depth 0) and on a static page two levels down, which is why those pages must
    be converted with their own path (`convert(…, path=…)`) and must not reuse an
    entity's converted documentation. -/
theorem doclink_other_depth_witness :
    let base : List Seg := [['o', 'u', 't']]
    let t : Loc := ⟨['p', 'r', 'o', 'c'], ['f'], none⟩
    resolve base (docLinkPath base t t) ≠ base ++ t.file ∧
      resolve (base ++ [['p', 'a', 'g', 'e'], ['s', 'u', 'b']]) (docLinkPath base t t) ≠ base ++ t.file := by
  decide +kernel

/-! ## round 3: the "Read more" link of a summary -/

/-- Clause "resolves to a file that exists": `FortranBase.markdown` appends
    `<a href="../{get_url()}">Read more…</a>` to a summary that differs from the documentation.
    Over the regenerated rule (`summaryTables`): for every documentation text, the link is appended
    **only to entities that have a URL** — an entity without page and anchor (type / interface block
    local to a procedure, components of such a type) never gets `href="../None"`.
    Partial: excluded by the explicit hypothesis are doc comments with `summary:` metadata and
    documentation without any `<p>` paragraph (unless the link itself is guarded by `get_url()`,
    as in the repaired code); see `read_more_without_url_witness`. -/
theorem read_more_link_has_url_partial (hasUrl : Bool) (explicit para : Option Str) (doc : Str)
    (hx : summaryTables.linkNeedsUrl = true ∨ (explicit = none ∧ (para.isSome = true ∨ strip doc = [])))
    (h : readMore summaryTables hasUrl explicit para doc = true) : hasUrl = true :=
  readMore_url summaryTables (by decide) hasUrl explicit para doc hx h

/-- The excluded class genuinely violates the property in the code as it is (finding
    C09-read-more-link-without-url): an entity without URL whose doc comment has `summary:`
    metadata, or whose documentation has no paragraph (e.g. only a list), gets the link, and
    its target is the file `None` next to the output root's directories. -/
theorem read_more_without_url_witness :
    readMore ReadMore.asIs false (some ['s']) (some ['<', 'p', '>', 'd', '<', '/', 'p', '>']) ['<', 'p', '>', 'd', '<', '/', 'p', '>'] = true ∧
      readMore ReadMore.asIs false none none ['<', 'u', 'l', '>', '<', '/', 'u', 'l', '>'] = true ∧
      readMoreHref none = [up, ['N', 'o', 'n', 'e']] := by
  decide

/-- Clause "from every page depth (… list pages, entity pages …)": when the entity has a URL, the
    link `../<url>` read on any page one directory below the output root (list pages, the pages of
    the entity's host — the places where summaries are printed) is `<output dir>/<url>`, wherever
    the output directory is. -/
theorem read_more_href_resolves (base : List Seg) (hb : Normal base) (d : Seg) (hd : NormalSeg d)
    (u : List Seg) (hu : Normal u) :
    resolve (base ++ [d]) (readMoreHref (some u)) = base ++ u :=
  resolve_readMoreHref base hb d hd u hu

/-! ## round 3: absolute links below the output directory are made relative on every file system -/

/-- Clause "is relative … so the output can be moved or published unchanged", for every way the
    project / output directory may be reached (symbolic links in its path included): over the
    regenerated facts (`relurlTables`: how `normalise_path` tidies `output_dir`, what
    `relative_url` searches for), for **every** file system whose `realpath` is idempotent, a
    link `<project_url>/<t>` is found and rewritten by the `relurl` filter — provided the files
    FORD itself writes below a canonical output directory are not reached through a symbolic link. -/
theorem relurl_rewrites_output_links (fs : FS) (hidem : ∀ p, fs.real (fs.real p) = fs.real p)
    (p t : List Seg)
    (hplain : fs.real (normalisePath relurlTables fs p) = normalisePath relurlTables fs p →
      fs.real (normalisePath relurlTables fs p ++ t) = normalisePath relurlTables fs p ++ t) :
    rewrites relurlTables fs (normalisePath relurlTables fs p ++ t) = true :=
  rewrites_of_ok relurlTables (by decide) fs hidem p t hplain

/-- ... and what it writes is a relative reference that resolves, from the page that carries it
    (any depth), to the target below the output directory. -/
theorem relurl_output_link_resolves (fs : FS) (hidem : ∀ p, fs.real (fs.real p) = fs.real p)
    (p pageDir t : List Seg)
    (hplain : fs.real (normalisePath relurlTables fs p) = normalisePath relurlTables fs p →
      fs.real (normalisePath relurlTables fs p ++ t) = normalisePath relurlTables fs p ++ t)
    (hd : Normal (normalisePath relurlTables fs p)) (hp : Normal pageDir) (ht : Normal t) :
    ∃ r, relurl relurlTables fs (normalisePath relurlTables fs p ++ pageDir) (normalisePath relurlTables fs p ++ t) = some r ∧
      resolve (normalisePath relurlTables fs p ++ pageDir) r = normalisePath relurlTables fs p ++ t :=
  relurl_resolves relurlTables fs _ pageDir t
    (relurl_rewrites_output_links fs hidem p t hplain) hd hp ht

/-- Why `normalise_path` must dereference symbolic links as long as `relative_url` compares with
    the resolved href: with a textual `abspath` and one symbolic link `/work -> /real` on the way
    to the project, the (idempotent) file system below leaves the absolute path in the page. -/
theorem normalise_without_resolve_witness :
    (∀ p, linkFS.real (linkFS.real p) = linkFS.real p) ∧
      relurl { normalise := .abspath, relurlResolves := true } linkFS
        (normalisePath { normalise := .abspath, relurlResolves := true } linkFS [['w', 'o', 'r', 'k'], ['d', 'o', 'c']] ++ [['l', 'i', 's', 't', 's']])
        (normalisePath { normalise := .abspath, relurlResolves := true } linkFS [['w', 'o', 'r', 'k'], ['d', 'o', 'c']] ++ [['p', 'r', 'o', 'c'], ['x']])
        = none :=
  ⟨linkFS_idem, by decide⟩

/-! ## round 4: files that are not pages — assets of every page, copies next to static pages -/

/-- Generic form of the asset clause, for any extracted tables: a link that passes `linkOk` names,
    for **every** option combination and for all values of the computed parts of the path, a file
    that `Documentation.writeout` creates. -/
theorem asset_link_sound (T : Assets.Tables) (l : Assets.Link) (h : linkOk T l = true) (sh : Shape)
    (ρ : Str → Str) (hc : eval sh l.cond = true) : inst ρ l.path ∈ written T sh ρ :=
  linkOk_sound T l h sh ρ hc

/-- Clause "resolves to a file that exists in the output directory … for every option combination",
    for the URLs that every page carries in its head and navigation bar and that are neither list
    nor entity pages: over the tables regenerated from **all** templates (every
    `<tag attr="{{ project_url }}/<path>">`: icon, shipped and user style sheets, scripts, MathJax
    configuration, search index and loader, `index.html`, `search.html`) and from
    `Documentation.writeout` (every `shutil.copy` / `copytree` with its destination expression, the
    listing of the package directories it copies, the search index, the pages with a constant output
    file), whenever a template emits such a URL the file it names has been written — whatever the
    values of `css`, `mathjax_config`, `search`, … and whatever the name of the user's files. -/
theorem asset_links_written (l : Assets.Link) (hl : l ∈ assetTables.links) (sh : Shape) (ρ : Str → Str)
    (hc : eval sh l.cond = true) : inst ρ l.path ∈ written assetTables sh ρ := by
  have hall : assetTables.links.all (linkOk assetTables) = true := by decide +kernel
  exact linkOk_sound assetTables l (List.all_eq_true.1 hall l hl) sh ρ hc

/-- Why the destination of a copy must be the very path the template writes: a `writeout` that keeps
    the extension of the user's icon (`favicon<suffix>`) while the template still says `favicon.png`
    does not pass the check, and for an `.ico` icon the emitted link names a file that is not written. -/
theorem asset_renamed_copy_witness :
    let l : Assets.Link := ⟨['b'], ['l', 'i', 'n', 'k'], ['h', 'r', 'e', 'f'],
      [.lit ['f', 'a', 'v', 'i', 'c', 'o', 'n', '.', 'p', 'n', 'g']], .tt⟩
    let T : Assets.Tables := ⟨[l], [⟨[.lit ['f', 'a', 'v', 'i', 'c', 'o', 'n'], .dyn ['s']], .file, .tt⟩], []⟩
    linkOk T l = false ∧
      inst (fun _ => ['.', 'i', 'c', 'o']) l.path ∉ written T ⟨fun _ => 0, fun _ => false⟩ (fun _ => ['.', 'i', 'c', 'o']) := by
  decide

/-- The built-in Markdown aliases through which users link their own files: over the regenerated tables
    (`aliases.update({...})` of `main`; the `copytree` of `media_dir`, `BasePage.page_dir`), `|url|` is the
    output root and every other one (`|media|`, `|page|`) expands to exactly the directory below which
    `writeout` reproduces the user's directory — so `|media|/<file>` names the copy of `<media_dir>/<file>`. -/
theorem alias_roots_are_copied_trees (a : Str × List Piece) (ha : a ∈ assetTables.aliases) :
    flat a.2 = [] ∨ ∃ w ∈ assetTables.writes, w.src = .user ∧ flat w.dest = flat a.2 := by
  have hall : assetTables.aliases.all (aliasOk assetTables) = true := by decide +kernel
  have h := List.all_eq_true.1 hall a ha
  unfold aliasOk at h
  simp only [Bool.or_eq_true, decide_eq_true_eq, List.any_eq_true, Bool.and_eq_true] at h
  rcases h with h | ⟨w, hw, h1, h2⟩
  · exact Or.inl h
  · exact Or.inr ⟨w, hw, h1, h2⟩

/-- Clause "from every page depth (… nested static pages)" for a page's own `copy_subdir`: over the
    regenerated guard of the copy loop of `PagetreePage.writeout`, for **every** static page (index
    page or not, any nesting depth of its directory, any output root), every directory `d` the page
    names in `copy_subdir` and every file `f` below it, the relative URL `d/f` written on that page
    resolves to a file that the page's own `writeout` creates. -/
theorem page_copy_subdir_link_resolves (p : Assets.PageNode) (base : List Seg) (d : Seg)
    (fs : List (List Seg)) (f : List Seg) (hmem : (d, fs) ∈ p.copySubdir) (hf : f ∈ fs)
    (hb : Normal base) (hl : Normal p.loc) (hd : NormalSeg d) (hfn : Normal f) :
    resolve (base ++ pageDirOf p) (d :: f) ∈ (pageWrites pageTables p).map (base ++ ·) := by
  have hg : ∀ i, pageTables.copyGuard.runs i = true := by decide
  exact copy_link_written pageTables p (hg _) base d fs f hmem hf hb hl hd hfn

/-- … and for the other (non-Markdown) files of a page directory, which the node of the directory's
    `index.md` carries: a relative URL `f` written on a page of that directory resolves to the copy
    made when the index page is written. -/
theorem page_file_link_resolves (p : Assets.PageNode) (hi : p.isIndex = true) (base : List Seg) (f : Seg)
    (hf : f ∈ p.files) (hb : Normal base) (hl : Normal p.loc) (hfn : NormalSeg f) :
    resolve (base ++ pageDirOf p) [f] ∈ (pageWrites pageTables p).map (base ++ ·) := by
  have hg : pageTables.filesGuard.runs true = true := by decide
  exact file_link_written pageTables p (by rw [hi]; exact hg) base f hf hb hl hfn

/-- Why the copy loop must run for every page: if only the index page of a directory copied
    `copy_subdir` directories, the page `guide/tutorial.md` with its own `copy_subdir: figs` would
    link `figs/plot.png`, which nothing writes. -/
theorem page_copy_index_only_witness :
    let p : Assets.PageNode := ⟨[['g', 'u', 'i', 'd', 'e']], ['t', 'u', 't'], [(['f', 'i', 'g', 's'], [[['p', '.', 'p', 'n', 'g']]])], []⟩
    resolve ([['o', 'u', 't']] ++ pageDirOf p) [['f', 'i', 'g', 's'], ['p', '.', 'p', 'n', 'g']] ∉
      (pageWrites ⟨.indexOnly, .always, ⟨.withSuffix, .withSuffix, .withSuffix⟩⟩ p).map ([['o', 'u', 't']] ++ ·) := by
  decide

/-! ## round 5: state that outlives one page / one text — the Markdown converter, a cache in front of `relurl` -/

/-- Generic form, for any table of resetting sites: in a run of any length, with any labels and any table left in the
    converter at the start, a text that is converted at a site that starts from a reset converter, and that refers to
    each footnote it defines, gets only its own footnotes listed — every back-link `#fnref:l` and every reference
    `#fn:l` in it names an element of the same converted text. -/
theorem footnote_links_sound (T : Footnotes.Tables) (seen : List Footnotes.Site) (st : List Str)
    (convs : List Footnotes.Conv)
    (p : Footnotes.Conv × Footnotes.Out) (hp : p ∈ convs.zip (Footnotes.convertAll T seen st convs))
    (hs : p.1.site ∈ T.resets) (hw : ∀ l ∈ p.1.defs, l ∈ p.1.refs) : Footnotes.linksOk p.2 = true :=
  Footnotes.convertAll_ok T convs seen st p hp hs hw

/-- Clause "any `#fragment` names an element present in that file", for the footnote links of the texts users write
    footnotes in: over the sites regenerated by probing the real pipeline (`mdTables`), the front page text, every
    doc comment — whichever entity, however many were converted before it by the same converter — and every static
    page get only their own footnotes.  (`_partial`: the three conversions that the code as it is starts *without* a
    reset — `summary:` metadata, project summary, author description — are outside; that is the explicit hypothesis
    `hx`; see `footnote_leak_witness` and finding C09-footnotes-leak-into-conversions-without-reset.) -/
theorem footnote_links_resolve_partial (seen : List Footnotes.Site) (st : List Str) (convs : List Footnotes.Conv)
    (p : Footnotes.Conv × Footnotes.Out) (hp : p ∈ convs.zip (Footnotes.convertAll mdTables seen st convs))
    (hx : p.1.site ∈ Footnotes.mainSites) (hw : ∀ l ∈ p.1.defs, l ∈ p.1.refs) :
    Footnotes.linksOk p.2 = true := by
  have hall : Footnotes.tablesOk mdTables = true := by decide
  have hs : p.1.site ∈ mdTables.resets := by
    have := List.all_eq_true.1 hall _ hx
    simpa using this
  exact footnote_links_sound mdTables seen st convs p hp hs hw

/-- Full strength, for a tree in which every conversion site resets (with fixes/C09-md-reset-summaries.diff the probe
    reports all six). -/
theorem footnote_links_resolve (hfix : Footnotes.allSites.all (fun s => decide (s ∈ mdTables.resets)) = true)
    (seen : List Footnotes.Site) (st : List Str) (convs : List Footnotes.Conv) (p : Footnotes.Conv × Footnotes.Out)
    (hp : p ∈ convs.zip (Footnotes.convertAll mdTables seen st convs)) (hw : ∀ l ∈ p.1.defs, l ∈ p.1.refs) :
    Footnotes.linksOk p.2 = true := by
  have hs : p.1.site ∈ mdTables.resets := by
    have hmem : p.1.site ∈ Footnotes.allSites := by cases p.1.site <;> decide
    have := List.all_eq_true.1 hfix _ hmem
    simpa using this
  exact footnote_links_sound mdTables seen st convs p hp hs hw

/-- The excluded class genuinely violates the property in the code as it is: the `summary:` metadata of an entity is
    converted right after its doc comment without a reset and gets that comment's footnote listed, with a back-link
    to a reference that is not in the summary.  And why the reset must come before **every** doc comment: with one
    reset per project (in front of the loop: only the first doc comment starts clean), the second entity's documentation
    lists the first one's footnote. -/
theorem footnote_leak_witness :
    (Footnotes.convertAll Footnotes.asIs [] [] [⟨.entityDoc, false, [['n']], [['n']]⟩, ⟨.entitySummary, false, [], []⟩]).map Footnotes.linksOk
        = [true, false] ∧
      (Footnotes.convertAll { resets := [], resetsFirst := [.entityDoc] } [] [] [⟨.entityDoc, false, [['n']], [['n']]⟩, ⟨.entityDoc, false, [], []⟩]).map Footnotes.linksOk
        = [true, false] := by
  decide

/-- Clause "from every page depth (… nested static pages)", for everything the templates put through the `relurl`
    filter: over the reuse key regenerated by probing the registered filter (`memoKey`), for **every** sequence of
    filter calls — any texts, any pages, any order — each call returns what `relative_url` computes for the directory
    of the page it is rendered on; an earlier page's result is never handed to a page in another directory, however
    alike their names. -/
theorem relurl_filter_is_function_of_page {β : Type} (f : Str → List Seg → β) (calls : List (Str × List Seg)) :
    Memo.runCached memoKey f [] calls = calls.map (fun c => f c.1 (dirOf c.2)) :=
  Memo.cached_eq_direct memoKey (by decide) f calls

/-- Why the key of such a cache must be the whole directory: keyed by the *name* of the page's directory,
    `page/examples/first.html` is given the reference computed for `page/dev/examples/index.html`, which from there
    leads to `examples/index.html` in the output root — a file that does not exist. -/
theorem relurl_cache_by_dir_name_witness :
    let out : List Seg := [['o']]
    let tgt : List Seg := out ++ [['p', 'a', 'g', 'e'], ['e', 'x'], ['i']]
    let deep : List Seg := out ++ [['p', 'a', 'g', 'e'], ['d', 'e', 'v'], ['e', 'x'], ['i']]
    let flat : List Seg := out ++ [['p', 'a', 'g', 'e'], ['e', 'x'], ['f']]
    let f : Str → List Seg → List Seg := fun _ d => resolve d (relpath tgt d)
    Memo.runCached .pageDir f [] [([], deep), ([], flat)] = [tgt, tgt] ∧
      Memo.runCached .dirName (fun _ d => relpath tgt d) [] [([], deep), ([], flat)]
        = [relpath tgt (dirOf deep), relpath tgt (dirOf deep)] ∧
      resolve (dirOf flat) (relpath tgt (dirOf deep)) = out ++ [['e', 'x'], ['i']] := by
  decide

/-- Non-vacuity of the hypotheses above on a concrete entity: a variable of a type
    declared in a module gets `type/<type>.html#variable-<name>`. -/
example :
    getUrl urlTables
      [⟨"FortranVariable".toList, "variable".toList, "x".toList, true, false⟩,
       ⟨"FortranType".toList, "type".toList, "t".toList, true, false⟩,
       ⟨"FortranModule".toList, "module".toList, "m".toList, true, false⟩,
       ⟨"FortranSourceFile".toList, "sourcefile".toList, "a.f90".toList, true, false⟩]
      = some ⟨"type".toList, "t".toList, some "variable-x".toList⟩ := by
  decide +kernel

/-! ## round 6: what a static page is called - by the links to it, by the writer, by the search index -/

/-- Generic form, for any naming tables whose three places agree (`PageName.tablesOk`): the link that the `relurl`
    filter leaves for `PageNode.url` of the page `<loc>/<stem>.md` on a page lying in **any** directory `dir` of the
    output tree (front page, entity pages, list pages, static pages nested arbitrarily deep), in a tree at any root
    `base`, resolves to a file that the `writeout` of that page creates - whatever the stem looks like. -/
theorem page_link_sound (T : Assets.PageTables) (hT : PageName.tablesOk T.names = true)
    (p : Assets.PageNode) (base dir : List Seg) (hb : Normal base) (hd : Normal dir) (hl : Normal p.loc) :
    resolve (base ++ dir) (PageName.linkTo T.names base dir p.loc p.stem) ∈ (pageWrites T p).map (base ++ ·) := by
  rw [PageName.linkTo_resolves T.names hT base dir p.loc p.stem hb hd hl]
  exact List.mem_map.2 ⟨_, by simp [pageWrites], rfl⟩

/-- Clause "resolves to a file that exists in the output directory ... from every page depth (... nested static
    pages)" for the links FORD itself writes to static pages (side-bar tree and bread crumbs of `info_page.html`,
    the navigation bar entry of `base.html`): over the namings regenerated by probing the real `PageNode` and
    `PagetreePage` objects, for **every** page of the tree - any location, any stem, dots included (`release-1.2.md`) -
    seen from every directory and under every root. -/
theorem page_link_names_written_file (p : Assets.PageNode) (base dir : List Seg)
    (hb : Normal base) (hd : Normal dir) (hl : Normal p.loc) :
    resolve (base ++ dir) (PageName.linkTo pageTables.names base dir p.loc p.stem) ∈
      (pageWrites pageTables p).map (base ++ ·) :=
  page_link_sound pageTables (by decide) p base dir hb hd hl

/-- Clause "is relative ... so the output can be moved": that link does not depend on where the tree lives. -/
theorem page_link_relocatable (p : Assets.PageNode) (base base' dir : List Seg) :
    PageName.linkTo pageTables.names base dir p.loc p.stem = PageName.linkTo pageTables.names base' dir p.loc p.stem := by
  unfold PageName.linkTo
  rw [relpath_prefix, relpath_prefix]

/-- Clause "the search index": the `url` of the page's entry in `search_database.json` (`PagetreePage.loc`), which
    `search.html` resolves against the output root, names the file written for the page. -/
theorem page_search_url_names_written_file (p : Assets.PageNode) (base : List Seg)
    (hb : Normal base) (hl : Normal p.loc) :
    resolve base (PageName.searchPath pageTables.names p.loc p.stem) ∈ (pageWrites pageTables p).map (base ++ ·) := by
  rw [PageName.searchPath_resolves pageTables.names (by decide) base p.loc p.stem hb hl]
  exact List.mem_map.2 ⟨_, by simp [pageWrites], rfl⟩

/-- Why no project without a dot in a page's file name can tell the namings apart: on every stem without a dot
    `with_suffix(".html")` and `<stem>.html` are the same name. -/
theorem page_namings_agree_on_plain_stems (n m : PageName.Naming) (stem : Seg) (h : '.' ∉ stem) :
    n.name stem = m.name stem :=
  PageName.name_plain n m stem h

/-- Why the three places must agree: with the writer changed to `<stem>.html` and the links left at
    `with_suffix(".html")`, the page `release-1.2.md` is written to `page/release-1.2.html` while the side bar of
    `page/index.html` links `release-1.html`, which nothing writes. -/
theorem page_name_mixed_witness :
    let T : Assets.PageTables := ⟨.always, .always, ⟨.withSuffix, .appendHtml, .appendHtml⟩⟩
    let p : Assets.PageNode := ⟨[], "release-1.2".toList, [], []⟩
    PageName.tablesOk T.names = false ∧
    PageName.linkTo T.names [['o']] [['p', 'a', 'g', 'e']] p.loc p.stem = ["release-1.html".toList] ∧
    resolve ([['o']] ++ [['p', 'a', 'g', 'e']]) (PageName.linkTo T.names [['o']] [['p', 'a', 'g', 'e']] p.loc p.stem) ∉
      (pageWrites T p).map ([['o']] ++ ·) := by
  decide

example : PageName.withSuffixHtml "release-1.2".toList = "release-1.html".toList := by decide
example : PageName.withSuffixHtml "x..y".toList = "x..html".toList := by decide
example : PageName.withSuffixHtml "a.".toList = "a..html".toList := by decide
example : PageName.withSuffixHtml ".a".toList = ".a.html".toList := by decide
example : PageName.linkTo pageTables.names [['o']] [['p', 'a', 'g', 'e'], ['s', 'u', 'b']] [['v', '1', '.', '0']] "a.b.c".toList
    = [up, "v1.0".toList, "a.b.html".toList] := by decide

/-! ## round 6: graph node URLs -/

/-- Generic form, for any tables that pass `GraphUrl.tablesOk` (one step up, gates in place, every template that
    prints a graph renders pages exactly one directory below the root): on a page of **any** such template, in any
    directory `pd` directly below any root `base`, the URL of a node of an entity of this project whose `get_url()`
    is the normal path `u` resolves to `base ++ u` - the file `get_url()` names (see `getUrl_points_at_owner_page`
    and `entity_url_depth_one`). -/
theorem graph_node_url_sound (T : GraphUrl.Tables) (hT : GraphUrl.tablesOk T = true)
    (n : GraphUrl.Node) (hint : n.fromStr = false ∧ n.external = false)
    (base : List Seg) (pd : Seg) (r : List Seg)
    (hb : Normal base) (hpd : NormalSeg pd) (hu : ∀ u, n.url = some u → Normal u)
    (h : GraphUrl.nodeUrl T n = some r) :
    ∃ u, n.url = some u ∧ resolve (base ++ [pd]) r = base ++ u := by
  obtain ⟨_, u, hurl, _, hr⟩ := GraphUrl.nodeUrl_some T n r h
  have hp : T.parentDir = [up] := by
    simp [GraphUrl.tablesOk] at hT; exact hT.1.1.1.1
  refine ⟨u, hurl, ?_⟩
  rcases hr with ⟨_, hk⟩ | ⟨hr, _⟩
  · simp [hint.1, hint.2] at hk
  · rw [hr, hp]
    exact GraphUrl.resolve_up_from_depth_one base pd u hb hpd (hu u hurl)

/-- Clause "every URL ... embedded SVG graphs ... resolves", over the regenerated tables (`graphTables`: prefix read
    from `Documentation.__init__`, gates probed on the real `BaseNode`, host templates from the Jinja AST with the
    depth of real page objects): every clickable node of an entity of the project, on every page that prints a graph. -/
theorem graph_node_url_resolves (n : GraphUrl.Node) (hint : n.fromStr = false ∧ n.external = false)
    (base : List Seg) (pd : Seg) (r : List Seg)
    (hb : Normal base) (hpd : NormalSeg pd) (hu : ∀ u, n.url = some u → Normal u)
    (h : GraphUrl.nodeUrl graphTables n = some r) :
    ∃ u, n.url = some u ∧ resolve (base ++ [pd]) r = base ++ u :=
  graph_node_url_sound graphTables (by decide) n hint base pd r hb hpd hu h

/-- ... and only entities that are displayed get a clickable node: an entity whose page the `display` /
    `hide_undoc` settings removed (`visible = False`), and a binding of such a type, have no URL in any graph. -/
theorem graph_node_url_only_if_visible (n : GraphUrl.Node) (r : List Seg)
    (h : GraphUrl.nodeUrl graphTables n = some r) :
    n.visible = true ∧ (n.bound = true → n.parentVisible = true) := by
  obtain ⟨hs, _⟩ := GraphUrl.nodeUrl_some graphTables n r h
  have hv : graphTables.visibleGate = true := by decide
  have hbg : graphTables.boundGate = true := by decide
  simp [GraphUrl.shown, hv, hbg] at hs
  refine ⟨hs.1, fun hb => ?_⟩
  rcases hs.2 with h | h
  · simp [hb] at h
  · exact h

/-- every template that prints a graph renders its pages exactly one directory below the root (so that the one
    prefix `../` of the run is right for all of them); in particular `index.html`, `search.html` and the static
    pages print none. -/
theorem graph_hosts_depth_one (h : Str × GraphUrl.Depth) (hh : h ∈ graphTables.hosts) : h.2 = .one := by
  have hall : graphTables.hosts.all (fun h => decide (h.2 = .one)) = true := by decide
  simpa using List.all_eq_true.1 hall h hh

/-- Why the depth matters: the same node URL on a page at the root (a graph printed on `index.html`) leaves the
    output directory's tree of pages - it resolves to `/module/m.html` next to, not inside, `/out`. -/
theorem graph_node_url_depth_zero_witness :
    let n : GraphUrl.Node := ⟨false, false, some ["module".toList, "m.html".toList], true, false, true⟩
    GraphUrl.nodeUrl graphTables n = some [up, "module".toList, "m.html".toList] ∧
    resolve ["out".toList] [up, "module".toList, "m.html".toList] = ["module".toList, "m.html".toList] := by
  decide

example : GraphUrl.nodeUrl graphTables ⟨false, false, some ["proc".toList, "p.html".toList], false, false, true⟩ = none := by decide
example : GraphUrl.nodeUrl graphTables ⟨false, false, some ["type".toList, "t.html#boundprocedure-b".toList], true, true, false⟩ = none := by
  decide
example : GraphUrl.nodeUrl graphTables ⟨true, false, some ["https:".toList, [], "x.org".toList], true, false, true⟩
    = some ["https:".toList, [], "x.org".toList] := by decide
example : resolve ["out".toList, "lists".toList] [up, "module".toList, "m.html".toList] = ["out".toList, "module".toList, "m.html".toList] := by
  decide

end Ford.C09
