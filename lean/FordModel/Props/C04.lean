/-
  C04 - accessibility of every entity follows Fortran's PUBLIC/PRIVATE rules.
  Property theorems only; the model is FordModel/Access.lean (tables from
  Generated/C04.lean) with the name keying of FordModel/AccessNames.lean in front of it, the specification
  FordModel/AccessSpec.lean, helper lemmas FordModel/Lemmas/Access.lean and FordModel/Lemmas/AccessNames.lean.
-/
import FordModel.Access
import FordModel.AccessSpec
import FordModel.Lemmas.Access
import FordModel.AccessNames
import FordModel.Lemmas.AccessNames
import FordModel.AccessImpl
import FordModel.Lemmas.AccessImpl
import FordModel.AccessPage
namespace Ford.C04
open Ford Ford.Access

/-- **Module-level entities, every interleaving.**  For every specification part `pre ++ d :: post`
    (any statements before and after the declaration `d`, access statements naming the entity anywhere
    before or after it, a bare `public`/`private` anywhere) and every entity `(c, n, attrs)` that `d`
    declares - variable, parameter, type, subroutine, function, generic / operator / abstract / plain
    interface - the permission FORD's mechanism ends up with is Fortran's accessibility
    (attribute or access statement, else the module default), provided the program is legal
    (names declared once, one access-spec per entity, procedures after CONTAINS), PROTECTED is not involved,
    and the entity is not in the class of the known defect `LateDefault` (no access-spec of its own and a bare
    `private` *after* the declaration). -/
theorem access_correct_partial (v : Variant) (pre post : List Stmt) (d : Stmt) (c : Cat) (n : Str) (attrs : List Attr)
    (hx : (c, n, attrs) ∈ declares d)
    (hnames : NamesOnce (pre ++ d :: post))
    (hbare : BareLegal (pre ++ d :: post))
    (hproc : isProc d = true → Stmt.contains ∈ pre)
    (hone : OneAccessSpec (pre ++ d :: post) attrs n)
    (hprot : hasProtected (pre ++ d :: post) attrs n = false)
    (hlate : ¬ LateDefault (pre ++ d :: post) post attrs n) :
    ∃ e ∈ (runUnit v false (pre ++ d :: post)).ents, e.cat = c ∧ e.name = n ∧
      e.perm = fortranAccess (pre ++ d :: post) attrs n := by
  have hinc : isProc d = true → (false || hasContains pre) = true := by
    intro h; simpa [hasContains] using hproc h
  obtain ⟨e0, he0, hc0, hn0, hp0⟩ :=
    mkEnts_declares (lastBare (init false).perm pre) (false || hasContains pre) d hinc (c, n, attrs) hx
  simp only at hc0 hn0 hp0
  refine ⟨upd (stmtEntries (pre ++ d :: post)) (specUpd v.specLoop (stmtEntries (pre ++ d :: post)) e0), ?_,
    by simpa using hc0, by simpa using hn0, ?_⟩
  · rw [runUnit_ents v false _ hnames, entsFrom_append]
    exact List.mem_map.2 ⟨e0, List.mem_append_right _ (mkEnts_sub_entsFrom _ _ d post e0 he0), rfl⟩
  · obtain ⟨w1u, w1r, w2u, w2r⟩ := words_ok c
    have hprot' : Attr.acc .prot ∉ attrs ∧ Attr.acc .prot ∉ entriesFor n (stmtEntries (pre ++ d :: post)) := by
      simp only [hasProtected, Bool.or_eq_false_iff, List.contains_eq_mem, decide_eq_false_iff_not] at hprot
      exact ⟨hprot.1, fun h => hprot.2 ((mem_entriesFor _ _ _).1 h)⟩
    have h2 := two_loops (declWords c) (wordsFor c) w1u w1r w2u w2r attrs
      (entriesFor n (stmtEntries (pre ++ d :: post))) (lastBare (init false).perm pre) hone hprot'.1 hprot'.2
    simp only [upd, specUpd_cat, specUpd_name, specUpd_perm, hc0, hn0, hp0, applyAttrs_eq_declPerm, h2]
    simp only [fortranAccess, hprot, stmtAccess_eq]
    cases hX : (explicitOf attrs).orElse (fun _ => explicitOf (entriesFor n (stmtEntries (pre ++ d :: post)))) with
    | some q =>
      have hq : q ≠ .prot := by
        cases h1 : explicitOf attrs with
        | some q1 => rw [h1] at hX; simp at hX; subst hX; exact explicitOf_ne_prot h1
        | none => rw [h1] at hX; simp at hX; exact explicitOf_ne_prot hX
      cases q <;> simp_all
    | none =>
      have h1 : explicitOf attrs = none := by
        cases h1 : explicitOf attrs with
        | some q1 => rw [h1] at hX; simp at hX
        | none => rfl
      have h2' : explicitOf (entriesFor n (stmtEntries (pre ++ d :: post))) = none := by
        rw [h1] at hX; simpa using hX
      have hpost : Stmt.bare .priv ∉ post := by
        intro hb
        exact hlate ⟨hb, h1, by rw [stmtAccess_eq]; exact h2'⟩
      have hdef := default_at_decl pre post d (declares_not_bare hx) hbare hpost
      simp only [Option.getD_none]
      change lastBare moduleInit pre = _
      rw [hdef]
      have := defaultAccess_ne_prot (pre ++ d :: post)
      cases hdv : defaultAccess (pre ++ d :: post) <;> simp_all


/-- Non-vacuity of the exclusion: in a module with a *late* bare `private`, an entity with its own access-spec
    is outside the excluded class (the theorem above applies to it). -/
example : ¬ LateDefault [Stmt.var ["v".toList] [.acc .pub], .bare .priv] [.bare .priv] [.acc .pub] "v".toList := by
  decide

/-- **Known defect (late bare `private`).**  `integer :: v` followed by a bare `private`: FORD's mechanism
    reports `v` public, Fortran says private.  The same for a type and an abstract interface. -/
theorem late_private_witness (v : Variant) :
    ((runUnit v false [.var ["v".toList] [], .typeDef "t".toList [] [], .iface .abstract [] ["a".toList] [], .bare .priv]).ents.map
        (fun e => (e.name, e.perm)) = [("v".toList, .pub), ("t".toList, .pub), ("a".toList, .pub)]) ∧
    fortranAccess [.var ["v".toList] [], .typeDef "t".toList [] [], .iface .abstract [] ["a".toList] [], .bare .priv] [] "v".toList
      = .priv := by
  rcases v with ⟨_ | _, _ | _, _ | _⟩ <;> decide

/-- **Procedures are never hit by that defect**: module procedures are constructed after CONTAINS, i.e. after
    the whole specification part, so for them the theorem holds without the exclusion whenever the bare
    statement stands where Fortran requires it (in the specification part, before CONTAINS). -/
theorem procedure_access_correct (v : Variant) (pre post : List Stmt) (f : Bool) (n : Str)
    (hnames : NamesOnce (pre ++ .proc f n :: post))
    (hbare : BareLegal (pre ++ .proc f n :: post))
    (hproc : Stmt.contains ∈ pre)
    (hspec : Stmt.bare .priv ∉ post)
    (hone : OneAccessSpec (pre ++ .proc f n :: post) [] n)
    (hprot : hasProtected (pre ++ .proc f n :: post) [] n = false) :
    ∃ e ∈ (runUnit v false (pre ++ .proc f n :: post)).ents, e.cat = (if f then .func else .sub) ∧ e.name = n ∧
      e.perm = fortranAccess (pre ++ .proc f n :: post) [] n :=
  access_correct_partial v pre post (.proc f n) _ n [] (by simp [declares]) hnames hbare (fun _ => hproc) hone hprot
    (fun h => hspec h.1)

/-- **Wherever the access statement stands.**  Moving an access statement across any block of other
    statements (declarations, bare statements, CONTAINS, ...) changes nothing in the result - permissions of all
    entities, components, bindings and `public_list`.  True for modules and submodules. -/
theorem access_statement_position_irrelevant (v : Variant) (sub : Bool) (pre mid post : List Stmt) (a : Attr) (ns : List Str)
    (hmid : ∀ x ∈ mid, isAccess x = false) :
    runUnit v sub (pre ++ .access a ns :: (mid ++ post)) = runUnit v sub (pre ++ (mid ++ .access a ns :: post)) := by
  simp only [runUnit, List.foldl_append, List.foldl_cons]
  rw [foldl_step_comm a ns mid _ hmid]

/-- **Submodules.**  In a submodule (which cannot contain access statements or access attributes) every entity
    - variable, type, procedure, interface - is private. -/
theorem submodule_entities_private (v : Variant) (stmts : List Stmt) (h : AccessFree stmts) :
    ∀ e ∈ (runUnit v true stmts).ents, e.perm = .priv := by
  have hs := foldl_step stmts (init true) rfl
  simp only [runUnit, finish, map_readKids]
  rw [hs.1, hs.2]
  simp only [init, List.nil_append]
  rw [passesV_noacc v.del _ _ (stmtEntries_accessFree stmts h)]
  apply ctorPass_perm .priv
  intro e he
  obtain ⟨e0, he0, rfl⟩ := List.mem_map.1 he
  rw [specUpd_perm]
  exact entsFrom_accessFree stmts _ false h e0 he0

/-- **`protected` is recorded.**  A variable declared with the PROTECTED attribute and no access-spec, not
    named in any attribute statement, in a module whose default is public, is reported `protected`,
    which is what the specification says. -/
theorem protected_recorded (v : Variant) (pre post : List Stmt) (ns : List Str) (attrs : List Attr) (n : Str) (hn : n ∈ ns)
    (hnames : NamesOnce (pre ++ .var ns attrs :: post))
    (hbare : BareLegal (pre ++ .var ns attrs :: post))
    (hpub : Stmt.bare .priv ∉ pre ++ .var ns attrs :: post)
    (hattr : Attr.acc .prot ∈ attrs) (hno : attrs.filterMap accessWord = [])
    (hstmt : stmtWords (pre ++ .var ns attrs :: post) n = []) :
    (∃ e ∈ (runUnit v false (pre ++ .var ns attrs :: post)).ents, e.cat = .var ∧ e.name = n ∧ e.perm = .prot) ∧
    fortranAccess (pre ++ .var ns attrs :: post) attrs n = .prot := by
  have hpost : Stmt.bare .priv ∉ post := fun h => hpub (by simp [h])
  have hdef := default_at_decl pre post (.var ns attrs) (by intro q h; cases h) hbare hpost
  have hd : defaultAccess (pre ++ .var ns attrs :: post) = .pub := by
    unfold defaultAccess
    have : (pre ++ .var ns attrs :: post).contains (Stmt.bare .priv) = false := by
      simpa [List.contains_eq_mem] using hpub
    rw [this]; rfl
  constructor
  · obtain ⟨e0, he0, hc0, hn0, hp0⟩ :=
      mkEnts_declares (lastBare (init false).perm pre) (false || hasContains pre) (.var ns attrs)
        (by intro h; cases h) (.var, n, attrs) (by simp only [declares, List.mem_map]; exact ⟨n, hn, rfl⟩)
    simp only at hc0 hn0 hp0
    refine ⟨upd (stmtEntries (pre ++ .var ns attrs :: post))
      (specUpd v.specLoop (stmtEntries (pre ++ .var ns attrs :: post)) e0), ?_, by simpa using hc0, by simpa using hn0, ?_⟩
    · rw [runUnit_ents v false _ hnames, entsFrom_append]
      exact List.mem_map.2 ⟨e0, List.mem_append_right _ (mkEnts_sub_entsFrom _ _ _ post e0 he0), rfl⟩
    · have hst : entriesFor n (stmtEntries (pre ++ .var ns attrs :: post)) = [] := hstmt
      simp only [upd, specUpd_cat, specUpd_name, specUpd_perm, hc0, hn0, hp0, applyAttrs_eq_declPerm, hst, declPerm]
      exact declPerm_prot _ (by decide) attrs _ hno hattr
  · have hst : entriesFor n (stmtEntries (pre ++ .var ns attrs :: post)) = [] := hstmt
    have h1 : explicitOf attrs = none := by rw [explicitOf_eq_head, hno]; rfl
    have hp : hasProtected (pre ++ .var ns attrs :: post) attrs n = true := by
      simp [hasProtected, hattr]
    simp only [fortranAccess, stmtAccess_eq, hst, h1, hd, hp]
    rfl

/-- **Known defect (PROTECTED overrides private).**  In a default-private module `integer, protected :: v` is
    reported `protected` (and hence displayed by default) although it is private. -/
theorem protected_private_witness (v : Variant) :
    ((runUnit v false [.bare .priv, .var ["v".toList] [.acc .prot]]).ents.map (fun e => (e.name, e.perm))
        = [("v".toList, .prot)]) ∧
    fortranAccess [.bare .priv, .var ["v".toList] [.acc .prot]] [.acc .prot] "v".toList = .priv := by
  rcases v with ⟨_ | _, _ | _, _ | _⟩ <;> decide

/-- **Known defect (PROTECTED lost).**  `integer, protected :: v` plus `public :: v` is reported `public`:
    the PROTECTED attribute is no longer recorded. -/
theorem protected_lost_witness (v : Variant) :
    ((runUnit v false [.var ["v".toList] [.acc .prot], .access (.acc .pub) ["v".toList]]).ents.map
        (fun e => (e.name, e.perm)) = [("v".toList, .pub)]) ∧
    fortranAccess [.var ["v".toList] [.acc .prot], .access (.acc .pub) ["v".toList]] [.acc .prot] "v".toList = .prot := by
  rcases v with ⟨_ | _, _ | _, _ | _⟩ <;> decide


/-- **Specific procedures of a generic interface.**  A procedure declared by an interface body inside a generic
    interface block `interface g` is a module entity of its own: its accessibility is the access statement naming
    *it*, else the module default - in particular an access statement that names only the generic `g` (or anything
    else) does not change it, and the getter `FortranProcedure.permission` does not redirect it to the generic
    (`readGeneric = false` in the generated truth table).  For every specification part
    `pre ++ interface g :: post`, every variant, whatever the other names are (constructor idiom included).
    Exclusions, both explicit: the late-bare-private class, and - only for the code without the loop over the
    interface bodies (`specLoop = false`, the code as it is) - the specific procedure being named in an access
    statement (known defect `C04-specific-access-statement-ignored`, witness below).  With the candidate repair
    (`specLoop = true`) that second exclusion is gone. -/
theorem specific_procedure_access_partial (v : Variant) (pre post : List Stmt) (g : Str) (ps rs : List Str) (p : Str)
    (hp : p ∈ ps)
    (hbare : BareLegal (pre ++ .iface .generic g ps rs :: post))
    (hone : OneAccessSpec (pre ++ .iface .generic g ps rs :: post) [] p)
    (hstmt : v.specLoop = false → stmtAccess (pre ++ .iface .generic g ps rs :: post) p = none)
    (hlate : ¬ LateDefault (pre ++ .iface .generic g ps rs :: post) post [] p)
    (hprot : hasProtected (pre ++ .iface .generic g ps rs :: post) [] p = false) :
    ∃ e ∈ (runUnit v false (pre ++ .iface .generic g ps rs :: post)).ents, e.cat = .iface ∧ e.name = g ∧
      (⟨p, fortranAccess (pre ++ .iface .generic g ps rs :: post) [] p⟩ : Kid) ∈ e.procs := by
  generalize hS : pre ++ Stmt.iface .generic g ps rs :: post = S at *
  let P := lastBare (init false).perm pre
  let e0 : Ent := { cat := .iface, name := g, perm := P, procs := ps.map (fun q => ⟨q, P⟩), refs := rs.map (fun q => ⟨q, P⟩) }
  have he0 : e0 ∈ entsFrom (init false).perm false S := by
    rw [← hS, entsFrom_append]
    apply List.mem_append_right
    apply mkEnts_sub_entsFrom
    simp [mkEnts, e0, P, pick, srcInterface]
  have hs : skel (specUpd v.specLoop (stmtEntries S) e0) ∈ ((runUnit v false S).ents).map skel := by
    rw [runUnit_skel]; exact List.mem_map.2 ⟨e0, he0, rfl⟩
  obtain ⟨e, he, hse⟩ := List.mem_map.1 hs
  simp only [skel, Prod.mk.injEq, specUpd_cat, specUpd_name] at hse
  refine ⟨e, he, hse.1, hse.2.1, ?_⟩
  rw [hse.2.2]
  have hprot' : Attr.acc .prot ∉ entriesFor p (stmtEntries S) := by
    simp only [hasProtected, Bool.or_eq_false_iff, List.contains_eq_mem, decide_eq_false_iff_not] at hprot
    exact fun h => hprot.2 ((mem_entriesFor _ _ _).1 h)
  -- the default in force at the block is the module default, unless the statement case applies
  have hdefault : stmtAccess S p = none → P = defaultAccess S := by
    intro hn
    have hpost : Stmt.bare .priv ∉ post := fun hb => hlate ⟨hb, rfl, hn⟩
    rw [← hS]
    exact default_at_decl pre post (.iface .generic g ps rs) (by intro q h; cases h) (by rw [hS]; exact hbare) hpost
  have hne := defaultAccess_ne_prot S
  cases hv : v.specLoop with
  | false =>
    have hn := hstmt hv
    simp only [specUpd, Bool.false_eq_true, if_false]
    apply List.mem_map.2
    refine ⟨p, hp, ?_⟩
    simp only [fortranAccess, explicitOf, List.findSome?_nil, Option.orElse_none, hn, Option.getD_none, hprot]
    rw [hdefault hn]
    cases hdv : defaultAccess S <;> simp_all
  | true =>
    simp only [specUpd, if_true]
    apply List.mem_map.2
    refine ⟨⟨p, P⟩, List.mem_map.2 ⟨p, hp, rfl⟩, ?_⟩
    have h2 := two_loops applyWords applyWords (by decide) (by decide) (by decide) (by decide) []
      (entriesFor p (stmtEntries S)) P hone (by simp) hprot'
    simp only [applyAttrs_eq_declPerm]
    simp only [declPerm] at h2
    rw [h2]
    simp only [fortranAccess, hprot, stmtAccess_eq]
    cases hX : (explicitOf ([] : List Attr)).orElse (fun _ => explicitOf (entriesFor p (stmtEntries S))) with
    | some q =>
      have hq : q ≠ .prot := by
        simp [explicitOf] at hX
        exact explicitOf_ne_prot hX
      cases q <;> simp_all
    | none =>
      have hn : stmtAccess S p = none := by
        rw [stmtAccess_eq]; simpa [explicitOf] using hX
      simp only [Option.getD_none]
      rw [hdefault hn]
      cases hdv : defaultAccess S <;> simp_all

/-- Worked instance (the scenario of a regression in the getter): `private :: g` names the generic only; the
    generic is private, its specific procedure `x` stays public. -/
example :
    (runUnit asIs false [.access (.acc .priv) ["g".toList], .iface .generic "g".toList ["x".toList] []]).ents.map
      (fun e => (e.perm, e.procs)) = [(.priv, [⟨"x".toList, .pub⟩])] := by decide

/-- **Known defect (access statement naming a specific procedure is ignored).**  `private` / `public :: x` /
    `interface g; subroutine x ...`: `process_attribs` walks the module's own entity lists only, the interface
    bodies of a generic interface are not among them; `x` keeps the default (private), Fortran says public.
    With the loop over the interface bodies (`specLoop`) `x` is public. -/
theorem specific_access_statement_witness (d : DelOrder) (early : Bool) :
    ((runUnit ⟨d, early, false⟩ false [.bare .priv, .access (.acc .pub) ["x".toList],
        .iface .generic "g".toList ["x".toList] []]).ents.map (fun e => e.procs) = [[⟨"x".toList, .priv⟩]]) ∧
    ((runUnit ⟨d, early, true⟩ false [.bare .priv, .access (.acc .pub) ["x".toList],
        .iface .generic "g".toList ["x".toList] []]).ents.map (fun e => e.procs) = [[⟨"x".toList, .pub⟩]]) ∧
    fortranAccess [.bare .priv, .access (.acc .pub) ["x".toList], .iface .generic "g".toList ["x".toList] []] [] "x".toList
      = .pub := by
  cases d <;> cases early <;> decide

/-- **Same name, same accessibility - repaired deletion order.**  With the repaired `process_attribs` (an
    `attr_dict` entry is forgotten only when the first loop is over) a derived type `n` and the generic interface
    of the same name (constructor idiom) get the *same* accessibility from the access statement naming `n`,
    already when `process_attribs` returns - i.e. in the entity list the export tables (`pub_types`, `pub_procs`)
    are built from, not only after `correlate`.  For every unit (module or submodule), wherever the three
    statements stand, whatever else is declared. -/
theorem constructor_access_statement_repaired (early spec : Bool) (sub : Bool) (stmts : List Stmt) (n : Str)
    (tattrs : List Attr) (body : List TStmt) (ps rs : List Str) (q : Perm)
    (hT : Stmt.typeDef n tattrs body ∈ stmts) (hG : Stmt.iface .generic n ps rs ∈ stmts)
    (hstmt : (entriesFor n (stmtEntries stmts)).filterMap accessWord = [q])
    (hprot : Attr.acc .prot ∉ entriesFor n (stmtEntries stmts)) :
    ∃ t ∈ (runUnit ⟨.afterLoop, early, spec⟩ sub stmts).attr, ∃ g ∈ (runUnit ⟨.afterLoop, early, spec⟩ sub stmts).attr,
      t.cat = .type ∧ t.name = n ∧ g.cat = .iface ∧ g.name = n ∧ t.perm = q ∧ g.perm = q := by
  obtain ⟨pt, it, hTm⟩ := mem_entsFrom stmts (init sub).perm false _ hT
  obtain ⟨pg, ig, hGm⟩ := mem_entsFrom stmts (init sub).perm false _ hG
  obtain ⟨t0, ht0, htc, htn⟩ : ∃ e0 ∈ mkEnts pt pt it (.typeDef n tattrs body), e0.cat = .type ∧ e0.name = n :=
    ⟨_, List.mem_singleton.2 rfl, rfl, rfl⟩
  obtain ⟨g0, hg0, hgc, hgn⟩ : ∃ e0 ∈ mkEnts pg pg ig (.iface .generic n ps rs), e0.cat = .iface ∧ e0.name = n :=
    ⟨_, List.mem_singleton.2 rfl, rfl, rfl⟩
  obtain ⟨ht1, ht2⟩ := afterLoop_same_name early spec sub stmts n q hstmt hprot t0 (hTm _ ht0) (by rw [htc]; decide) htn
  obtain ⟨hg1, hg2⟩ := afterLoop_same_name early spec sub stmts n q hstmt hprot g0 (hGm _ hg0) (by rw [hgc]; decide) hgn
  exact ⟨_, ht1, _, hg1, by simpa using htc, by simpa using htn, by simpa using hgc, by simpa using hgn, ht2, hg2⟩

/-- The same for a generic interface that carries the name of one of its specific module procedures (legal:
    F2018 15.4.3.4.1): with the repaired deletion order the procedure `n` and the generic `n` both get the
    accessibility of the access statement naming `n`. -/
theorem self_named_generic_access_statement_repaired (early spec : Bool) (stmts : List Stmt) (n : Str) (f : Bool)
    (ps rs : List Str) (q : Perm) (pre post : List Stmt)
    (hS : stmts = pre ++ .proc f n :: post) (hc : Stmt.contains ∈ pre)
    (hG : Stmt.iface .generic n ps rs ∈ stmts)
    (hstmt : (entriesFor n (stmtEntries stmts)).filterMap accessWord = [q])
    (hprot : Attr.acc .prot ∉ entriesFor n (stmtEntries stmts)) :
    ∃ t ∈ (runUnit ⟨.afterLoop, early, spec⟩ false stmts).attr, ∃ g ∈ (runUnit ⟨.afterLoop, early, spec⟩ false stmts).attr,
      t.cat = (if f then .func else .sub) ∧ t.name = n ∧ g.cat = .iface ∧ g.name = n ∧ t.perm = q ∧ g.perm = q := by
  obtain ⟨pg, ig, hGm⟩ := mem_entsFrom stmts (init false).perm false _ hG
  obtain ⟨g0, hg0, hgc, hgn⟩ : ∃ e0 ∈ mkEnts pg pg ig (.iface .generic n ps rs), e0.cat = .iface ∧ e0.name = n :=
    ⟨_, List.mem_singleton.2 rfl, rfl, rfl⟩
  have hinc : (false || hasContains pre) = true := by simpa [hasContains] using hc
  obtain ⟨t0, ht0, htc, htn, _⟩ := mkEnts_declares (lastBare (init false).perm pre) (false || hasContains pre) (.proc f n)
    (fun _ => hinc) ((if f then .func else .sub), n, []) (by simp [declares])
  simp only at htc htn
  have ht0' : t0 ∈ entsFrom (init false).perm false stmts := by
    rw [hS, entsFrom_append]
    exact List.mem_append_right _ (mkEnts_sub_entsFrom _ _ _ post t0 ht0)
  obtain ⟨ht1, ht2⟩ := afterLoop_same_name early spec false stmts n q hstmt hprot t0 ht0'
    (by rw [htc]; cases f <;> decide) htn
  obtain ⟨hg1, hg2⟩ := afterLoop_same_name early spec false stmts n q hstmt hprot g0 (hGm _ hg0) (by rw [hgc]; decide) hgn
  exact ⟨_, ht1, _, hg1, by simpa using htc, by simpa using htn, by simpa using hgc, by simpa using hgn, ht2, hg2⟩

/-- **Constructor idiom, constructor step moved before the export tables.**  With the second candidate repair
    (`ctorEarly`) every interface that carries the name of a derived type of the unit has, in the entity list
    the export tables are built from, the permission of a type of that name - whatever gave the type its
    accessibility (attribute, access statement, default) and whatever the deletion order. -/
theorem constructor_export_early (d : DelOrder) (spec : Bool) (sub : Bool) (stmts : List Stmt) :
    ∀ g ∈ (runUnit ⟨d, true, spec⟩ sub stmts).pre, g.cat = .iface →
      (∃ t ∈ (runUnit ⟨d, true, spec⟩ sub stmts).pre, t.cat = .type ∧ t.name = g.name) →
      ∃ t ∈ (runUnit ⟨d, true, spec⟩ sub stmts).pre, t.cat = .type ∧ t.name = g.name ∧ g.perm = t.perm := by
  simp only [runUnit, finish, map_readKids, if_true]
  exact ctorPass_takes_type _

/-- **Known defects (one identifier, two entities; code as it is).**
    (1) `private` / `public :: t` / `type t` / `interface t`: with the per-entity deletion the type takes the
    statement and the interface of the same name never sees it; when `process_attribs` returns the interface is
    still private, so `pub_procs` does not export the constructor `t` although `pub_types` exports the type `t`.
    `correlate` repairs the stored permission afterwards (`ents`), not the export tables.  With the repaired
    deletion order, or with the constructor step before the export tables, both tables export `t`.
    (2) `private` / `public :: s` / `interface s; module procedure s` / `subroutine s`: the subroutine takes the
    statement, the generic `s` stays private - for good (no constructor step), and `pub_procs` exports nothing
    (the interface replaces the procedure under the key `s`).  Repaired deletion order: both public, exported.
    (3) `type, private :: t` / `interface t` in a default-public module: the access attribute reaches the
    constructor only in `correlate`, `pub_procs` exports the private `t`; only moving the constructor step
    before the export tables repairs that. -/
theorem constructor_access_statement_witness :
    ((runUnit asIs false [.bare .priv, .access (.acc .pub) ["t".toList], .typeDef "t".toList [] [],
        .iface .generic "t".toList [] ["f".toList]]).attr.map (fun e => (e.cat, e.perm)) = [(.type, .pub), (.iface, .priv)]) ∧
    ((runUnit asIs false [.bare .priv, .access (.acc .pub) ["t".toList], .typeDef "t".toList [] [],
        .iface .generic "t".toList [] ["f".toList]]).exports = [(.types, "t".toList)]) ∧
    ((runUnit asIs false [.bare .priv, .access (.acc .pub) ["t".toList], .typeDef "t".toList [] [],
        .iface .generic "t".toList [] ["f".toList]]).ents.map (fun e => (e.cat, e.perm)) = [(.type, .pub), (.iface, .pub)]) ∧
    ((runUnit ⟨.afterLoop, false, false⟩ false [.bare .priv, .access (.acc .pub) ["t".toList], .typeDef "t".toList [] [],
        .iface .generic "t".toList [] ["f".toList]]).exports = [(.procs, "t".toList), (.types, "t".toList)]) ∧
    ((runUnit ⟨.perEntity, true, false⟩ false [.bare .priv, .access (.acc .pub) ["t".toList], .typeDef "t".toList [] [],
        .iface .generic "t".toList [] ["f".toList]]).exports = [(.procs, "t".toList), (.types, "t".toList)]) ∧
    ((runUnit asIs false [.bare .priv, .access (.acc .pub) ["s".toList], .iface .generic "s".toList [] ["s".toList],
        .contains, .proc false "s".toList]).ents.map (fun e => (e.cat, e.perm)) = [(.iface, .priv), (.sub, .pub)]) ∧
    ((runUnit asIs false [.bare .priv, .access (.acc .pub) ["s".toList], .iface .generic "s".toList [] ["s".toList],
        .contains, .proc false "s".toList]).exports = []) ∧
    ((runUnit ⟨.afterLoop, false, false⟩ false [.bare .priv, .access (.acc .pub) ["s".toList],
        .iface .generic "s".toList [] ["s".toList], .contains, .proc false "s".toList]).ents.map (fun e => (e.cat, e.perm))
        = [(.iface, .pub), (.sub, .pub)]) ∧
    ((runUnit ⟨.afterLoop, false, false⟩ false [.bare .priv, .access (.acc .pub) ["s".toList],
        .iface .generic "s".toList [] ["s".toList], .contains, .proc false "s".toList]).exports = [(.procs, "s".toList)]) ∧
    ((runUnit ⟨.afterLoop, false, false⟩ false [.typeDef "t".toList [.acc .priv] [], .iface .generic "t".toList [] ["f".toList]]).exports
        = [(.procs, "t".toList)]) ∧
    ((runUnit ⟨.afterLoop, true, false⟩ false [.typeDef "t".toList [.acc .priv] [], .iface .generic "t".toList [] ["f".toList]]).exports
        = []) := by
  decide

/-- **What the module hands to other scopes.**  The export tables `pub_vars`, `pub_types`, `pub_absints` (built in
    `_cleanup` from the permissions `process_attribs` left; what every `use` of the module receives) list a
    variable / named constant / derived type / abstract interface exactly when Fortran makes it accessible - under
    the hypotheses of `access_correct_partial` (in particular outside the late-bare-private class), in every variant.
    (`pub_procs` is a dict keyed by name into which interfaces and interface bodies are merged; it is compared
    with the implementation on every run and has the witnesses above, no theorem.) -/
theorem export_correct_partial (v : Variant) (pre post : List Stmt) (d : Stmt) (c : Cat) (n : Str) (attrs : List Attr)
    (hx : (c, n, attrs) ∈ declares d)
    (hnames : NamesOnce (pre ++ d :: post))
    (hbare : BareLegal (pre ++ d :: post))
    (hproc : isProc d = true → Stmt.contains ∈ pre)
    (hone : OneAccessSpec (pre ++ d :: post) attrs n)
    (hprot : hasProtected (pre ++ d :: post) attrs n = false)
    (hlate : ¬ LateDefault (pre ++ d :: post) post attrs n)
    (htab : tabOf c ≠ .procs) :
    (tabOf c, n) ∈ (runUnit v false (pre ++ d :: post)).exports ↔ fortranAccess (pre ++ d :: post) attrs n ≠ .priv := by
  obtain ⟨e, he, hc, hn, hp⟩ := access_correct_partial v pre post d c n attrs hx hnames hbare hproc hone hprot hlate
  have hnd := runUnit_ents_nodup v false _ hnames
  have hex : (runUnit v false (pre ++ d :: post)).exports = exportsOf (runUnit v false (pre ++ d :: post)).ents := by
    rw [← runUnit_pre v false _ hnames]; rfl
  rw [hex, mem_exportsOf_nonprocs _ _ _ htab]
  have hval : fortranAccess (pre ++ d :: post) attrs n = .priv ∨ fortranAccess (pre ++ d :: post) attrs n = .pub := by
    unfold fortranAccess
    rw [hprot]
    split <;> simp
  constructor
  · rintro ⟨e', he', _, hn', hp'⟩
    have := eq_of_nodup_map (·.name) _ hnd e' e he' he (by rw [hn', hn])
    subst this
    rw [hp] at hp'
    intro hpriv
    rw [hpriv] at hp'
    revert hp'; decide
  · intro hne
    refine ⟨e, he, by rw [hc], hn, ?_⟩
    rw [hp]
    rcases hval with h | h
    · exact absurd h hne
    · rw [h]; decide

/-- **Components.**  In any derived-type definition whose component part is `pre ++ [component declaration] ++ ...`
    (the `private` statement, if any, standing before the components as the syntax requires), every declared
    component gets its own access-spec, else PRIVATE iff the component part has a `private` statement -
    whatever the type's own accessibility `self` and whatever the enclosing module's default: the default of the
    components is tracked separately. -/
theorem component_access_correct (self : Perm) (pre post : List TStmt) (ns : List Str) (attrs : List Attr)
    (hpre : TStmt.contains ∉ pre)
    (hbare : ∀ q, TStmt.bare q ∈ pre → q = .priv)
    (hpost : ∀ q, TStmt.bare q ∉ post.takeWhile (· ≠ .contains))
    (hone : (attrs.filterMap accessWord).length ≤ 1) (hprot : Attr.acc .prot ∉ attrs) :
    ∀ n ∈ ns, (⟨n, componentAccess (pre ++ .comp ns attrs :: post) attrs⟩ : Kid) ∈
      (runType self (pre ++ .comp ns attrs :: post)).comps := by
  intro n hn
  simp only [runType, List.foldl_append, List.foldl_cons]
  apply (tfold_mono self post _).1
  have hs := tfold_nocontains self pre tinit hpre
  simp only [tstep, List.mem_append, List.mem_map]
  right
  refine ⟨n, hn, ?_⟩
  have hspec : componentAccess (pre ++ .comp ns attrs :: post) attrs =
      (explicitOf attrs).getD (tlast typeChildInit pre) := by
    unfold componentAccess compPart
    rw [takeWhile_append_all _ pre _ (ne_contains_of_not_mem hpre)]
    simp only [List.takeWhile_cons, ne_eq, reduceCtorEq, not_false_eq_true, decide_true, if_true]
    rw [partDefault_eq, tlast_priv pre _ hbare]
    by_cases hp : TStmt.bare .priv ∈ pre
    · rw [if_pos (List.mem_append_left _ hp), if_pos hp]
    · rw [if_neg hp, if_neg]
      · rfl
      · intro h
        rcases List.mem_append.1 h with h | h
        · exact hp h
        · rcases List.mem_cons.1 h with h | h
          · cases h
          · exact hpost .priv h
  rw [hspec, hs.1]
  congr 1
  simp only [pick, srcVariables, tinit]
  exact declPerm_spec _ (by decide) (by decide) attrs _ hone hprot

/-- **Bindings.**  The binding part starts afresh at CONTAINS: a `private` statement of the component part does
    not leak into it, and a `private` after CONTAINS makes exactly the bindings without access-spec private.
    For `procedure :: a, b, c` all names, for `generic :: g => ...` the generic name. -/
theorem binding_access_correct (self : Perm) (pre mid post : List TStmt) (g : Bool) (ns : List Str) (attrs : List Attr)
    (hpre : TStmt.contains ∉ pre) (hmid : TStmt.contains ∉ mid)
    (hbare : ∀ q, TStmt.bare q ∈ mid → q = .priv)
    (hpost : ∀ q, TStmt.bare q ∉ post.takeWhile (· ≠ .contains))
    (hone : (attrs.filterMap accessWord).length ≤ 1) (hprot : Attr.acc .prot ∉ attrs) :
    ∀ n ∈ (if g then ns.take 1 else ns),
      (⟨n, bindingAccess (pre ++ .contains :: (mid ++ .bind g ns attrs :: post)) attrs⟩ : Kid) ∈
      (runType self (pre ++ .contains :: (mid ++ .bind g ns attrs :: post))).binds := by
  intro n hn
  simp only [runType, List.foldl_append, List.foldl_cons]
  apply (tfold_mono self post _).2
  have hs := tfold_nocontains self pre tinit hpre
  have hinc : (pre.foldl (tstep self) tinit).incontains = false := by rw [hs.2]; rfl
  have hs2 := tfold_nocontains self mid (tstep self (pre.foldl (tstep self) tinit) .contains) hmid
  have hc : (tstep self (pre.foldl (tstep self) tinit) .contains).child = containsReset ∧
      (tstep self (pre.foldl (tstep self) tinit) .contains).incontains = true := by
    simp [tstep, hinc]
  rw [hc.1] at hs2
  have hi2 := hs2.2
  rw [hc.2] at hi2
  have hchild := hs2.1
  generalize List.foldl (tstep self) (tstep self (List.foldl (tstep self) tinit pre) TStmt.contains) mid = s3 at *
  have hb : (tstep self s3 (.bind g ns attrs)).binds = s3.binds ++
      (if g || ns.length == 1 then ns.take 1 else ns.reverse).map
        (fun n => (⟨n, declPerm bindAttrWords (pick self s3.child srcBoundProc) attrs⟩ : Kid)) := by
    simp [tstep, hi2]
  rw [hb]
  apply List.mem_append_right
  apply List.mem_map.2
  refine ⟨n, ?_, ?_⟩
  · by_cases hg : g = true
    · simpa [hg] using hn
    · simp only [hg, if_false, Bool.false_eq_true] at hn
      by_cases hl : ns.length = 1
      · have : ns.take 1 = ns := List.take_of_length_le (by omega)
        simp [hl, this, hn]
      · simp [hg, hl, hn]
  · have hspec : bindingAccess (pre ++ .contains :: (mid ++ .bind g ns attrs :: post)) attrs =
        (explicitOf attrs).getD (tlast containsReset mid) := by
      unfold bindingAccess bindPart
      rw [dropWhile_append_stop _ pre .contains _ (ne_contains_of_not_mem hpre) (by simp)]
      simp only [List.drop_succ_cons, List.drop_zero]
      rw [takeWhile_append_all _ mid _ (ne_contains_of_not_mem hmid)]
      simp only [List.takeWhile_cons, ne_eq, reduceCtorEq, not_false_eq_true, decide_true, if_true]
      rw [partDefault_eq, tlast_priv mid _ hbare]
      by_cases hp : TStmt.bare .priv ∈ mid
      · rw [if_pos (List.mem_append_left _ hp), if_pos hp]
      · rw [if_neg hp, if_neg]
        · rfl
        · intro h
          rcases List.mem_append.1 h with h | h
          · exact hp h
          · rcases List.mem_cons.1 h with h | h
            · cases h
            · exact hpost .priv h
    rw [hspec, hchild]
    congr 1
    simp only [pick, srcBoundProc]
    exact declPerm_spec bindAttrWords (by decide) (by decide) attrs _ hone hprot

/-- Non-vacuity / worked instance: private components, public bindings, one binding made private. -/
example :
    ((runType .priv [.bare .priv, .comp ["c".toList] [], .comp ["d".toList] [.acc .pub], .contains,
        .bind false ["a".toList, "b".toList] [], .bind false ["p".toList] [.acc .priv]]).comps,
     (runType .priv [.bare .priv, .comp ["c".toList] [], .comp ["d".toList] [.acc .pub], .contains,
        .bind false ["a".toList, "b".toList] [], .bind false ["p".toList] [.acc .priv]]).binds)
    = ([⟨"c".toList, .priv⟩, ⟨"d".toList, .pub⟩],
       [⟨"b".toList, .pub⟩, ⟨"a".toList, .pub⟩, ⟨"p".toList, .priv⟩]) := by
  decide


/-- **Private types stay private.**  A type declared `type, private :: t` (and, legally, not named in an access
    statement) is private whatever the module default is and wherever a bare `public`/`private` stands -
    the late-default defect cannot touch it. -/
theorem private_type_stays_private (v : Variant) (pre post : List Stmt) (n : Str) (attrs : List Attr) (body : List TStmt)
    (hattr : explicitOf attrs = some .priv)
    (hnames : NamesOnce (pre ++ .typeDef n attrs body :: post))
    (hbare : BareLegal (pre ++ .typeDef n attrs body :: post))
    (hone : OneAccessSpec (pre ++ .typeDef n attrs body :: post) attrs n)
    (hprot : hasProtected (pre ++ .typeDef n attrs body :: post) attrs n = false) :
    ∃ e ∈ (runUnit v false (pre ++ .typeDef n attrs body :: post)).ents, e.cat = .type ∧ e.name = n ∧ e.perm = .priv := by
  obtain ⟨e, he, hc, hn, hp⟩ := access_correct_partial v pre post (.typeDef n attrs body) .type n attrs
    (by simp [declares]) hnames hbare (by intro h; cases h) hone hprot (by intro h; have h2 := h.2.1; rw [hattr] at h2; cases h2)
  refine ⟨e, he, hc, hn, ?_⟩
  rw [hp]
  simp [fortranAccess, hattr]

/-- The constructor idiom (an interface named like the type): the interface takes the type's permission in
    `correlate`, the type keeps its own. -/
example :
    (runUnit asIs false [.bare .priv, .typeDef "t".toList [.acc .pub] [], .iface .generic "t".toList [] ["f".toList]]).ents.map
      (fun e => (e.cat, e.perm)) = [(.type, .pub), (.iface, .pub)] := by decide

/-- **The generated tables have the shape the proofs use** (re-checked by the kernel whenever
    ford/sourceform.py changes): `process_attribs` visits every entity list exactly once, every word list
    recognises `public` and `private`, variables and bindings inherit the *child* permission, the other
    constructors the container's own, a type's children start public and restart public at CONTAINS, a
    submodule starts private, a bare statement updates both permissions; the variables' loop of `process_attribs`
    comes last; public and protected entities are exported; a procedure reads its parent's permission exactly
    when the parent is a non-generic interface (not for a generic interface, not for a module). -/
theorem generated_tables_sound :
    attribPasses.Nodup ∧ (∀ c : Cat, c ∈ attribPasses) ∧
    (∀ w ∈ [bareWords, varAttrWords, typeAttrWords, bindAttrWords, applyWords, applyVarWords],
        Perm.pub ∈ w ∧ Perm.priv ∈ w) ∧
    srcVariables = .child ∧ srcBoundProc = .child ∧
    srcType = .self ∧ srcInterface = .self ∧ srcSubroutine = .self ∧ srcFunction = .self ∧
    typeChildInit = .pub ∧ containsReset = .pub ∧ submoduleInit = .priv ∧ moduleInit = .pub ∧
    bareSetsChild = true ∧ bareSetsSelf = true ∧ publicWord = .pub ∧
    attribPasses = itemPasses ++ [.var] ∧ exportWords = [.pub, .prot] ∧
    readWrapper = true ∧ readGeneric = false ∧ readModule = false := by
  refine ⟨by decide, fun c => by cases c <;> decide, by decide, ?_⟩
  decide


/-! ## Name keying: "an access statement naming the entity" reaches it however either is written -/

/-- **Declaration side.**  For every entity list of a type declaration statement written in any of the ways
    F2018 R803 allows - each object name in any letter case, blanks before and after it, followed by nothing, an
    array-spec `(..)`, a coarray-spec `[..]`, a char-length `*..` or an initialisation `= ..` / `=> ..` with
    arbitrary (balanced) text - the keys under which `process_attribs` looks the declared variables up in
    `attr_dict` are exactly the lower-cased names, in order.  The hypotheses are literal Fortran syntax; the proof
    rests on the *measured* tables `declDropChars` and `cutChars` (it breaks when the code stops removing the
    blanks of an entity-decl or stops cutting the name at `(`, `[`, `*`). -/
theorem declared_name_key (ds : List DeclSp) (hne : ds ≠ []) (h : ∀ d ∈ ds, d.Ok) :
    declKeys (joinSep ',' (ds.map DeclSp.text)) = ds.map (fun d => lower d.name) :=
  declKeys_spelled ds hne h

/-- non-vacuity: `Grid (10, 10) = 0`, ` label *8`, `nlev (2) = [1, 2]`, `co [*]`, `p => null()` are such spellings,
    and the model computes the keys `grid`, `label`, `nlev`, `co`, `p` for the list written in one statement -/
example :
    (∀ d ∈ [(⟨0, chars! "Grid", 1, chars! "(10, 10) = 0"⟩ : DeclSp), ⟨1, chars! "label", 1, chars! "*8"⟩,
      ⟨1, chars! "nlev", 1, chars! "(2) = [1, 2]"⟩, ⟨0, chars! "co", 1, chars! "[*]"⟩,
      ⟨1, chars! "p", 1, chars! "=> null()"⟩], d.Ok)
    ∧ declKeys (chars! "Grid (10, 10) = 0, label *8, nlev (2) = [1, 2],co [*], p => null()")
      = [chars! "grid", chars! "label", chars! "nlev", chars! "co", chars! "p"] := by
  decide

/-- **Statement side.**  The name list of an attribute statement (`public :: A , b,C`), every name in any letter
    case with blanks around it, is filed in `attr_dict` under the lower-cased names - with and without the
    candidate repair of the generic-spec keys. -/
theorem statement_name_key (g : Bool) (ns : List NameSp) (hne : ns ≠ []) (h : ∀ d ∈ ns, IsIdent d.name) :
    stmtKeys g (joinSep ',' (ns.map NameSp.text)) = ns.map (fun d => lower d.name) :=
  stmtKeys_spelled g ns hne h

/-- **The spelling is irrelevant.**  A specification part written in any spelling (`SpellsAll`: declarations as in
    `declared_name_key`, attribute statements as in `statement_name_key`, generic names in any letter case) gives
    the same result - permissions of all entities, components, bindings, `public_list`, export tables - as its
    canonical form with lower-cased names.  Hence every theorem of this file that is stated for abstract programs
    holds for the program as it is written. -/
theorem spelling_irrelevant (v : Variant) (g sub : Bool) (rs : List RStmt) (ss : List Stmt) (h : SpellsAll rs ss) :
    runRaw v g sub rs = runUnit v sub ss := by
  unfold runRaw
  rw [keyed_spells_list g rs ss h]

/-- **Module-level entities as written** (`access_correct_partial` carried over to the source text): whenever the
    statements `rs` spell the specification part `pre ++ d :: post`, the permission FORD ends up with for every entity
    `d` declares is Fortran's accessibility - same hypotheses, same explicit exclusion. -/
theorem access_correct_as_written_partial (v : Variant) (g : Bool) (rs : List RStmt) (pre post : List Stmt) (d : Stmt)
    (c : Cat) (n : Str) (attrs : List Attr)
    (hs : SpellsAll rs (pre ++ d :: post))
    (hx : (c, n, attrs) ∈ declares d)
    (hnames : NamesOnce (pre ++ d :: post))
    (hbare : BareLegal (pre ++ d :: post))
    (hproc : isProc d = true → Stmt.contains ∈ pre)
    (hone : OneAccessSpec (pre ++ d :: post) attrs n)
    (hprot : hasProtected (pre ++ d :: post) attrs n = false)
    (hlate : ¬ LateDefault (pre ++ d :: post) post attrs n) :
    ∃ e ∈ (runRaw v g false rs).ents, e.cat = c ∧ e.name = n ∧
      e.perm = fortranAccess (pre ++ d :: post) attrs n := by
  rw [spelling_irrelevant v g false rs _ hs]
  exact access_correct_partial v pre post d c n attrs hx hnames hbare hproc hone hprot hlate

/-- non-vacuity of `SpellsAll`: `private` / `PUBLIC :: Grid , nlev` / `real :: grid (10, 10), NLEV(2) = 0` spells the
    canonical program, and FORD's mechanism reports both variables public -/
example :
    SpellsAll
      [.plain (.bare .priv), .accessR (.acc .pub) (chars! "Grid , nlev"),
       .varR (chars! "grid (10, 10), NLEV(2) = 0") []]
      [.bare .priv, .access (.acc .pub) [chars! "grid", chars! "nlev"], .var [chars! "grid", chars! "nlev"] []]
    ∧ ((runRaw asIs false false
      [.plain (.bare .priv), .accessR (.acc .pub) (chars! "Grid , nlev"),
       .varR (chars! "grid (10, 10), NLEV(2) = 0") []]).ents.map (fun e => (e.name, e.perm)))
      = [(chars! "grid", Perm.pub), (chars! "nlev", Perm.pub)] := by
  refine ⟨.cons (.plain _) (.cons ?_ (.cons ?_ .nil)), by decide⟩
  · exact Spells.access (.acc .pub) [⟨0, chars! "Grid", 1⟩, ⟨1, chars! "nlev", 0⟩] (by decide) (by decide)
  · exact Spells.var [⟨0, chars! "grid", 1, chars! "(10, 10)"⟩, ⟨1, chars! "NLEV", 0, chars! "(2) = 0"⟩] []
      (by decide) (by decide)

/-- **Known defect (generic-spec written with other blanks).**  `private` / `public :: operator (+)` /
    `interface operator(+)`: the statement is filed under `operator (+)`, the interface looked up under
    `operator(+)`; the operator stays private (Fortran: public) and the unknown key ends in `public_list`.  With the
    candidate repair (`g = true`: a key containing `(` loses its blanks on both sides) it is public.  The same
    spelling on both sides works either way. -/
theorem generic_spec_spelling_witness (v : Variant) :
    let prog := fun (s i : Str) => [RStmt.plain (.bare .priv), .accessR (.acc .pub) s, .genericR i [] [chars! "f"]]
    ((runRaw v false false (prog (chars! "operator (+)") (chars! "operator(+)"))).ents.map (·.perm) = [.priv])
    ∧ ((runRaw v true false (prog (chars! "operator (+)") (chars! "operator(+)"))).ents.map (·.perm) = [.pub])
    ∧ ((runRaw v false false (prog (chars! "Operator (+)") (chars! "OPERATOR (+)"))).ents.map (·.perm) = [.pub])
    ∧ fortranAccess [.bare .priv, .access (.acc .pub) [chars! "operator(+)"],
        .iface .generic (chars! "operator(+)") [] [chars! "f"]] [] (chars! "operator(+)") = .pub := by
  obtain ⟨d, e, s⟩ := v
  cases d <;> cases e <;> cases s <;> decide

/-- **Generic-specs, repaired keying.**  With the candidate repair the key under which an attribute statement files a
    generic-spec and the key under which the interface of that generic-spec is looked up coincide whenever the two
    spellings differ only in blanks and letter case. -/
theorem generic_spec_key_repaired (a b : Str) (hp : '(' ∈ a)
    (h : (lower a).filter (fun c => !isSpace c) = (lower b).filter (fun c => !isSpace c)) :
    nameKey true a = ifaceKey true b :=
  generic_key_repaired a b hp h

/-- the measured character tables of the name keying say what the theorems above use: an entity-decl loses its
    blanks (and nothing else), a name ends at `(`, `*`, `[`, and `paren_split` nests on exactly the two bracket
    pairs the shared model `Ford.parenSplit` has built in. -/
theorem name_tables_sound :
    declDropChars = [' '] ∧ cutChars = ['(', '*', '['] ∧ splitLevelChars = ['(', ')', '[', ']']
    ∧ splitPairs = [('(', ')'), (')', '('), ('[', ']'), (']', '[')] := by
  decide

/-! ## Round 5: PROTECTED + access statement, implementations of separate module procedures -/

/-- **The measured transition tables say "a recognised word overwrites".**  The translator runs the real
    `process_attribs` on an entity of every list that already has the permission `cur` and is named in a statement
    `w :: name`, for all `cur`, `w` (`itemTrans` for procedures, types, interfaces; `varTrans` for variables).
    The model's application step (`applyAttrs` on one entry) reproduces every measured triple, and the tables cover
    every pair (for the item lists: every pair whose `cur` is `public` or `private`).  A guard such as "a protected
    variable keeps its permission" changes `varTrans` and breaks this theorem. -/
theorem apply_tables_sound (n : Str) :
    (∀ x ∈ varTrans, applyAttrs (wordsFor .var) n x.1 [(n, .acc x.2.1)] = x.2.2) ∧
    (∀ c : Cat, c ≠ .var → ∀ x ∈ itemTrans, applyAttrs (wordsFor c) n x.1 [(n, .acc x.2.1)] = x.2.2) ∧
    (∀ cur w : Perm, (cur, w) ∈ varTrans.map (fun x => (x.1, x.2.1))) ∧
    (∀ cur w : Perm, cur ≠ .prot → (cur, w) ∈ itemTrans.map (fun x => (x.1, x.2.1))) := by
  refine ⟨?_, ?_, ?_, ?_⟩
  · intro x hx
    rw [applyAttrs_single]
    revert x; decide
  · intro c hc x hx
    rw [applyAttrs_single]
    have hw : wordsFor c = applyWords := by simp [wordsFor, hc]
    rw [hw]
    revert x; decide
  · intro cur w; cases cur <;> cases w <;> decide
  · intro cur w h; cases cur <;> cases w <;> first | decide | exact absurd rfl h

/-- **An explicit `private` in an access statement wins - PROTECTED or not.**  A module variable declared without an
    access-spec (its declaration may carry `protected` and anything else), named in exactly one access statement,
    `private :: n`, which is the last attribute statement naming it (`protected :: n`, `save :: n` ... may stand
    before it): FORD's mechanism reports it `private`, which is Fortran's accessibility - wherever the statements
    stand relative to the declaration, whatever the module default, in every variant.  (With the attribute
    statements in the other order the result is the known defect `C04-protected-overrides-private`.) -/
theorem private_statement_on_protected_variable (v : Variant) (pre post : List Stmt) (ns : List Str) (attrs : List Attr)
    (n : Str) (ws : List Attr) (hn : n ∈ ns)
    (hnames : NamesOnce (pre ++ .var ns attrs :: post))
    (hattr : attrs.filterMap accessWord = [])
    (hstmt : stmtWords (pre ++ .var ns attrs :: post) n = ws ++ [.acc .priv])
    (hone : ws.filterMap accessWord = []) :
    (∃ e ∈ (runUnit v false (pre ++ .var ns attrs :: post)).ents, e.cat = .var ∧ e.name = n ∧ e.perm = .priv) ∧
    fortranAccess (pre ++ .var ns attrs :: post) attrs n = .priv := by
  have hst : entriesFor n (stmtEntries (pre ++ .var ns attrs :: post)) = ws ++ [.acc .priv] := hstmt
  constructor
  · obtain ⟨e0, he0, hc0, hn0, _⟩ :=
      mkEnts_declares (lastBare (init false).perm pre) (false || hasContains pre) (.var ns attrs)
        (by intro h; cases h) (.var, n, attrs) (by simp only [declares, List.mem_map]; exact ⟨n, hn, rfl⟩)
    simp only at hc0 hn0
    refine ⟨upd (stmtEntries (pre ++ .var ns attrs :: post))
      (specUpd v.specLoop (stmtEntries (pre ++ .var ns attrs :: post)) e0), ?_, by simpa using hc0, by simpa using hn0, ?_⟩
    · rw [runUnit_ents v false _ hnames, entsFrom_append]
      exact List.mem_map.2 ⟨e0, List.mem_append_right _ (mkEnts_sub_entsFrom _ _ _ post e0 he0), rfl⟩
    · simp only [upd, specUpd_cat, specUpd_name, specUpd_perm, hc0, hn0, applyAttrs_eq_declPerm, hst]
      exact declPerm_append_acc _ _ (by decide) ws _
  · have h1 : explicitOf attrs = none := by rw [explicitOf_eq_head, hattr]; rfl
    have h2 : stmtAccess (pre ++ .var ns attrs :: post) n = some .priv := by
      rw [stmtAccess_eq, hst, explicitOf_eq_head, List.filterMap_append, hone]; rfl
    simp [fortranAccess, h1, h2]

/-- worked instances: `integer, protected :: v` + `private :: v` (either order), and `protected :: v` before
    `private :: v`: private in FORD's mechanism and in Fortran -/
example :
    ((runUnit asIs false [.var [chars! "v"] [.acc .prot], .access (.acc .priv) [chars! "v"]]).ents.map (·.perm) = [.priv]) ∧
    ((runUnit asIs false [.access (.acc .priv) [chars! "v"], .var [chars! "v"] [.acc .prot]]).ents.map (·.perm) = [.priv]) ∧
    ((runUnit asIs false [.var [chars! "v"] [], .access (.acc .prot) [chars! "v"], .access (.acc .priv) [chars! "v"]]).ents.map
      (·.perm) = [.priv]) ∧
    fortranAccess [.var [chars! "v"] [.acc .prot], .access (.acc .priv) [chars! "v"]] [.acc .prot] (chars! "v") = .priv := by
  decide

/-- **Implementations in a submodule stay private (short form).**  The body of a separate module procedure written
    `module procedure f ... end procedure` in a submodule - which cannot contain a bare access statement - is
    reported private after `correlate`, **whatever the accessibility of the interface body `f` in the ancestor
    module** (`host`, arbitrary) and whatever else the submodule declares: nothing in a submodule is accessible by
    use association.  Rests on the measured `implShortTakesIface = false` (does `correlate` hand the interface's
    permission to the implementation?) and `submoduleInit = private`. -/
theorem submodule_implementations_private (v : Variant) (g : Bool) (host : List (Str × Perm)) (xs : List XStmt)
    (h : ∀ r, XStmt.stmt r ∈ xs → ∀ q, keyed g r ≠ .bare q) :
    ∀ k ∈ (runX v g true host xs).impls, k.perm = .priv := by
  intro k hk
  simp only [runX, List.mem_map] at hk
  obtain ⟨k0, hk0, rfl⟩ := hk
  have := implsFrom_const g (init true).perm xs h k0 hk0
  simp only [takeHost, implShortTakesIface, Bool.false_eq_true, if_false]
  rw [this]; rfl

/-- **Implementations in a submodule stay private (long form)** - and so does every other entity: in a submodule
    written without access statements and attributes, every entity of its lists, the implementations
    `module subroutine f` / `module function f` among its procedures, is private after `correlate`, whatever the
    ancestor module says about `f` (`implLongTakesIface = false`). -/
theorem submodule_entities_private_after_correlate (v : Variant) (g : Bool) (host : List (Str × Perm)) (stmts : List Stmt)
    (h : AccessFree stmts) :
    ∀ e ∈ (runX v g true host ((stmts.map RStmt.plain).map XStmt.stmt)).out.ents, e.perm = .priv := by
  intro e he
  simp only [runX, xstmts_map_stmt, runRaw, map_keyed_plain, List.mem_map] at he
  obtain ⟨e0, he0, rfl⟩ := he
  have h0 := submodule_entities_private v stmts h e0 he0
  unfold hostEnt
  split
  · simp only [takeHost, implLongTakesIface, Bool.false_eq_true, if_false]; exact h0
  · exact h0

/-- non-vacuity: interface `f` public in the ancestor module, a submodule with a variable, the long-form
    implementation `g` and the short-form implementation `f`: all private -/
example :
    ((runX asIs false true [(chars! "f", .pub), (chars! "g", .pub)]
        [.stmt (.plain (.var [chars! "v"] [])), .stmt (.plain .contains), .impl (chars! "f"),
         .stmt (.plain (.proc false (chars! "g")))]).impls = [⟨chars! "f", .priv⟩]) ∧
    ((runX asIs false true [(chars! "f", .pub), (chars! "g", .pub)]
        [.stmt (.plain (.var [chars! "v"] [])), .stmt (.plain .contains), .impl (chars! "f"),
         .stmt (.plain (.proc false (chars! "g")))]).out.ents.map (fun e => (e.name, e.perm))
      = [(chars! "v", .priv), (chars! "g", .priv)]) := by
  decide

/-- the measured truth table of `correlate`'s metadata step: neither form of implementation takes the accessibility
    of its interface -/
theorem implementation_tables_sound : implShortTakesIface = false ∧ implLongTakesIface = false := by
  decide

/-! ### round 6 - the body of a separate module procedure in the module of its own interface -/

/-- **One entity, one accessibility (long form).**  The body of a separate module procedure may stand in the
    module that declares its interface body; FORD then keeps two objects for the one entity: the interface entry
    (`interface ... module subroutine n ... end interface`, in `interfaces`) and the procedure `module subroutine n`
    / `module function n` (in `subroutines` / `functions`).  With the deletion order of the code as it is
    (`afterLoop`: an `attr_dict` entry outlives the first entity of its name), for **every** module
    `pre ++ [body of n] ++ post` whose specification part declares `n` in a plain interface block and whose
    access statements give `n` exactly one access word `q` - wherever the statement stands, whatever the module
    default is, whatever else is declared -: when `process_attribs` returns, the body and the interface entry both
    report `q`, and `q` is what Fortran says (`fortranAccess`).  A guard that keeps the attribute statements away
    from procedures with the MODULE prefix contradicts this theorem (and changes the measured `sepBodyTrans`). -/
theorem own_module_body_access_statement (early spec : Bool) (stmts : List Stmt) (n : Str) (f : Bool)
    (nm : Str) (ps rs : List Str) (q : Perm) (pre post : List Stmt)
    (hS : stmts = pre ++ .proc f n :: post) (hc : Stmt.contains ∈ pre)
    (hI : Stmt.iface .plain nm ps rs ∈ stmts) (hn : n ∈ ps)
    (hstmt : (entriesFor n (stmtEntries stmts)).filterMap accessWord = [q])
    (hprot : Attr.acc .prot ∉ entriesFor n (stmtEntries stmts)) :
    (∃ b ∈ (runUnit ⟨.afterLoop, early, spec⟩ false stmts).attr, ∃ i ∈ (runUnit ⟨.afterLoop, early, spec⟩ false stmts).attr,
      b.cat = (if f then .func else .sub) ∧ b.name = n ∧ i.cat = .iface ∧ i.wrapper = true ∧ i.name = n ∧
      b.perm = q ∧ i.perm = q) ∧ fortranAccess stmts [] n = q := by
  refine ⟨?_, fortranAccess_one stmts n q hstmt hprot⟩
  obtain ⟨pg, ig, hGm⟩ := mem_entsFrom stmts (init false).perm false _ hI
  obtain ⟨g0, hg0, hgc, hgw, hgn⟩ : ∃ e0 ∈ mkEnts pg pg ig (.iface .plain nm ps rs),
      e0.cat = .iface ∧ e0.wrapper = true ∧ e0.name = n :=
    ⟨_, List.mem_map.2 ⟨n, hn, rfl⟩, rfl, rfl, rfl⟩
  have hinc : (false || hasContains pre) = true := by simpa [hasContains] using hc
  obtain ⟨t0, ht0, htc, htn, _⟩ := mkEnts_declares (lastBare (init false).perm pre) (false || hasContains pre) (.proc f n)
    (fun _ => hinc) ((if f then .func else .sub), n, []) (by simp [declares])
  simp only at htc htn
  have ht0' : t0 ∈ entsFrom (init false).perm false stmts := by
    rw [hS, entsFrom_append]
    exact List.mem_append_right _ (mkEnts_sub_entsFrom _ _ _ post t0 ht0)
  obtain ⟨ht1, ht2⟩ := afterLoop_same_name early spec false stmts n q hstmt hprot t0 ht0'
    (by rw [htc]; cases f <;> decide) htn
  obtain ⟨hg1, hg2⟩ := afterLoop_same_name early spec false stmts n q hstmt hprot g0 (hGm _ hg0) (by rw [hgc]; decide) hgn
  refine ⟨_, ht1, _, hg1, by simpa using htc, by simpa using htn, by simpa using hgc, ?_, by simpa using hgn, ht2, hg2⟩
  cases spec <;> simpa [upd, specUpd] using hgw

/-- worked instance (non-vacuity): default-private module, `public :: solve`, interface bodies `solve` and `setup`,
    both bodies in the module: `solve` public on both objects, `setup` private on both, and the module hands
    exactly `solve` to its users -/
example :
    (let o := runUnit ⟨.afterLoop, true, true⟩ false
        [.bare .priv, .access (.acc .pub) [chars! "solve"], .iface .plain [] [chars! "solve", chars! "setup"] [],
         .contains, .proc false (chars! "solve"), .proc false (chars! "setup")]
     (o.ents.map (fun e => (e.cat, e.name, e.perm)), o.exports))
    = ([(.iface, chars! "solve", .pub), (.iface, chars! "setup", .priv), (.sub, chars! "solve", .pub),
        (.sub, chars! "setup", .priv)], [(.procs, chars! "solve")]) := by
  decide

/-- **Why the deletion order matters here (code before the constructor repair).**  With `perEntity` the procedure -
    first in `process_attribs`' order - takes the statement and deletes it: the interface entry of the same entity
    keeps the module default, and, being the later entry of `all_procs`, keeps the public procedure out of
    `pub_procs`.  With `afterLoop` both are public and the procedure is exported.  Fortran: public. -/
theorem own_module_body_deletion_order_witness :
    let prog : List Stmt := [.bare .priv, .access (.acc .pub) [chars! "f"], .iface .plain [] [chars! "f"] [],
      .contains, .proc false (chars! "f")]
    ((runUnit asIs false prog).ents.map (fun e => (e.cat, e.perm)) = [(.iface, .priv), (.sub, .pub)]) ∧
    (runUnit asIs false prog).exports = [] ∧
    ((runUnit ⟨.afterLoop, false, false⟩ false prog).ents.map (fun e => (e.cat, e.perm)) = [(.iface, .pub), (.sub, .pub)]) ∧
    (runUnit ⟨.afterLoop, false, false⟩ false prog).exports = [(.procs, chars! "f")] ∧
    fortranAccess prog [] (chars! "f") = .pub := by
  decide

/-- **Known defect (short-form body in the module of its interface).**  `private` / `public :: f` /
    `interface; module subroutine f` / `contains` / `module procedure f`: the body (`modprocedures`, a list
    `process_attribs` never walks) keeps the module default `private` although the entity is public, while the
    interface entry is public; the other way round for `private :: f` in a default-public module.  With the
    candidate repair (`implAttr`, fixes/C04-own-module-short-body.diff) the body takes the statement's word. -/
theorem own_module_short_body_witness (v : Variant) (g : Bool) :
    let prog (d w : Perm) : List XStmt :=
      [.stmt (.plain (.bare d)), .stmt (.plain (.access (.acc w) [chars! "f"])),
       .stmt (.plain (.iface .plain [] [chars! "f"] [])), .stmt (.plain .contains), .impl (chars! "f")]
    (runXI v g false false [] (prog .priv .pub)).impls = [⟨chars! "f", .priv⟩] ∧
    (runXI v g false false [] (prog .pub .priv)).impls = [⟨chars! "f", .pub⟩] ∧
    (runXI v g false true [] (prog .priv .pub)).impls = [⟨chars! "f", .pub⟩] ∧
    (runXI v g false true [] (prog .pub .priv)).impls = [⟨chars! "f", .priv⟩] ∧
    ((runXI v g false false [] (prog .priv .pub)).out.ents.map (fun e => (e.cat, e.perm)) = [(.iface, .pub)]) ∧
    fortranAccess [.bare .priv, .access (.acc .pub) [chars! "f"], .iface .plain [] [chars! "f"] [], .contains] []
      (chars! "f") = .pub := by
  obtain ⟨d, e, sp⟩ := v
  cases d <;> cases e <;> cases sp <;> cases g <;> decide

/-- **Short-form body, repaired.**  With the loop over `modprocedures` (`implAttr`), for every module (any variant,
    any host, any other statements, the body anywhere in the procedure part): a short-form body `n` whose name the
    attribute statements of the module give exactly one access word `q` reports `q` after `correlate` - the
    accessibility of the entity, the same as its interface entry by `own_module_body_access_statement`'s argument.
    Rests on the measured `implShortTakesIface = false` (correlate leaves the permission alone). -/
theorem own_module_short_body_repaired (v : Variant) (g : Bool) (host : List (Str × Perm)) (xs : List XStmt)
    (n : Str) (q : Perm) (hi : XStmt.impl n ∈ xs)
    (hstmt : (entriesFor n (attrsOf g false xs)).filterMap accessWord = [q])
    (hprot : Attr.acc .prot ∉ entriesFor n (attrsOf g false xs)) :
    ∃ k ∈ (runXI v g false true host xs).impls, k.name = n ∧ k.perm = q := by
  obtain ⟨k0, hk0, hn0⟩ := implsFrom_mem g n xs (init false).perm hi
  refine ⟨⟨n, q⟩, ?_, rfl, rfl⟩
  simp only [runXI, List.mem_map]
  refine ⟨implUpd true (attrsOf g false xs) k0, ⟨k0, hk0, rfl⟩, ?_⟩
  simp only [implUpd, if_true, takeHost, implShortTakesIface, Bool.false_eq_true, if_false, hn0]
  rw [applyAttrs_one n _ _ q hstmt hprot]

/-- **The measured tables of the own-module bodies say what the theorems above use.**  The translator parses, with the
    code under test, a module `[private] / w :: e1, e2 / interface bodies e1, e2 / contains / module subroutine e1 /
    module procedure e2` for every default and access word and records the permission of each object after
    `process_attribs`.  Long-form body and interface entries: the model's application step reproduces every triple
    ("a recognised word overwrites"), every pair default x word is covered.  Short-form body: either nothing reaches
    it (code as it is - the known defect) or the application step as well (repaired). -/
theorem own_module_body_tables_sound (n : Str) :
    (∀ x ∈ sepBodyTrans, applyAttrs applyWords n x.1 [(n, .acc x.2.1)] = x.2.2) ∧
    (∀ x ∈ sepIfaceTrans, applyAttrs applyWords n x.1 [(n, .acc x.2.1)] = x.2.2) ∧
    (∀ cur w : Perm, cur ≠ .prot → (cur, w) ∈ sepBodyTrans.map (fun x => (x.1, x.2.1))) ∧
    (∀ cur w : Perm, cur ≠ .prot → (cur, w) ∈ sepShortTrans.map (fun x => (x.1, x.2.1))) ∧
    ((∀ x ∈ sepShortTrans, x.2.2 = x.1) ∨
     (∀ x ∈ sepShortTrans, applyAttrs applyWords n x.1 [(n, .acc x.2.1)] = x.2.2)) := by
  refine ⟨?_, ?_, ?_, ?_, ?_⟩
  · intro x hx; rw [applyAttrs_single]; revert x; decide
  · intro x hx; rw [applyAttrs_single]; revert x; decide
  · intro cur w h; cases cur <;> cases w <;> first | decide | exact absurd rfl h
  · intro cur w h; cases cur <;> cases w <;> first | decide | exact absurd rfl h
  · first
    | (left; decide)
    | (right; intro x hx; rw [applyAttrs_single]; revert x; decide)

/-! ### round 6 - the visibility words on the generated module page -/

/-- **The measured table of the page templates**: at every kind of place of the module page where a visibility word
    stands - variable row, type heading, component row, binding row, generic-interface heading, procedure listed
    under a generic interface (declared or referenced), procedure of a non-generic / abstract interface entry,
    function / subroutine / module-procedure heading - the template prints the `permission` of **the entity itself**
    (token probe of the translator on the real `mod_page.html`).  A template that prints the generic's visibility in
    front of its specific procedures, or drops the word for one kind, changes `pageSrc` and breaks this theorem. -/
theorem page_tables_sound : ∀ k : PKind, srcOf k = .own := by
  intro k; cases k <;> decide

/-- **What the module page prints is the entity's permission.**  For every unit result (any variant, any program):
    every entity of the unit has its line on the page with its own permission as the visibility word; so has every
    component and binding of every type, every procedure declared by an interface body of a generic interface, and
    every `module procedure` body; and a `module procedure r` reference is printed with the permission of the
    module procedure `r`. -/
theorem module_page_shows_own_permission (unit : Perm) (o : XOut) :
    (∀ e ∈ o.out.ents, ∃ l ∈ pageView unit o, l.owner = [] ∧ l.name = e.name ∧ l.shown = some e.perm) ∧
    (∀ e ∈ o.out.ents, e.cat = .type → (∀ k ∈ e.comps, ⟨.comp, e.name, k.name, some k.perm⟩ ∈ pageView unit o) ∧
      (∀ k ∈ e.binds, ⟨.bind, e.name, k.name, some k.perm⟩ ∈ pageView unit o)) ∧
    (∀ e ∈ o.out.ents, e.cat = .iface → e.wrapper = false →
      (∀ k ∈ e.procs, ⟨.member, e.name, k.name, some k.perm⟩ ∈ pageView unit o) ∧
      (∀ r ∈ e.refs, ∀ p, procPerm o.out.ents r.name = some p → ⟨.ref, e.name, r.name, some p⟩ ∈ pageView unit o)) ∧
    (∀ k ∈ o.impls, ⟨.mproc, [], k.name, some k.perm⟩ ∈ pageView unit o) := by
  have hs : ∀ (k : PKind) (a b : Perm), shownPerm k a b = some a := by
    intro k a b; simp [shownPerm, page_tables_sound k]
  have hin : ∀ e ∈ o.out.ents, ∀ l ∈ entLines unit o.out.ents e, l ∈ pageView unit o := by
    intro e he l hl
    exact List.mem_append_left _ (List.mem_flatMap.2 ⟨e, he, hl⟩)
  refine ⟨?_, ?_, ?_, ?_⟩
  · intro e he
    cases hc : e.cat with
    | var =>
      exact ⟨⟨.var, [], e.name, shownPerm .var e.perm unit⟩, hin e he _ (by simp [entLines, hc]), rfl, rfl, by simp [hs]⟩
    | type =>
      exact ⟨⟨.type, [], e.name, shownPerm .type e.perm unit⟩, hin e he _ (by simp [entLines, hc]), rfl, rfl, by simp [hs]⟩
    | iface =>
      by_cases hw : e.wrapper = true
      · exact ⟨⟨.wrapper, [], e.name, shownPerm .wrapper e.perm unit⟩, hin e he _ (by simp [entLines, hc, hw]), rfl, rfl,
          by simp [hs]⟩
      · exact ⟨⟨.generic, [], e.name, shownPerm .generic e.perm unit⟩, hin e he _ (by simp [entLines, hc, hw]), rfl, rfl,
          by simp [hs]⟩
    | absIface =>
      exact ⟨⟨.absIface, [], e.name, shownPerm .absIface e.perm unit⟩, hin e he _ (by simp [entLines, hc]), rfl, rfl, by simp [hs]⟩
    | func =>
      exact ⟨⟨.func, [], e.name, shownPerm .func e.perm unit⟩, hin e he _ (by simp [entLines, hc]), rfl, rfl, by simp [hs]⟩
    | sub =>
      exact ⟨⟨.sub, [], e.name, shownPerm .sub e.perm unit⟩, hin e he _ (by simp [entLines, hc]), rfl, rfl, by simp [hs]⟩
  · intro e he hc
    refine ⟨fun k hk => hin e he _ ?_, fun k hk => hin e he _ ?_⟩
    · simp only [entLines, hc, List.mem_cons, List.mem_append, List.mem_map]
      exact Or.inr (Or.inl ⟨k, hk, by simp [hs]⟩)
    · simp only [entLines, hc, List.mem_cons, List.mem_append, List.mem_map]
      exact Or.inr (Or.inr ⟨k, hk, by simp [hs]⟩)
  · intro e he hc hw
    refine ⟨fun k hk => hin e he _ ?_, fun r hr p hp => hin e he _ ?_⟩
    · simp only [entLines, hc, hw, Bool.false_eq_true, if_false, List.mem_cons, List.mem_append, List.mem_map]
      exact Or.inr (Or.inl ⟨k, hk, by simp [hs]⟩)
    · simp only [entLines, hc, hw, Bool.false_eq_true, if_false, List.mem_cons, List.mem_append, List.mem_filterMap]
      exact Or.inr (Or.inr ⟨r, hr, by simp [hp, hs]⟩)
  · intro k hk
    exact List.mem_append_right _ (List.mem_map.2 ⟨k, hk, by simp [hs]⟩)

/-- **The module page shows Fortran's accessibility** (`access_correct_partial` carried to the second observation
    point).  For every module `pre ++ d :: post` (written in abstract statements, no host, any variant, either value of
    `implAttr`) and every entity `(c, n, attrs)` that `d` declares, under the hypotheses of `access_correct_partial`
    (legal program, no PROTECTED, not in the class of the late-`private` defect): the page has a line for `n`, listed
    by the module itself, whose visibility word is `fortranAccess`. -/
theorem module_page_shows_fortran_access_partial (v : Variant) (g ia : Bool) (pre post : List Stmt) (d : Stmt) (c : Cat)
    (n : Str) (attrs : List Attr)
    (hx : (c, n, attrs) ∈ declares d)
    (hnames : NamesOnce (pre ++ d :: post))
    (hbare : BareLegal (pre ++ d :: post))
    (hproc : isProc d = true → Stmt.contains ∈ pre)
    (hone : OneAccessSpec (pre ++ d :: post) attrs n)
    (hprot : hasProtected (pre ++ d :: post) attrs n = false)
    (hlate : ¬ LateDefault (pre ++ d :: post) post attrs n) (unit : Perm) :
    ∃ l ∈ pageView unit (runXI v g false ia [] (((pre ++ d :: post).map RStmt.plain).map XStmt.stmt)),
      l.owner = [] ∧ l.name = n ∧ l.shown = some (fortranAccess (pre ++ d :: post) attrs n) := by
  obtain ⟨e, he, _, hn, hp⟩ := access_correct_partial v pre post d c n attrs hx hnames hbare hproc hone hprot hlate
  have hents : (runXI v g false ia [] (((pre ++ d :: post).map RStmt.plain).map XStmt.stmt)).out.ents
      = (runUnit v false (pre ++ d :: post)).ents := by
    simp only [runXI, runX, xstmts_map_stmt, runRaw, map_keyed_plain]
    conv => rhs; rw [← List.map_id (runUnit v false (pre ++ d :: post)).ents]
    apply List.map_congr_left
    intro x _
    unfold hostEnt
    split
    · simp [takeHost, implLongTakesIface]
    · rfl
  obtain ⟨l, hl, ho, hln, hs⟩ := (module_page_shows_own_permission unit
    (runXI v g false ia [] (((pre ++ d :: post).map RStmt.plain).map XStmt.stmt))).1 e (by rw [hents]; exact he)
  exact ⟨l, hl, ho, by rw [hln, hn], by rw [hs, hp]⟩

/-- non-vacuity / worked instance: the page of `private` / `public :: v, g` / `integer :: v, w` / `interface g` with the
    interface body `x` and the reference `s` / `contains` / `subroutine s`: the lines and their words -/
example :
    pageView .priv (runXI ⟨.afterLoop, true, true⟩ false false false []
      [.stmt (.plain (.bare .priv)), .stmt (.plain (.access (.acc .pub) [chars! "v", chars! "g"])),
       .stmt (.plain (.var [chars! "v", chars! "w"] [])),
       .stmt (.plain (.iface .generic (chars! "g") [chars! "x"] [chars! "s"])),
       .stmt (.plain .contains), .stmt (.plain (.proc false (chars! "s")))])
    = [⟨.var, [], chars! "v", some .pub⟩, ⟨.var, [], chars! "w", some .priv⟩, ⟨.generic, [], chars! "g", some .pub⟩,
       ⟨.member, chars! "g", chars! "x", some .priv⟩, ⟨.ref, chars! "g", chars! "s", some .priv⟩,
       ⟨.sub, [], chars! "s", some .priv⟩] := by
  decide

end Ford.C04
