/-
  C11 - `[[name(kind):item(kind)]]` references link to the entity the documented
  rules select.  Property theorems only; the mechanism is FordModel/Links.lean
  (mirrors ford/_markdown.py convert_link, sourceform.py find_child/children/get_url,
  fortran_project.py Project.find), the documented lookup is FordModel/LinksSpec.lean,
  helper lemmas are in FordModel/Lemmas/Links.lean and Lemmas/LinkPath.lean.
  The tables LINK_TYPES, SUBLINK_TYPES, the `children` attribute order and the class
  tuples of get_dir/get_url are regenerated from the source on every run
  (FordModel/Generated/C11.lean).
-/
import FordModel.Links
import FordModel.LinksSpec
import FordModel.Lemmas.Links
import FordModel.Lemmas.LinkPath
import FordModel.Lemmas.LinkSites
import FordModel.LinkSyntax
import FordModel.Lemmas.LinkSyntax
import FordModel.LinkWarn
import FordModel.Lemmas.LinkWarn
import FordModel.InlineOrder
namespace Ford.C11
open Ford Ford.Links

/-! ### The kind qualifiers (tables regenerated from the source and the user guide) -/

/-- Every kind name the user guide documents for the *component* part
    (writing_documentation.rst, extracted on every run) is a key of LINK_TYPES. -/
theorem documented_component_kinds_known :
    Generated.C11.docComponentKinds.all (fun k => (Generated.C11.linkTypes.lookup k).isSome) = true := by decide

/-- Every kind name the user guide documents for the *item* part is a key of SUBLINK_TYPES. -/
theorem documented_item_kinds_known :
    Generated.C11.docItemKinds.all (fun k => (Generated.C11.sublinkTypes.lookup k).isSome) = true := by decide

/-- The documented synonyms designate the same collection: "procedure", "proc", "subroutine",
    "function" all mean the project's procedures; "interface" and "absinterface" the abstract
    interfaces; and every `ext` spelling of a documented component kind that exists maps to an
    `ext*` collection. -/
theorem documented_synonyms_agree :
    (["procedure", "proc", "subroutine", "function"].map (fun k => List.lookup k Generated.C11.linkTypes)).all
      (· == some "procedures") = true ∧
    (["interface", "absinterface"].map (fun k => List.lookup k Generated.C11.linkTypes)).all
      (· == some "absinterfaces") = true ∧
    (Generated.C11.linkTypes.filter (fun kv => kv.1.toList.take 3 == ['e', 'x', 't'])).all
      (fun kv => kv.2.toList.take 3 == ['e', 'x', 't']) = true := by
  decide

/-- Which candidate wins project-wide when a name exists in several collections and no kind is
    given: the collections are searched in this order (dict order of LINK_TYPES, first occurrence). -/
theorem project_search_order :
    (Generated.C11.linkTypes.map (·.2)).eraseDups =
      ["modules", "submodules", "extModules", "types", "extTypes", "procedures", "extProcedures",
       "allfiles", "absinterfaces", "extInterfaces", "programs", "blockdata", "namelists"] := by decide

/-- Within one entity an unqualified name is searched in this attribute order (the tuple inside
    `FortranBase.children`), then in the three single-object attributes. -/
theorem children_search_order :
    Generated.C11.childrenOrder =
      ["absinterfaces", "args", "blockdata", "bindings", "boundprocs", "common", "enums", "functions",
       "modprocedures", "modules", "namelists", "programs", "submodules", "subroutines", "types",
       "variables", "interfaces", "finalprocs"] ∧
    Generated.C11.nonListChildren = ["constructor", "procedure", "retvar"] := by decide

/-- The model's `getDir` knows every `get_dir` override present in the source: each entity class
    inherits `get_dir` from one of the four classes the model distinguishes. -/
theorem getDir_overrides_modelled :
    Generated.C11.getDirOwner.all (fun kv =>
      ["FortranBase", "FortranSubmodule", "FortranProcedure", "FortranInterface"].contains kv.2) = true := by decide

/-- **The project file's text is converted where the base URL points** (`ford.main`, read from the
    source on every run): the `path=` given to the conversion of the project file's text is the very
    setting the Markdown object gets as `base_url`, so that `url_correct_from_page_below_base` (with
    `d = []`, the front page) applies to it - also when `project_url` differs from `output_dir`. -/
theorem project_file_converted_at_base_url :
    Generated.C11.projDocsPath = Generated.C11.mdBaseUrl := by decide

/-- The conversion sites of the context-free texts (`ford.main`: project file, summary,
    `get_page_tree`'s root; `PageNode.__init__`: `<root> / "page" / ...`) use only settings the
    harness and the model know; `"none"` = no `path=` at all (finding C11-context-without-url). -/
theorem conversion_sites_modelled :
    ["proj_data.project_url", "proj_data.output_dir"].contains Generated.C11.mdBaseUrl = true ∧
    ["proj_data.project_url", "proj_data.output_dir"].contains Generated.C11.projDocsPath = true ∧
    ["proj_data.project_url", "proj_data.output_dir", "none"].contains Generated.C11.summaryPath = true ∧
    ["proj_data.project_url", "proj_data.output_dir"].contains Generated.C11.pageTreeRoot = true ∧
    ["output_dir", "self.base_url", "md.base_url"].contains Generated.C11.pagePathRoot = true := by decide

/-! ### Lookup order -/

/-- **Lookup order.**  For all projects, contexts and references: `convert_link`'s cascade
    (find_child in the context under `suppress(ValueError)`, then in the context's parent, the item
    part inside the hit, `Project.find`, the parent-only fall-back) computes exactly the documented
    first-match lookup `lookupSpec` - own contents, then the parent's, then the whole project, the
    item resolved inside the nearest component - *provided no Python exception is due*:
    `hK`/`hC` no qualifier names a single-object attribute (`constructor`), `hP` the component
    kind is one LINK_TYPES knows (true for every documented one, `documented_component_kinds_known`),
    `hH` the item kind is one the component hit can hold.  The excluded classes are genuine
    defects of the code (the witnesses below). -/
theorem lookup_order_partial (P : Project) (ctx : Option Nat) (r : Ref)
    (hK : ∀ e ∈ P.ents, raisesTypeError e r.kind = false)
    (hC : ∀ e ∈ P.ents, raisesTypeError e r.childKind = false)
    (hP : knownComponentKind r.kind = true)
    (hH : ∀ id e, P.get id = some e →
        (findInList P r.name (localCandidates P ctx r.kind) = some id ∨
         findInList P r.name (projItems P r.kind) = some id) → canHold e r.childKind = true) :
    lookup P ctx r = .ok (lookupSpec P ctx r) :=
  lookup_eq_spec P ctx r hK hC hP hH

/-- Full strength for bare references `[[name]]`: no hypothesis at all. The result is the first
    entity of that name in (children of the context ++ children of its parent ++ every project
    collection in LINK_TYPES order). -/
theorem lookup_order_bare (P : Project) (ctx : Option Nat) (n : Str) :
    lookup P ctx { name := n } =
      .ok (findInList P n (localCandidates P ctx none ++ projItems P none)) := by
  rw [lookup_eq_spec P ctx { name := n } (fun _ _ => rfl) (fun _ _ => rfl) rfl (fun _ _ _ _ => rfl)]
  simp [lookupSpec, findInList_append]

/-- Which candidate wins when the name exists at several levels: one in the documented entity's
    own contents beats everything in the parent and in the project. -/
theorem own_contents_win (P : Project) (i : Nat) (c : Ent) (n : Str) (id : Nat)
    (hc : P.get i = some c) (h : findInList P n (children c) = some id) :
    lookup P (some i) { name := n } = .ok (some id) := by
  rw [lookup_order_bare]
  have : (some i : Option Nat).bind P.get = some c := by simpa using hc
  rw [localCandidates_some P (some i) c none this]
  simp [findInList_append, itemsOf, h, orElse']

/-- ... and one in the parent's contents beats the project-wide one when the context itself has none. -/
theorem parent_contents_win (P : Project) (i j : Nat) (c p : Ent) (n : Str) (id : Nat)
    (hc : P.get i = some c) (hpar : c.parent = some j) (hp : P.get j = some p)
    (h0 : findInList P n (children c) = none) (h : findInList P n (children p) = some id) :
    lookup P (some i) { name := n } = .ok (some id) := by
  rw [lookup_order_bare]
  have : (some i : Option Nat).bind P.get = some c := by simpa using hc
  rw [localCandidates_some P (some i) c none this]
  simp [findInList_append, itemsOf, h0, h, hpar, hp, orElse']

/-- **No kind of entity is exempt from the lookup order.**  The lookup reads names, attributes,
    parents and collections only: replacing the classes / `obj` / identifiers of all entities (`f`
    arbitrary) never changes which entity a reference selects.  In particular the parent step is
    taken whatever the parent is - a source file (program units and external procedures of the same
    file), a module, a type, a procedure. -/
theorem lookup_ignores_entity_classes (f : List Anc → List Anc) (P : Project) (ctx : Option Nat) (r : Ref) :
    lookup (reclass f P) ctx r = lookup P ctx r :=
  reclass_lookup f P ctx r

/-- ... so the parent's contents win over every project-wide namesake for parents of every class. -/
theorem parent_contents_win_for_every_parent_class (f : List Anc → List Anc) (P : Project) (i j : Nat)
    (c p : Ent) (n : Str) (id : Nat)
    (hc : P.get i = some c) (hpar : c.parent = some j) (hp : P.get j = some p)
    (h0 : findInList P n (children c) = none) (h : findInList P n (children p) = some id) :
    lookup (reclass f P) (some i) { name := n } = .ok (some id) := by
  rw [reclass_lookup]
  exact parent_contents_win P i j c p n id hc hpar hp h0 h

/-- **Qualifier honoured** (component part): when `[[name(kind)]]` yields a link, the target is an
    element of the collection the kind designates - the SUBLINK_TYPES list of the context or of its
    parent, or the LINK_TYPES collection of the project - never something of another kind. -/
theorem qualifier_honoured (P : Project) (ctx : Option Nat) (n k : Str) (id : Nat)
    (hK : ∀ e ∈ P.ents, raisesTypeError e (some k) = false)
    (hP : knownComponentKind (some k) = true)
    (h : lookup P ctx { name := n, kind := some k } = .ok (some id)) :
    Item.ent id ∈ localCandidates P ctx (some k) ∨ Item.ent id ∈ projItems P (some k) := by
  rw [lookup_eq_spec P ctx { name := n, kind := some k } hK (fun _ _ => rfl) hP (fun _ _ _ _ => rfl)] at h
  simp only [lookupSpec, Except.ok.injEq] at h
  cases h1 : findInList P n (localCandidates P ctx (some k)) with
  | some i =>
    simp only [h1, orElse', Option.some.injEq] at h
    subst h
    exact Or.inl (findInList_mem P n _ i h1).1
  | none =>
    simp only [h1, orElse'] at h
    exact Or.inr (findInList_mem P n _ id h).1

/-- **Qualifier honoured** (item part): the item of `[[comp:item(kind)]]` is taken from the list the
    item kind designates inside the component that was hit. -/
theorem item_qualifier_honoured (P : Project) (e : Ent) (n k : Str) (id : Nat)
    (h : findChild P e n (some k) = .ok (some id)) :
    Item.ent id ∈ itemsOf e (some k) := by
  simp only [findChild] at h
  cases h1 : List.lookup (kindKey k) sublinkTypes with
  | none => simp [h1] at h
  | some attr =>
    simp only [h1] at h
    cases h2 : List.lookup attr e.attrs with
    | none => simp [h2] at h
    | some v =>
      simp only [h2] at h
      cases v with
      | many l =>
        simp only [Except.ok.injEq] at h
        simpa [itemsOf, h1, h2] using (findInList_mem P n l id h).1
      | one j => simp at h
      | noneVal => simp at h
      | otherVal => simp at h

/-- Whatever is linked is (a) an element of a collection the site is built from and (b) carries,
    case-insensitively, the component name or the item name that was written - for every project,
    context and reference, no hypothesis. -/
theorem linked_entity_is_listed_and_named (P : Project) (ctx : Option Nat) (r : Ref) (id : Nat)
    (h : lookup P ctx r = .ok (some id)) :
    Listed P id ∧ (nameMatches P r.name id = true ∨ ∃ ch, r.child = some ch ∧ nameMatches P ch id = true) :=
  lookup_listed P ctx r id h

/-- **Absent is text.**  If no listed entity carries the component name, the reference is rendered
    as plain text (the name as written) from every context and for every spelling. -/
theorem absent_is_text (env : Env) (P : Project) (ctx : Option Nat) (path : Option Path) (r : Ref)
    (hK : ∀ e ∈ P.ents, raisesTypeError e r.kind = false)
    (hC : ∀ e ∈ P.ents, raisesTypeError e r.childKind = false)
    (hP : knownComponentKind r.kind = true)
    (habs : ∀ id, nameMatches P r.name id = false) :
    convertLink env P ctx path r = .text r.name := by
  have h1 : ∀ l, findInList P r.name l = none := fun l => findInList_none_of_no_match P r.name l (fun id _ => habs id)
  have := lookup_eq_spec P ctx r hK hC hP (by intro id e _ h; rcases h with h | h <;> simp [h1] at h)
  simp [convertLink, this, lookupSpec, h1, orElse', childIn]
  cases r.child <;> simp

/-- ... and without any hypothesis on the qualifiers (whatever exceptions the kinds may cause) a
    reference none of whose names is carried by an entity is never a link. -/
theorem absent_never_links (env : Env) (P : Project) (ctx : Option Nat) (path : Option Path) (r : Ref)
    (habs : ∀ id, nameMatches P r.name id = false)
    (habs2 : ∀ ch, r.child = some ch → ∀ id, nameMatches P ch id = false) (t h : Str) :
    convertLink env P ctx path r ≠ .link t h := by
  intro hc
  unfold convertLink at hc
  split at hc
  · cases hc
  · cases hc
  · rename_i id hl
    obtain ⟨_, hn⟩ := lookup_listed P ctx r id hl
    rcases hn with hn | ⟨ch, hch, hn⟩
    · simp [habs id] at hn
    · simp [habs2 ch hch id] at hn

/-- **Hidden is text.**  `prune` removes the entities that are not displayed from every collection;
    after it no reference, from any context, in any spelling, links to one of them. -/
theorem hidden_is_never_linked (keep : Nat → Bool) (P : Project) (ctx : Option Nat) (r : Ref) (id : Nat)
    (h : lookup (prune keep P) ctx r = .ok (some id)) : keep id = true :=
  listed_prune keep P id (lookup_listed (prune keep P) ctx r id h).1

/-- The lookup is case-insensitive in both names: it depends on them only through `lower`. -/
theorem lookup_case_insensitive (P : Project) (n n' : Str) (l : List Item) (h : lower n = lower n') :
    findInList P n l = findInList P n' l := by
  have hm : ∀ id, nameMatches P n id = nameMatches P n' id := by
    intro id; unfold nameMatches; rw [h]
  induction l with
  | nil => rfl
  | cons x xs ih =>
    cases x with
    | other => simpa [findInList] using ih
    | ent id => simp only [findInList, hm id, ih]

/-! ### Round 3: how a reference is recognised in a text (the pattern `LINK_RE` and the inline loop) -/

/-- **The pattern the tokenizer mirrors is the pattern of the source** (`FordLinkProcessor.LINK_RE`,
    parsed with Python's regex parser and dumped canonically on every run): `[[`, the `name` group =
    one or more `\w` followed by the separator tail described by `linkNameSeps` / `linkNameMany`, an
    optional `(\w+)`, an optional `:\w+` with its own optional `(\w+)`, `]]`; matched under
    `re.UNICODE` without IGNORECASE/ASCII/DOTALL; the groups carry the parameter names of
    `Project.find`, which receives them as `**m.groupdict()`; the inline processor hands this very
    pattern to Markdown and replaces exactly the matched span. -/
theorem link_pattern_modelled :
    Generated.C11.linkRe =
      ["seq(lit([)", "lit([)",
       "group:name[0,0](seq(max_repeat(1,inf,seq(in[category_word]))", "NAMETAIL(None)))",
       "max_repeat(0,1,seq(lit(()", "group:entity[0,0](seq(max_repeat(1,inf,seq(in[category_word]))))", "lit())))",
       "max_repeat(0,1,seq(lit(:)", "group:child_name[0,0](seq(max_repeat(1,inf,seq(in[category_word]))))",
       "max_repeat(0,1,seq(lit(()", "group:child_entity[0,0](seq(max_repeat(1,inf,seq(in[category_word]))))", "lit())))))",
       "lit(])", "lit(]))"] ∧
    Generated.C11.linkNameRecognised = true ∧
    Generated.C11.linkReFlags = ["UNICODE", "VERBOSE"] ∧
    Generated.C11.linkGroups = ["name", "entity", "child_name", "child_entity"] ∧
    Generated.C11.linkFindParams = Generated.C11.linkGroups ∧
    Generated.C11.linkHandle = "self.LINK_RE ; (self.convert_link(m), m.start(0), m.end(0))" := by
  decide

/-- The separators of the `name` group (read from the source) include `.` - so that `stem.ext`, the
    name of a source file, can be written - and none of them is a word character or one of the
    delimiters `(`, `:`, `[`, `]`: the tokenizer never has to backtrack. -/
theorem link_pattern_separators_safe : linkCfg.ok = true := by decide

/-- The character class of every part of a reference contains all letters, all digits and the
    underscore - no position of a name is restricted (a name may start with a digit). -/
theorem word_class_covers_letters_digits_underscore (c : Char)
    (h : isAlpha c = true ∨ isDigit c = true ∨ c = '_') : isWordU c = true := by
  apply isWordU_of_isWord
  rcases h with h | h | h <;> simp [isWord, h]

/-- **Every documented spelling is recognised.**  For every reference written as the user guide says
    - component = a name or `stem.ext`, made of letters, digits and underscores *in any order*,
    optional `(kind)`, optional `:item` with optional `(kind)` - and whatever text follows it, the
    pattern of the working tree matches the reference, yields exactly the four parts as written and
    ends where the reference ends. -/
theorem documented_reference_recognised (r : Ref) (rest : Str) (h : r.Documented) :
    matchLinkAt linkCfg (r.render ++ rest) = some (r, rest) :=
  matchLinkAt_render linkCfg link_pattern_separators_safe r rest
    (nameAccepted_documented linkCfg link_pattern_separators_safe r h) h.2.1 h.2.2.1 h.2.2.2.1 h.2.2.2.2

/-- The same for every component name the pattern accepts (word runs joined by single separator
    characters; which names these are is decidable, `nameAccepted`) and for every pattern
    configuration whose separators are safe - in particular for a repaired pattern that admits
    `-` and several dots (finding C11-file-name-outside-link-pattern). -/
theorem accepted_name_recognised (cfg : NameCfg) (hok : cfg.ok = true) (r : Ref) (rest : Str)
    (hn : nameAccepted cfg r.name = true)
    (hk : ∀ k, r.kind = some k → WordStr k) (hc : ∀ c, r.child = some c → WordStr c)
    (hck : ∀ k, r.childKind = some k → WordStr k) (hcc : r.child = none → r.childKind = none) :
    matchLinkAt cfg (r.render ++ rest) = some (r, rest) :=
  matchLinkAt_render cfg hok r rest hn hk hc hck hcc

/-- **Every reference of a text is found.**  A documentation text written as
    `pre₁ [[r₁]] pre₂ [[r₂]] ... post` (no `[` in the plain parts, any number of references, each in
    a documented spelling) is cut by the inline loop into exactly these pieces: nothing is skipped,
    nothing outside the brackets is swallowed, the order is kept. -/
theorem references_of_a_text_recognised (parts : List (Str × Ref)) (post : Str)
    (hdoc : ∀ p ∈ parts, p.2.Documented)
    (hpre : ∀ p ∈ parts, ∀ c ∈ p.1, c ≠ '[') (hpost : ∀ c ∈ post, c ≠ '[') :
    segments linkCfg (renderParts parts post) = partsSegs parts post :=
  segGo_parts linkCfg parts post
    (fun p hp rest => documented_reference_recognised p.2 rest (hdoc p hp)) hpre hpost

/-- **The written reference is what is looked up.**  The conversion of such a text is the
    conversion of its pieces: each `[[rᵢ]]` is replaced by what `convert_link` gives for exactly the
    parts written (so every lookup theorem above speaks about the text as written), the plain parts
    stay. -/
theorem text_references_reach_lookup (env : Env) (P : Project) (ctx : Option Nat) (path : Option Path)
    (parts : List (Str × Ref)) (post : Str)
    (hdoc : ∀ p ∈ parts, p.2.Documented)
    (hpre : ∀ p ∈ parts, ∀ c ∈ p.1, c ≠ '[') (hpost : ∀ c ∈ post, c ≠ '[') :
    convertText linkCfg env P ctx path (renderParts parts post) =
      convertSegs env P ctx path (partsSegs parts post) := by
  rw [convertText, references_of_a_text_recognised parts post hdoc hpre hpost]

/-- One reference inside running text: the text before and after it is kept, the reference becomes
    the link / the plain name / the exception `convert_link` yields for it. -/
theorem reference_in_running_text (env : Env) (P : Project) (ctx : Option Nat) (path : Option Path)
    (pre post : Str) (r : Ref) (hdoc : r.Documented)
    (hpre : ∀ c ∈ pre, c ≠ '[') (hpost : ∀ c ∈ post, c ≠ '[') :
    convertText linkCfg env P ctx path (pre ++ r.render ++ post) =
      match convertLink env P ctx path r with
      | .err e => .error e
      | .link t h => .ok ((if pre.isEmpty then [] else [.plain pre]) ++ .link t h :: (if post.isEmpty then [] else [.plain post]))
      | .text t => .ok ((if pre.isEmpty then [] else [.plain pre]) ++ .text t :: (if post.isEmpty then [] else [.plain post])) := by
  have := text_references_reach_lookup env P ctx path [(pre, r)] post
    (by intro p hp; simp at hp; subst hp; exact hdoc)
    (by intro p hp; simp at hp; subst hp; exact hpre) hpost
  simp only [renderParts, partsSegs] at this
  rw [this]
  exact convertSegs_single env P ctx path pre post r

/-- **A reference to something that does not exist, in running text, is the name as written** -
    also when the name starts with a digit (`[[1]]`, `[[2nd_pass]]`) - and the text around it stays. -/
theorem absent_reference_in_text_is_plain_name (env : Env) (P : Project) (ctx : Option Nat) (path : Option Path)
    (pre post : Str) (r : Ref) (hdoc : r.Documented)
    (hpre : ∀ c ∈ pre, c ≠ '[') (hpost : ∀ c ∈ post, c ≠ '[')
    (hK : ∀ e ∈ P.ents, raisesTypeError e r.kind = false)
    (hC : ∀ e ∈ P.ents, raisesTypeError e r.childKind = false)
    (hP : knownComponentKind r.kind = true)
    (habs : ∀ id, nameMatches P r.name id = false) :
    convertText linkCfg env P ctx path (pre ++ r.render ++ post) =
      .ok ((if pre.isEmpty then [] else [.plain pre]) ++ .text r.name :: (if post.isEmpty then [] else [.plain post])) := by
  rw [reference_in_running_text env P ctx path pre post r hdoc hpre hpost,
    absent_is_text env P ctx path r hK hC hP habs]

/-- A text without `[` is left alone. -/
theorem text_without_brackets_unchanged (cfg : NameCfg) (s : Str) (h : ∀ c ∈ s, c ≠ '[') :
    segments cfg s = flush s.reverse := by
  have := segGo_plain cfg s [] [] h
  simpa [segments, segGo] using this

/-- Non-vacuity and the shape m5-like regressions touch: a source file whose name starts with a
    digit, referenced with and without the `file` qualifier inside running text next to a reference
    with both qualifiers; names made of digits only or starting with an underscore. -/
theorem digit_leading_names_example :
    segments linkCfg (chars! "see [[2d_mesh.f90]], [[2D_MESH.f90(file)]] and [[m_1(module):v_(variable)]].") =
      [.plain (chars! "see "),
       .ref { name := chars! "2d_mesh.f90" },
       .plain (chars! ", "),
       .ref { name := chars! "2D_MESH.f90", kind := some (chars! "file") },
       .plain (chars! " and "),
       .ref { name := chars! "m_1", kind := some (chars! "module"), child := some (chars! "v_"),
              childKind := some (chars! "variable") },
       .plain (chars! ".")] ∧
    segments linkCfg (chars! "[[1]][[_x]]") = [.ref { name := chars! "1" }, .ref { name := chars! "_x" }] := by
  decide

/-- **File names the pattern cannot spell** (finding C11-file-name-outside-link-pattern): with the
    `name` group `\w+(?:\.\w+)?` a reference to the source file `mesh-tools.f90` or `mesh.v2.f90` is
    not recognised at all - the text stays verbatim, without a warning - although `file` is a
    documented kind of link target; with the repaired group `\w+(?:[.-]\w+)*` both are read. -/
theorem file_name_outside_pattern_witness :
    findLink { seps := ['.'], many := false } (chars! "[[mesh-tools.f90]]") = none ∧
    findLink { seps := ['.'], many := false } (chars! "[[mesh.v2.f90(file)]]") = none ∧
    segments { seps := ['.', '-'], many := true } (chars! "[[mesh-tools.f90]] [[mesh.v2.f90(file)]]") =
      [.ref { name := chars! "mesh-tools.f90" }, .plain [' '],
       .ref { name := chars! "mesh.v2.f90", kind := some (chars! "file") }] := by
  decide

/-! ### Round 6: "... is rendered as plain text **with a warning**" (the `warn` calls of `convert_link`) -/

/-- The element `convert_link` returns is the one all theorems above speak about: adding the
    warnings to the model changes nothing of what is rendered. -/
theorem warnings_do_not_change_the_rendering (env : Env) (P : Project) (ctx : Option Nat) (path : Option Path) (r : Ref) :
    (convertLinkW env P ctx path r).1 = convertLink env P ctx path r :=
  convertLinkW_fst env P ctx path r

/-- **Plain text comes with a warning** - for every project, context, path and reference, without
    any hypothesis: whenever a reference is rendered as plain text, the text is the component name as
    written and a "not found" warning is printed during that very conversion which quotes the
    reference as written (`m.group()`) and names the component. -/
theorem plain_text_is_always_warned (env : Env) (P : Project) (ctx : Option Nat) (path : Option Path) (r : Ref) (t : Str)
    (h : (convertLinkW env P ctx path r).1 = .text t) :
    t = r.name ∧ Warn.notFound r.render r.name ∈ (convertLinkW env P ctx path r).2 := by
  rw [convertLinkW_fst] at h
  have hl : lookup P ctx r = .ok none := (convertLink_text_iff env P ctx path r).1 ⟨t, h⟩
  constructor
  · simp [convertLink, hl] at h; exact h.symm
  · show _ ∈ (lookupW P ctx r).2
    rcases lookupW_cases P ctx r with ⟨_, h2⟩ | ⟨h1, _, _⟩ | ⟨ch, _, ⟨_, h2⟩ | ⟨h1, _⟩⟩
    · rcases h2 with ⟨id, h2⟩ | ⟨e, h2⟩ <;> simp [hl] at h2
    · simp [h1]
    · rcases h2 with ⟨id, h2⟩ | ⟨e, h2⟩ <;> simp [hl] at h2
    · simp [h1]

/-- ... and only then: a "not found" warning is printed only for a reference that is rendered as
    plain text, and it quotes that reference and its component name. -/
theorem not_found_warning_only_for_plain_text (env : Env) (P : Project) (ctx : Option Nat) (path : Option Path)
    (r : Ref) (l n : Str) (h : Warn.notFound l n ∈ (convertLinkW env P ctx path r).2) :
    (convertLinkW env P ctx path r).1 = .text r.name ∧ l = r.render ∧ n = r.name := by
  rw [convertLinkW_fst]
  change _ ∈ (lookupW P ctx r).2 at h
  rcases lookupW_cases P ctx r with ⟨h1, _⟩ | ⟨h1, _, hl⟩ | ⟨ch, _, ⟨h1, _⟩ | ⟨h1, hl⟩⟩
  · simp [h1] at h
  · simp [h1] at h; exact ⟨by simp [convertLink, hl], h.1, h.2⟩
  · simp [h1] at h
  · simp [h1] at h; exact ⟨by simp [convertLink, hl], h.1, h.2⟩

/-- **A link is silent unless it is the fall-back to the component's page**: when a reference becomes
    a link, either nothing is printed, or the reference has an item part that was not found and the
    one warning says so (it quotes the reference, the item and the component whose page is linked
    instead).  A reference without item part that becomes a link prints nothing. -/
theorem link_warned_only_on_fallback (env : Env) (P : Project) (ctx : Option Nat) (path : Option Path) (r : Ref)
    (t h : Str) (hl : (convertLinkW env P ctx path r).1 = .link t h) :
    (convertLinkW env P ctx path r).2 = [] ∨
      ∃ ch, r.child = some ch ∧ (convertLinkW env P ctx path r).2 = [.childNotFound r.render ch r.name] := by
  rw [convertLinkW_fst] at hl
  have hne : lookup P ctx r ≠ .ok none := by
    intro h0; simp [convertLink, h0] at hl
  change (lookupW P ctx r).2 = [] ∨ ∃ ch, r.child = some ch ∧ (lookupW P ctx r).2 = _
  rcases lookupW_cases P ctx r with ⟨h1, _⟩ | ⟨_, _, h0⟩ | ⟨ch, hch, ⟨h1, _⟩ | ⟨_, h0⟩⟩
  · exact Or.inl h1
  · exact absurd h0 hne
  · exact Or.inr ⟨ch, hch, h1⟩
  · exact absurd h0 hne

/-- Every warning quotes the reference as it was written in the text (and by
    `documented_reference_recognised` the written reference is what the pattern matched). -/
theorem warning_quotes_reference_as_written (env : Env) (P : Project) (ctx : Option Nat) (path : Option Path)
    (r : Ref) (w : Warn) (h : w ∈ (convertLinkW env P ctx path r).2) : w.link = r.render := by
  change w ∈ (lookupW P ctx r).2 at h
  rcases lookupW_cases P ctx r with ⟨h1, _⟩ | ⟨h1, _, _⟩ | ⟨ch, _, ⟨h1, _⟩ | ⟨h1, _⟩⟩
  · simp [h1] at h
  · simp [h1] at h; subst h; rfl
  · simp [h1] at h; subst h; rfl
  · simp [h1] at h
    rcases h with h | h <;> subst h <;> rfl

/-- **Absent is text with a warning.**  Under the hypotheses of `absent_is_text` (no exception class)
    a reference whose component name no entity carries is rendered as the name as written and
    prints: for `[[name]]` / `[[name(kind)]]` exactly one "not found" warning; with an item part
    first the "item not found in component" warning, then the "not found" warning. -/
theorem absent_is_text_with_warning (env : Env) (P : Project) (ctx : Option Nat) (path : Option Path) (r : Ref)
    (hK : ∀ e ∈ P.ents, raisesTypeError e r.kind = false)
    (hC : ∀ e ∈ P.ents, raisesTypeError e r.childKind = false)
    (hP : knownComponentKind r.kind = true)
    (habs : ∀ id, nameMatches P r.name id = false) :
    convertLinkW env P ctx path r =
      (.text r.name,
       match r.child with
       | none => [.notFound r.render r.name]
       | some ch => [.childNotFound r.render ch r.name, .notFound r.render r.name]) := by
  have ht := absent_is_text env P ctx path r hK hC hP habs
  have hl : lookup P ctx r = .ok none := (convertLink_text_iff env P ctx path r).1 ⟨_, ht⟩
  have h1 : (convertLinkW env P ctx path r).1 = .text r.name := by rw [convertLinkW_fst, ht]
  have h2 : (convertLinkW env P ctx path r).2 = (lookupW P ctx r).2 := rfl
  rw [Prod.ext_iff]
  refine ⟨h1, ?_⟩
  rw [h2]
  rcases lookupW_cases P ctx r with ⟨_, h3⟩ | ⟨h3, hch, _⟩ | ⟨ch, hch, ⟨_, h3⟩ | ⟨h3, _⟩⟩
  · rcases h3 with ⟨id, h3⟩ | ⟨e, h3⟩ <;> simp [hl] at h3
  · simp [h3, hch]
  · rcases h3 with ⟨id, h3⟩ | ⟨e, h3⟩ <;> simp [hl] at h3
  · simp [h3, hch]

/-- **The warnings of a text**: a documentation text `pre₁ [[r₁]] pre₂ [[r₂]] ... post` whose
    references convert without exception prints exactly the warnings of its references, one after the
    other in the order written - none is dropped, merged or reordered. -/
theorem text_warnings_in_order (env : Env) (P : Project) (ctx : Option Nat) (path : Option Path)
    (parts : List (Str × Ref)) (post : Str)
    (hdoc : ∀ p ∈ parts, p.2.Documented)
    (hpre : ∀ p ∈ parts, ∀ c ∈ p.1, c ≠ '[') (hpost : ∀ c ∈ post, c ≠ '[')
    (hok : ∀ p ∈ parts, ∀ e, convertLink env P ctx path p.2 ≠ .err e) :
    (convertTextW linkCfg env P ctx path (renderParts parts post)).2 =
      parts.flatMap (fun p => (convertLinkW env P ctx path p.2).2) := by
  simp only [convertTextW]
  rw [references_of_a_text_recognised parts post hdoc hpre hpost]
  exact warnSegs_parts env P ctx path parts post hok

/-- **The same broken reference written `n` times is warned about `n` times** (a text that mentions
    a removed entity in several places): no de-duplication by the reference's text. -/
theorem repeated_absent_reference_warned_each_time (env : Env) (P : Project) (ctx : Option Nat) (path : Option Path)
    (n : Nat) (pre post : Str) (r : Ref) (hdoc : r.Documented) (hch : r.child = none)
    (hpre : ∀ c ∈ pre, c ≠ '[') (hpost : ∀ c ∈ post, c ≠ '[')
    (hK : ∀ e ∈ P.ents, raisesTypeError e r.kind = false)
    (hC : ∀ e ∈ P.ents, raisesTypeError e r.childKind = false)
    (hP : knownComponentKind r.kind = true)
    (habs : ∀ id, nameMatches P r.name id = false) :
    (convertTextW linkCfg env P ctx path (renderParts (List.replicate n (pre, r)) post)).2 =
      List.replicate n (.notFound r.render r.name) := by
  have ht := absent_is_text env P ctx path r hK hC hP habs
  have hw := absent_is_text_with_warning env P ctx path r hK hC hP habs
  rw [text_warnings_in_order env P ctx path _ post
    (by intro p hp; rw [List.eq_of_mem_replicate hp]; exact hdoc)
    (by intro p hp; rw [List.eq_of_mem_replicate hp]; exact hpre) hpost
    (by intro p hp e; rw [List.eq_of_mem_replicate hp]; simp [ht])]
  induction n with
  | zero => rfl
  | succ k ih => simp [List.replicate_succ, hw, hch] at ih ⊢; exact ih

/-- **No memory between conversions**: the warnings of a run (project file, every entity's text,
    every static page, converted one after the other by the same Markdown object) are the
    concatenation of the warnings of the single conversions - what is printed for a text never
    depends on what was converted before it (the same broken reference in a second entity or on a
    second page is reported again). -/
theorem run_warnings_have_no_memory (cfg : NameCfg) (env : Env) (P : Project)
    (a b : List (Option Nat × Option Path × Str)) :
    runWarnings cfg env P (a ++ b) = runWarnings cfg env P a ++ runWarnings cfg env P b := by
  induction a with
  | nil => rfl
  | cons x xs ih =>
    obtain ⟨c, p, t⟩ := x
    simp [runWarnings, ih]

/-- **The warning says where**: for text that belongs to an entity the message starts with the
    entity's source file and name; for a page converted with an explicit path, with that path
    relative to the working directory; the project summary (no context, no path) has no prefix. -/
theorem warning_says_where (env : Env) (P : Project) (i : Nat) (c : Ent) (path : Option Path) (p : Path) (w : Warn)
    (hc : P.get i = some c) :
    w.message env P (some i) path = "In '".toList ++ c.filename ++ ':' :: c.name ++ "': ".toList ++ w.body ∧
    w.message env P none (some p) = "In file '".toList ++ joinSep '/' (relpath p env.cwd) ++ "': ".toList ++ w.body ∧
    w.message env P none none = w.body := by
  simp [Warn.message, warnPrefix, hc]

/-! ### Round 6: "references inside code spans or blocks stay verbatim" (the pattern's place among Markdown's inline patterns) -/

/-- **Where the link pattern is registered** (table read from the inline-pattern registry of a live
    `MetaMarkdown` on every run, listed in the order of application): the priorities never increase
    along the list; the code-span pattern `backtick` is applied *before* FORD's link pattern, which in
    turn is applied before Markdown's own bracket syntax (`reference`, `link`, `short_reference`), so
    that the brackets of a reference reach it untouched; fenced and indented code blocks are taken out
    by a preprocessor / block processor, i.e. before any inline pattern runs. -/
theorem link_pattern_position :
    descending Generated.C11.inlinePatterns = true ∧
    codeShielded = true ∧
    (["reference", "link", "short_reference"].all fun n =>
        appliedBefore Generated.C11.inlinePatterns Generated.C11.linkPatternName n) = true ∧
    Generated.C11.preprocessors.contains "fenced_code_block" = true ∧
    Generated.C11.blockProcessors.contains "code" = true := by decide

/-- **Code spans stay verbatim.**  For every project, context, path and every text cut at its code
    spans (any number of spans, any content - references in any spelling included): with the patterns
    applied in the registered order, whenever the conversion succeeds every span comes out with its
    content exactly as written, every piece of running text is converted as `convertText` says, in
    the order written, nothing added or lost. -/
theorem code_spans_stay_verbatim (env : Env) (P : Project) (ctx : Option Nat) (path : Option Path)
    (pieces : List Piece) (out : List OutPiece)
    (h : convertPieces codeShielded linkCfg env P ctx path pieces = .ok out) :
    PiecesOk linkCfg env P ctx path pieces out := by
  rw [link_pattern_position.2.1] at h
  exact convertPieces_shielded linkCfg env P ctx path pieces out h

/-- ... and a reference inside a code span prints no warning, whether or not it names something. -/
theorem references_in_code_spans_not_warned (env : Env) (P : Project) (ctx : Option Nat) (path : Option Path)
    (s : Str) (rest : List Piece) :
    warnPieces codeShielded linkCfg env P ctx path (.code s :: rest) =
      warnPieces codeShielded linkCfg env P ctx path rest := by
  rw [link_pattern_position.2.1]
  exact warnPieces_shielded_code linkCfg env P ctx path s rest

/-! ### URLs -/

/-- Every URL `get_url` produces has exactly two path segments (`dir/file`), so
    `Path(url).parent.parent` is the base and every entity page is one level below it. -/
theorem url_two_segments (c : List Anc) (u : Url) (_h : urlOfChain c = some u) :
    u.segs.length = 2 ∧ u.segs.dropLast.dropLast = [] := by simp [Url.segs]

/-- **URL correct from every entity page.**  Text that belongs to an entity with a URL is converted
    with `current_path = base/"non-existent dir"`; the emitted href, resolved from *any* directory
    `base/d` one level below the base (the entity's own page, its parent's page, a list page), is
    the target's page and anchor. -/
theorem url_correct_from_every_entity_page (env : Env) (P : Project) (ctx : Option Nat) (c t : Ent) (uc u : Url)
    (hc : ctx.bind P.get = some c) (hce : c.extUrl = none) (hcu : urlOfChain c.chain = some uc)
    (hte : t.extUrl = none) (htu : urlOfChain t.chain = some u)
    (hdir : (u.dir == nonExistentDir) = false) (hplain : Plain u.segs) (d : Str) :
    ∃ rel, hrefOf env (currentPath env P ctx none) t = .ok (joinSep '/' rel) ∧
      resolve (env.base ++ [d]) rel = env.base ++ u.segs := by
  refine ⟨relpath (env.base ++ u.segs) (env.base ++ [nonExistentDir]), ?_, ?_⟩
  · simp [hrefOf, hte, htu, currentPath_entity env P ctx c uc hc hce hcu]
  · exact resolve_from_any_sibling env.base u.segs u.dir nonExistentDir d [u.lastSeg] rfl hdir hplain

/-- **URL correct from the project file and from static pages at any depth**: with an explicit
    `path` (the directory of the page being written) the href resolves from that directory to the
    target, whatever the directory is. -/
theorem url_correct_from_given_path (env : Env) (P : Project) (ctx : Option Nat) (t : Ent) (u : Url) (p : Path)
    (hte : t.extUrl = none) (htu : urlOfChain t.chain = some u) (hplain : Plain (env.base ++ u.segs)) :
    ∃ rel, hrefOf env (currentPath env P ctx (some p)) t = .ok (joinSep '/' rel) ∧
      resolve p rel = env.base ++ u.segs := by
  refine ⟨relpath (env.base ++ u.segs) p, ?_, resolve_relpath _ p hplain⟩
  simp [hrefOf, hte, htu, currentPath]

/-- **The hrefs do not depend on where the site is written or served.**  The pages are written below
    `output_dir` and may be served from anywhere (`out` arbitrary), the hrefs are computed below the
    base URL (`project_url`): the href of text belonging to an entity resolves, from every directory
    one level below *any* root `out`, to the target's page below that same root. -/
theorem url_correct_from_every_written_entity_page (env : Env) (P : Project) (ctx : Option Nat) (c t : Ent) (uc u : Url)
    (hc : ctx.bind P.get = some c) (hce : c.extUrl = none) (hcu : urlOfChain c.chain = some uc)
    (hte : t.extUrl = none) (htu : urlOfChain t.chain = some u)
    (hdir : (u.dir == nonExistentDir) = false) (hplain : Plain u.segs) (out : Path) (d : Str) :
    ∃ rel, hrefOf env (currentPath env P ctx none) t = .ok (joinSep '/' rel) ∧
      resolve (out ++ [d]) rel = out ++ u.segs := by
  refine ⟨relpath (env.base ++ u.segs) (env.base ++ [nonExistentDir]), ?_, ?_⟩
  · simp [hrefOf, hte, htu, currentPath_entity env P ctx c uc hc hce hcu]
  · rw [relpath_common_root env.base, ← relpath_common_root out]
    exact resolve_from_any_sibling out u.segs u.dir nonExistentDir d [u.lastSeg] rfl hdir hplain

/-- ... and text without entity context (project file: `d = []`; static page: `d = page/...`) that is
    converted at `base/d` gets hrefs that resolve from `out/d` to the target below `out`, for every
    root `out` the site is written to - *provided the text is converted below the base URL*
    (`project_file_converted_at_base_url`; not so for static pages: witness below). -/
theorem url_correct_from_page_below_base (env : Env) (P : Project) (ctx : Option Nat) (t : Ent) (u : Url)
    (out d : Path) (hte : t.extUrl = none) (htu : urlOfChain t.chain = some u) (hplain : Plain (out ++ u.segs)) :
    ∃ rel, hrefOf env (currentPath env P ctx (some (env.base ++ d))) t = .ok (joinSep '/' rel) ∧
      resolve (out ++ d) rel = out ++ u.segs := by
  refine ⟨relpath (env.base ++ u.segs) (env.base ++ d), ?_, resolve_relpath_other_root _ _ _ _ hplain⟩
  simp [hrefOf, hte, htu, currentPath]

/-- The relative-path round trip the two theorems rest on: for all `..`-free targets and all start
    directories, resolving `relpath target start` against `start` gives `target`. -/
theorem relpath_roundtrip (t s : Path) (ht : Plain t) : resolve s (relpath t s) = t :=
  resolve_relpath t s ht

/-! ### Witnesses: behaviour of the code as it is that violates the property -/

namespace W
def anc (cls obj ident : String) : Anc :=
  { cls := cls, obj := obj.toList, ident := ident.toList, unnamed := false, ifaceProc := false }
def aFile := anc "FortranSourceFile" "sourcefile" "a.f90"
def aMod := anc "FortranModule" "module" "m"
def aSub := anc "FortranSubroutine" "proc" "s"
def aTyp := anc "FortranType" "type" "t"
def aVar := anc "FortranVariable" "variable" "v"
/-- file a.f90 > module m > subroutine s(v) > type t (local to s); `t` has no URL -/
def P : Project :=
  { ents := [
      { name := "a.f90".toList, chain := [aFile], extUrl := none, parent := none,
        attrs := [("modules", .many [.ent 1])] },
      { name := "m".toList, chain := [aMod, aFile], extUrl := none, parent := some 0,
        attrs := [("subroutines", .many [.ent 2]), ("variables", .many []), ("types", .many [])] },
      { name := "s".toList, chain := [aSub, aMod, aFile], extUrl := none, parent := some 1,
        attrs := [("args", .many [.ent 4]), ("variables", .many []), ("types", .many [.ent 3])] },
      { name := "t".toList, chain := [aTyp, aSub, aMod, aFile], extUrl := none, parent := some 2,
        attrs := [("variables", .many []), ("boundprocs", .many []), ("constructor", .noneVal)] },
      { name := "v".toList, chain := [aVar, aSub, aMod, aFile], extUrl := none, parent := some 2, attrs := [] }],
    lists := [("modules", [.ent 1]), ("procedures", [.ent 2]), ("types", []), ("allfiles", [.ent 0])] }
def env : Env := { base := ["w".toList, "doc".toList], cwd := ["w".toList] }
end W

/-- **Context without URL** (finding C11-context-without-url): the doc of a type local to a
    procedure is converted with `current_path = None`; `[[m]]` becomes `doc/module/m.html`
    (relative to the process's working directory `/w`), which from the page it is displayed on
    (`/w/doc/proc/s.html`) does not resolve to the module's page. -/
theorem context_without_url_witness :
    convertLink W.env W.P (some 3) none { name := "m".toList } = .link "m".toList "doc/module/m.html".toList ∧
    resolve (W.env.base ++ ["proc".toList]) ["doc".toList, "module".toList, "m.html".toList]
      ≠ W.env.base ++ ["module".toList, "m.html".toList] := by decide

/-- The same reference from a context that has a URL is correct (non-vacuity of the theorems above). -/
theorem context_with_url_example :
    convertLink W.env W.P (some 2) none { name := "m".toList } = .link "m".toList "../module/m.html".toList ∧
    resolve (W.env.base ++ ["proc".toList]) ["..".toList, "module".toList, "m.html".toList]
      = W.env.base ++ ["module".toList, "m.html".toList] := by decide

/-- **Target without page** (finding C11-target-without-page-raises): `[[t]]` written in the doc of
    the procedure that contains the local type `t` selects `t`, which has no URL: RuntimeError. -/
theorem target_without_url_witness :
    convertLink W.env W.P (some 2) none { name := "t".toList } = .err .noUrl := by decide

/-- **`constructor` qualifier** (finding C11-constructor-qualifier-raises): SUBLINK_TYPES maps the
    documented item kind "constructor" to a single-object attribute; `list(None)` raises TypeError,
    which `suppress(ValueError)` does not catch. -/
theorem constructor_qualifier_witness :
    convertLink W.env W.P (some 3) none { name := "x".toList, kind := some "constructor".toList }
      = .err .notIterable := by decide

/-- **Item kind the component cannot hold** (finding C11-impossible-item-kind-raises): the user
    guide promises "a warning message is issued and the link is not generated"; the code raises
    ValueError out of `convert_link` (the run aborts). -/
theorem impossible_item_kind_witness :
    convertLink W.env W.P none none
      { name := "m".toList, child := some "v".toList, childKind := some "bound".toList } = .err .cannotHaveChild := by decide

/-- **`variable` qualifier misses dummy arguments** (finding C11-variable-qualifier-misses-arguments):
    `[[s:v]]` links the argument `v`, `[[s:v(variable)]]` does not find it (arguments live in
    `args`, SUBLINK_TYPES["variable"] is `variables`) and falls back to the page of `s`. -/
theorem variable_qualifier_witness :
    convertLink W.env W.P none (some W.env.base) { name := "s".toList, child := some "v".toList }
      = .link "v".toList "proc/s.html#variable-v".toList ∧
    convertLink W.env W.P none (some W.env.base)
      { name := "s".toList, child := some "v".toList, childKind := some "variable".toList }
      = .link "s".toList "proc/s.html".toList := by decide

namespace W
/-- `project_url: https://example.com/docs`: the base URL is a relative `pathlib.Path`
    (`https:/example.com/docs`), `relpath` takes it from the working directory `/w` -/
def envUrl : Env :=
  { base := absolutize ["w".toList] false ["https:".toList, "example.com".toList, "docs".toList], cwd := ["w".toList] }
/-- where the site is written: `/w/doc` -/
def out : Path := ["w".toList, "doc".toList]
end W

/-- **Static page with `project_url`** (finding C11-static-page-with-project-url): `PageNode`
    converts the page text at `output_dir/page` although the targets live below `project_url`; the
    href leaves the site.  Converted below the base URL (as the project file's text is) the same
    reference is correct from the written page `/w/doc/page/index.html`. -/
theorem static_page_with_project_url_witness :
    convertLink W.envUrl W.P none (some (W.out ++ ["page".toList])) { name := "m".toList }
      = .link "m".toList "../../https:/example.com/docs/module/m.html".toList ∧
    resolve (W.out ++ ["page".toList])
        ["..".toList, "..".toList, "https:".toList, "example.com".toList, "docs".toList, "module".toList, "m.html".toList]
      ≠ W.out ++ ["module".toList, "m.html".toList] ∧
    convertLink W.envUrl W.P none (some (W.envUrl.base ++ ["page".toList])) { name := "m".toList }
      = .link "m".toList "../module/m.html".toList ∧
    resolve (W.out ++ ["page".toList]) ["..".toList, "module".toList, "m.html".toList]
      = W.out ++ ["module".toList, "m.html".toList] := by decide

namespace W2
/-- two command line tools, one per file: `a.f90` = subroutine usage + program alpha_tool,
    `b.f90` = subroutine usage (identifier `usage~2`) + program beta_tool -/
def P : Project :=
  { ents := [
      { name := "a.f90".toList, chain := [W.aFile], extUrl := none, parent := none,
        attrs := [("subroutines", .many [.ent 1]), ("programs", .many [.ent 2])] },
      { name := "usage".toList, chain := [W.anc "FortranSubroutine" "proc" "usage", W.aFile], extUrl := none,
        parent := some 0, attrs := [("args", .many []), ("variables", .many [])] },
      { name := "alpha_tool".toList, chain := [W.anc "FortranProgram" "program" "alpha_tool", W.aFile], extUrl := none,
        parent := some 0, attrs := [("variables", .many []), ("subroutines", .many [])] },
      { name := "b.f90".toList, chain := [W.anc "FortranSourceFile" "sourcefile" "b.f90"], extUrl := none, parent := none,
        attrs := [("subroutines", .many [.ent 4]), ("programs", .many [.ent 5])] },
      { name := "usage".toList,
        chain := [W.anc "FortranSubroutine" "proc" "usage~2", W.anc "FortranSourceFile" "sourcefile" "b.f90"],
        extUrl := none, parent := some 3, attrs := [("args", .many []), ("variables", .many [])] },
      { name := "beta_tool".toList,
        chain := [W.anc "FortranProgram" "program" "beta_tool", W.anc "FortranSourceFile" "sourcefile" "b.f90"],
        extUrl := none, parent := some 3, attrs := [("variables", .many []), ("subroutines", .many [])] }],
    lists := [("procedures", [.ent 1, .ent 4]), ("programs", [.ent 2, .ent 5]), ("allfiles", [.ent 0, .ent 3])] }
end W2

/-- The parent step with a source file as parent (non-vacuity of
    `parent_contents_win_for_every_parent_class`): in the doc of `program beta_tool`, `[[usage]]` and
    `[[usage(subroutine)]]` select the `usage` of the same file, not the project's first `usage`;
    from the project file (no context) the first one is taken. -/
theorem same_file_unit_wins_example :
    convertLink W.env W2.P (some 5) none { name := "usage".toList }
      = .link "usage".toList "../proc/usage~2.html".toList ∧
    convertLink W.env W2.P (some 5) none { name := "usage".toList, kind := some "subroutine".toList }
      = .link "usage".toList "../proc/usage~2.html".toList ∧
    convertLink W.env W2.P (some 2) none { name := "usage".toList }
      = .link "usage".toList "../proc/usage.html".toList ∧
    convertLink W.env W2.P none (some W.env.base) { name := "usage".toList }
      = .link "usage".toList "proc/usage.html".toList := by decide

/-- non-vacuity of `lookup_order_partial`: its hypotheses hold for a qualified two-part reference -/
example : convertLink W.env W.P (some 1) none
      { name := "S".toList, kind := some "subroutine".toList, child := some "V".toList }
    = .link "v".toList "../proc/s.html#variable-v".toList := by decide

namespace W
/-- the project `W.P` with the file name every entity reports (`.filename`) -/
def PF : Project := { W.P with ents := W.P.ents.map fun e => { e with filename := "a.f90".toList } }
end W

/-- Non-vacuity: what the model prints for the three outcomes, as message texts. -/
theorem warning_messages_example :
    (convertLinkW W.env W.PF (some 1) none { name := "nosuch".toList }).1 = .text "nosuch".toList ∧
    (convertLinkW W.env W.PF (some 1) none { name := "nosuch".toList }).2.map (Warn.message W.env W.PF (some 1) none) =
      ["In 'a.f90:m': Could not substitute link [[nosuch]], 'nosuch' not found".toList] ∧
    (convertLinkW W.env W.PF none (some (W.env.base ++ ["page".toList]))
        { name := "s".toList, child := some "zz".toList }).1 = .link "s".toList "../proc/s.html".toList ∧
    (convertLinkW W.env W.PF none (some (W.env.base ++ ["page".toList]))
        { name := "s".toList, child := some "zz".toList }).2.map
          (Warn.message W.env W.PF none (some (W.env.base ++ ["page".toList]))) =
      ["In file 'doc/page': Could not substitute link [[s:zz]], \"zz\" not found in \"s\", linking to page for \"s\" instead".toList] ∧
    (convertLinkW W.env W.PF none none { name := "q".toList, child := some "zz".toList }).2.map
          (Warn.message W.env W.PF none none) =
      ["Could not substitute link [[q:zz]], \"zz\" not found in \"q\", linking to page for \"q\" instead".toList,
       "Could not substitute link [[q:zz]], 'q' not found".toList] ∧
    (convertLinkW W.env W.PF (some 1) none { name := "S".toList, child := some "V".toList }).2 = [] ∧
    (convertTextW linkCfg W.env W.PF (some 1) none (chars! "old [[gone]] and [[gone]], see [[s]]")).2 =
      [.notFound (chars! "[[gone]]") (chars! "gone"), .notFound (chars! "[[gone]]") (chars! "gone")] := by
  decide

/-- non-vacuity of `repeated_absent_reference_warned_each_time` / `text_warnings_in_order`: their
    hypotheses hold for a documented reference to an absent name -/
example : (convertTextW linkCfg W.env W.PF none none
      (renderParts (List.replicate 3 ("x ".toList, ({ name := "gone".toList } : Ref))) (chars! "."))).2
    = List.replicate 3 (.notFound (chars! "[[gone]]") (chars! "gone")) := by decide

/-- **The order of the registry is what protects the spans** (non-vacuity of `code_spans_stay_verbatim`
    and of its dependence on the table): in the registered order `` `[[m]]` `` stays as written and
    the absent `[[gone]]` inside a span prints nothing; were the link pattern applied first, the
    reference inside the span would become a link inside `<code>`. -/
theorem code_span_order_example :
    (convertPieces codeShielded linkCfg W.env W.PF (some 2) none
        [.plain (chars! "see [[m]] and "), .code (chars! "call [[m]](x)"), .plain (chars! " or "), .code (chars! "[[gone]]")]).toOption =
      some [.segs [.plain (chars! "see "), .link (chars! "m") (chars! "../module/m.html"), .plain (chars! " and ")],
           .code (chars! "call [[m]](x)"), .segs [.plain (chars! " or ")], .code (chars! "[[gone]]")] ∧
    warnPieces codeShielded linkCfg W.env W.PF (some 2) none
        [.plain (chars! "see [[m]] and "), .code (chars! "call [[m]](x)"), .plain (chars! " or "), .code (chars! "[[gone]]")] = [] ∧
    (convertPieces false linkCfg W.env W.PF (some 2) none [.code (chars! "[[m]]")]).toOption =
      some [.codeSegs [.link (chars! "m") (chars! "../module/m.html")]] := by
  decide

end Ford.C11
