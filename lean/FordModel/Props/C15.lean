/-
  C15 - options mean the same in every configuration format, with CLI precedence.
  Property theorems only; helper lemmas live in FordModel/Lemmas/Settings.lean.
  `Generated.*` are the tables regenerated from ford/settings.py and ford/__init__.py
  on every run (translate/c15.py).
-/
import FordModel.Settings
import FordModel.Lemmas.Settings
import FordModel.SettingsSpec
import FordModel.Lemmas.SettingsSpec
import FordModel.SettingsSource
import FordModel.Lemmas.SettingsSource
namespace Ford.C15
open Ford Ford.Settings

/-! ### the regenerated tables -/

/-- Every field of the regenerated `ProjectSettings` schema has a declared type the
    model (and hence every theorem below, which is generic in the tag) covers:
    a new option of an unsupported type breaks this obligation. -/
theorem schema_supported : ∀ e ∈ Generated.settingsSchema, e.2.1 ≠ Tag.other := by decide

/-- Every `Dict[str, str]` option has a one-character entry in `OPTION_SEPARATORS`
    (otherwise `convert_setting` raises `KeyError` for the metadata format only). -/
theorem schema_separators :
    ∀ e ∈ Generated.settingsSchema, e.2.1 = Tag.dictStr →
      (match aget e.1 Generated.optionSeparators with | some [_] => true | _ => false) = true := by
  decide

/-- Every settings-carrying command-line option names a field of the schema, with an
    argparse action that fits the field's type and the default `None` ("absent"), so the
    precedence theorem applies to every one of them. -/
theorem cli_table_sound :
    ∀ e ∈ Generated.cliTable,
      (match tagOf Generated.settingsSchema e.1, e.2.1 with
       | some .listStr, .append | some .listPath, .append | some .dictStr, .append | some .plainList, .append => true
       | some .str, .store | some .optStr, .store | some .path, .store | some .optPath, .store => true
       | some .bool, .storeTrue | some .bool, .storeFalse => true
       | _, _ => false) = true ∧ e.2.2 = none := by
  decide

/-- No two command-line options write the same settings field (otherwise which of them
    "the command-line value" is would depend on argparse's processing order). -/
theorem cli_table_dests_distinct : (Generated.cliTable.map (·.1)).Nodup := by decide

/-! ### metadata and fpm.toml mean the same -/

/-- `meta_preprocessor` reads back exactly what the user guide's layout writes, for any number of
    options and value lines: a block `---` / `key: v0` / `    v1` ... / blank line, with distinct
    well-formed keywords, values without surrounding blanks and non-blank continuation lines,
    yields the key -> value-lines table in order, and the rest of the file untouched. -/
theorem metadata_block_read_back (opts : List (Str × List Str)) (body : List Str)
    (hg : ∀ o ∈ opts, goodOpt o = true) (hnd : (opts.map (·.1)).Nodup) :
    metaPre ("---".toList :: (encBlock opts ++ [] :: body)) = (opts, body) := by
  have := metaLoop_encBlock opts body [] none hg hnd (by simp)
  simpa [metaPre, isBegin, startsWith] using this

/-- non-vacuity: `src_dir` with two value lines is a well-formed option -/
example : goodOpt ("src_dir".toList, ["./src".toList, "lib dir".toList]) = true := by decide


/-- Per option, generic in the option type and unbounded in the value (any number of lines,
    list items, table entries, file types; any strings): the metadata spelling of a
    well-formed abstract value `a` is converted by `convert_setting` to exactly the settings
    value `denote a` - which for flags, numbers, strings, paths, lists and key/value tables
    is literally what `tomllib` delivers for the fpm.toml spelling (`encToml a`, second
    conjunct), so `ProjectSettings(**kw)` receives the same keyword argument in both formats. -/
theorem formats_agree_md_toml (seps : List (Str × Str)) (t : Tag) (key : Str) (sep : Char) (spell : Str) (a : AVal)
    (hsep : t = .dictStr → aget key seps = some [sep]) (hwf : wellFormed t sep spell a) :
    convertSetting seps t key (mdVal (encMd sep spell a)) = .ok (denote a)
    ∧ ((∀ fts, a ≠ .filetypes fts) → encToml a = denote a) := by
  refine ⟨convert_md_eq_denote seps t key sep spell a hsep hwf, ?_⟩
  intro h
  cases a <;> first | rfl | exact absurd rfl (h _)

/-- `extra_filetypes`: fpm.toml supplies an array of tables, which `__post_init__` turns into
    the same extension-indexed dict of `ExtraFileType` that the metadata lines were converted
    to (the `try` over objects fails, the `ExtraFileType(**table)` branch succeeds). -/
theorem formats_agree_filetypes (fts : List Eft) (hne : fts ≠ []) (hnd : (fts.map (·.ext)).Nodup) :
    (∃ l, encToml (.filetypes fts) = .list l ∧ efts l [] = none ∧
      (eftsOfList l []).map PyVal.dict = some (denote (.filetypes fts))) := by
  refine ⟨fts.map (fun ft => Atom.tbl (eftTable ft)), rfl, ?_, ?_⟩
  · cases fts with
    | nil => exact absurd rfl hne
    | cons ft r => exact efts_tbl_none ft r []
  · have := eftsOfList_enc fts [] hnd (by simp)
    simp only [List.nil_append] at this
    simp [this, denote]

/-- Whole metadata block: for any number of well-formed options of the schema, the converted
    metadata is the list of denotations, in order, with no warning - i.e. the keyword
    arguments `load_markdown_settings` passes to `ProjectSettings` are those fpm.toml gives. -/
theorem formats_agree_block (schema : List (Str × Tag × PyVal)) (seps : List (Str × Str))
    (opts : List (Str × Tag × Char × Str × AVal))
    (h : ∀ o ∈ opts, tagOf schema o.1 = some o.2.1 ∧ (o.2.1 = .dictStr → aget o.1 seps = some [o.2.2.1]) ∧
      wellFormed o.2.1 o.2.2.1 o.2.2.2.1 o.2.2.2.2) :
    convertMeta schema seps (opts.map (fun o => (o.1, mdVal (encMd o.2.2.1 o.2.2.2.1 o.2.2.2.2))))
      = .ok (opts.map (fun o => (o.1, denote o.2.2.2.2)), []) := by
  induction opts with
  | nil => rfl
  | cons o r ih =>
    obtain ⟨h1, h2, h3⟩ := h o (by simp)
    simp only [List.map_cons, convertMeta, h1, convert_md_eq_denote seps _ _ _ _ _ h2 h3,
      ih (fun o' ho' => h o' (by simp [ho']))]

/-- non-vacuity: an extension written with leading dots is a well-formed file type; both
    formats keep it verbatim -/
example : wellFormed .dictEft ' ' [] (.filetypes [⟨".inc".toList, "!".toList, some "fortran".toList⟩, ⟨"..x".toList, ";".toList, none⟩]) := by
  refine ⟨rfl, by simp, by decide, ?_⟩
  intro ft hft
  simp at hft
  rcases hft with h | h <;> subst h <;> exact ⟨by decide, by decide, by simp [noSpace, isSpace]⟩

/-- non-vacuity: `alias: a = b` with the generated separator table -/
example : wellFormed .dictStr '=' [] (.table [("a ".toList.dropLast, "b".toList)]) := by
  refine ⟨rfl, by simp, by simp, ?_⟩
  intro kv hkv
  simp at hkv
  subst hkv
  exact ⟨by decide, by rfl, by rfl⟩

/-! ### precedence: command line > --config > file > defaults -/

/-- Override order of `parse_arguments`, field-wise and for any number of options: after
    `--config` and the command-line arguments were applied to the settings `s` loaded from
    the file, a field given on the command line holds the (converted) command-line value;
    otherwise, if given in `--config`, that value; otherwise what the file gave. -/
theorem precedence (schema : List (Str × Tag × PyVal)) (seps : List (Str × Str))
    (cfg cli s s' : Settings) (k : Str) (t : Tag)
    (hcli : (cli.map (·.1)).Nodup) (hcfg : (cfg.map (·.1)).Nodup) (ht : tagOf schema k = some t)
    (h : applyCli schema seps cli (applyConfig cfg s) = .ok s') :
    aget k s' =
      match aget k cli with
      | some v => (match convertSetting seps t k v with | .ok w => some w | .error _ => none)
      | none =>
        match aget k cfg with
        | some v => some v
        | none => aget k s := by
  cases hc : aget k cli with
  | some v =>
    obtain ⟨w, hw, hg⟩ := aget_applyCli_some schema seps cli _ s' k v t hcli hc ht h
    simp [hw, hg]
  | none =>
    rw [aget_applyCli_none schema seps cli _ s' k hc h]
    cases hf : aget k cfg with
    | some v => simp [aget_applyConfig_some cfg s k v hcfg hf]
    | none => simp [aget_applyConfig_none cfg s k hf]

/-- The argparse namespace FORD sees, for any (dest, action, default) table whose defaults are
    all `None`: it holds exactly the options given on the command line - an option of the
    table that was given carries the given value, every other name is absent. -/
theorem cli_namespace_is_given (table : List (Str × CliKind × Option PyVal)) (given : Settings) (k : Str)
    (hdef : ∀ e ∈ table, e.2.2 = none) :
    aget k (cliNamespace table given) = if k ∈ table.map (·.1) then aget k given else none := by
  split
  · next hk => exact aget_cliNamespace_given table given k hdef hk
  · next hk => exact aget_cliNamespace_not_mem table given k hk

/-- Precedence stated on what the user typed (`given`) rather than on the namespace, over the
    regenerated argparse table: for every option `k` of the table, after `parse_arguments`'
    override steps the field holds the converted command-line value when `k` was given, else
    the `--config` value, else what the file gave.  Breaks when any action of
    `get_command_line_arguments` gets a default other than `None`. -/
theorem precedence_generated_cli (given cfg s s' : Settings) (k : Str) (t : Tag)
    (hcfg : (cfg.map (·.1)).Nodup)
    (hk : k ∈ Generated.cliTable.map (·.1)) (ht : tagOf Generated.settingsSchema k = some t)
    (h : applyCli Generated.settingsSchema Generated.optionSeparators
          (cliNamespace Generated.cliTable given) (applyConfig cfg s) = .ok s') :
    aget k s' =
      match aget k given with
      | some v => (match convertSetting Generated.optionSeparators t k v with | .ok w => some w | .error _ => none)
      | none =>
        match aget k cfg with
        | some v => some v
        | none => aget k s := by
  have hdef : ∀ e ∈ Generated.cliTable, e.2.2 = none := fun e he => (cli_table_sound e he).2
  have hns := cliNamespace_keys_nodup Generated.cliTable given cli_table_dests_distinct
  have := precedence Generated.settingsSchema Generated.optionSeparators cfg
    (cliNamespace Generated.cliTable given) s s' k t hns hcfg ht h
  rw [this, aget_cliNamespace_given _ _ _ hdef hk]

/-- An option that is *not* given on the command line - whether it has a switch or not - keeps
    the value of `--config` / the file, for every field and every command line: an absent
    switch never overrides the file.  (Over the regenerated table; this is the obligation that
    no longer checks when an argparse default stops being `None`.) -/
theorem absent_cli_keeps_file (given cfg s s' : Settings) (k : Str)
    (hcfg : (cfg.map (·.1)).Nodup) (hk : aget k given = none)
    (h : applyCli Generated.settingsSchema Generated.optionSeparators
          (cliNamespace Generated.cliTable given) (applyConfig cfg s) = .ok s') :
    aget k s' = match aget k cfg with
      | some v => some v
      | none => aget k s := by
  have hdef : ∀ e ∈ Generated.cliTable, e.2.2 = none := fun e he => (cli_table_sound e he).2
  rw [aget_applyCli_none _ _ _ _ _ k (aget_cliNamespace_none _ given k hdef hk) h]
  cases hf : aget k cfg with
  | some v => simp [aget_applyConfig_some cfg s k v hcfg hf]
  | none => simp [aget_applyConfig_none cfg s k hf]

/-- Why the hypothesis "all defaults are `None`" is needed, for any table: an action declared
    with another default (e.g. argparse's implicit `False` of a bare `store_true`) puts that
    default into the namespace although the switch was not given, and `parse_arguments` then
    writes it over the value from the file. -/
theorem cli_default_overrides_file_witness (schema : List (Str × Tag × PyVal)) (seps : List (Str × Str))
    (r : List (Str × CliKind × Option PyVal)) (given s s' : Settings) (k : Str) (kd : CliKind) (d : PyVal) (t : Tag)
    (hnd : (((k, kd, some d) :: r).map (·.1)).Nodup) (hk : aget k given = none)
    (ht : tagOf schema k = some t)
    (h : applyCli schema seps (cliNamespace ((k, kd, some d) :: r) given) s = .ok s') :
    ∃ w, convertSetting seps t k d = .ok w ∧ aget k s' = some w :=
  aget_applyCli_some schema seps _ s s' k d t (cliNamespace_keys_nodup _ given hnd)
    (aget_cliNamespace_default _ given k kd d r rfl hk) ht h

/-- non-vacuity of the witness: `force: true` in the file, `--force` declared `store_true` with
    the implicit default `False`, nothing given: the file's value is lost -/
example : applyCli [("force".toList, Tag.bool, .atom (.bool false))] []
    (cliNamespace [("force".toList, CliKind.storeTrue, some (.atom (.bool false)))] [])
    [("force".toList, .atom (.bool true))] = .ok [("force".toList, .atom (.bool false))] := by rfl

/-- File over defaults: the keyword arguments of `ProjectSettings(**kw)` (what fpm.toml or the
    converted metadata supply) replace the defaults, every other field keeps its default -
    before `__post_init__`, for any number of options. -/
theorem file_over_defaults (schema : List (Str × Tag × PyVal)) (kw s : Settings) (k : Str)
    (hnd : (kw.map (·.1)).Nodup) (h : overlay schema kw (defaults schema) = .ok s) :
    aget k s = match aget k kw with
      | some v => some v
      | none => aget k (defaults schema) := by
  cases hk : aget k kw with
  | some v => simp [aget_overlay_some schema kw _ s k v hnd hk h]
  | none => simp [aget_overlay_none schema kw _ s k hk h]

/-! ### `extra_mods` and the built-in module table -/

/-- File over defaults for the entries of `extra_mods`, variant `repaired`
    (`{**INTRINSIC_MODS, **extra_mods}`): whatever the built-in table is, every entry the
    settings file gives is effective after `__post_init__`' merge. -/
theorem extra_mods_entry_effective (intrinsic : List (Str × Str)) (mods : List (Str × Atom)) (k : Str) (v : Atom)
    (hnd : (mods.map (·.1)).Nodup) (h : aget k mods = some v) :
    aget k (mergeMods true intrinsic mods) = some v := by
  simp only [mergeMods, if_true]
  exact aget_overlayMods_some mods _ k v hnd h

/-- The same for the code as it is (`extra_mods.update(INTRINSIC_MODS)`), which only holds
    outside the explicit class "the module is a key of the built-in table". -/
theorem extra_mods_entry_effective_partial (intrinsic : List (Str × Str)) (mods : List (Str × Atom)) (k : Str)
    (hk : k ∉ intrinsic.map (·.1)) :
    aget k (mergeMods false intrinsic mods) = aget k mods := by
  simp only [mergeMods, Bool.false_eq_true, if_false]
  exact aget_updateAll_not_mem intrinsic mods k hk

/-- The excluded class is real (finding C15-extra-mods-intrinsic-wins): for a module of the
    built-in table the effective URL is a built-in one whatever the settings file says -
    a default overrides the file. -/
theorem extra_mods_intrinsic_wins_witness (intrinsic : List (Str × Str)) (mods : List (Str × Atom)) (k : Str)
    (hk : k ∈ intrinsic.map (·.1)) :
    ∃ u, (k, u) ∈ intrinsic ∧ aget k (mergeMods false intrinsic mods) = some (.str u) := by
  simp only [mergeMods, Bool.false_eq_true, if_false]
  exact aget_updateAll_mem intrinsic mods k hk

/-- non-vacuity over the regenerated table: `iso_c_binding` is in the class, `example_mod` is not -/
example : "iso_c_binding".toList ∈ Generated.intrinsicMods.map (·.1)
    ∧ "example_mod".toList ∉ Generated.intrinsicMods.map (·.1) := by decide

/-! ### conversion of metadata values -/

/-- `load_markdown_settings` converts the metadata and `from_markdown_metadata` converts the
    result a second time: the second pass changes nothing and reports nothing, for every
    schema, every option type and every value. -/
theorem double_conversion_harmless (schema : List (Str × Tag × PyVal)) (seps : List (Str × Str))
    (m s : Settings) (w : List Str) (h : convertMeta schema seps m = .ok (s, w)) :
    convertMeta schema seps s = .ok (s, []) :=
  convertMeta_idem schema seps m s w h

/-- Ill-typed metadata values are rejected with a message naming the option - except for
    the two excluded error classes: whatever the option type, the key and the (non-empty)
    list of value lines, an error of `convert_setting` other than `int()`'s and
    `ExtraFileType.from_string`'s carries the option name; and the conversion never leaves
    the modelled fragment on metadata-shaped input. -/
theorem illtyped_names_option_partial (seps : List (Str × Str)) (t : Tag) (key : Str) (xs : List Str) (e : Err)
    (hne : xs ≠ []) (h : convertSetting seps t key (mdVal xs) = .error e)
    (hint : e ≠ .intBad) (heft : e ≠ .eftBad) : e.names = some key := by
  rcases convertSetting_md_error seps t key xs e hne h with h1 | h1 | h1
  · exact absurd h1 hint
  · exact absurd h1 heft
  · exact h1

/-- non-vacuity: a bool option with two value lines is such an error -/
example : convertSetting [] .bool "graph".toList (mdVal ["true".toList, "x".toList])
    = .error (.boolMulti "graph".toList) := by rfl

/-- The excluded class is real (finding C15-md-int-unnamed): `graph_maxdepth: x` is rejected by
    `int()` with a message that names no option. -/
theorem illtyped_int_unnamed_witness :
    convertSetting Generated.optionSeparators .int "graph_maxdepth".toList (mdVal ["x".toList]) = .error .intBad
    ∧ Err.intBad.names = none := ⟨by rfl, by rfl⟩

/-! ### unknown keys -/

/-- Metadata: a key that is not a settings field, anywhere in the block, is reported (it is in
    the warning list) and does not abort: the converted settings are exactly those of the
    block without it, and no other warning is lost. -/
theorem unknown_key_reported_md (schema : List (Str × Tag × PyVal)) (seps : List (Str × Str))
    (m1 m2 s : Settings) (w : List Str) (k : Str) (v : PyVal) (hk : tagOf schema k = none)
    (h : convertMeta schema seps (m1 ++ m2) = .ok (s, w)) :
    ∃ w', convertMeta schema seps (m1 ++ (k, v) :: m2) = .ok (s, w') ∧ k ∈ w' ∧ ∀ x ∈ w, x ∈ w' :=
  convertMeta_unknown_ok schema seps m1 m2 s w k v hk h

/-- fpm.toml (finding C15-toml-unknown-key-aborts): any table containing a key that is not a
    settings field makes `ProjectSettings(**table)` raise instead of reporting and going on. -/
theorem unknown_key_toml_aborts_witness (schema : List (Str × Tag × PyVal)) (intrinsic : List (Str × Str))
    (kw : Settings) (k : Str) (hk : k ∈ kw.map (·.1)) (hs : tagOf schema k = none) :
    ∃ k', construct schema intrinsic kw = .error (.unknownKw k') := by
  obtain ⟨k', h⟩ := overlay_unknown schema kw (defaults schema) k hk hs
  exact ⟨k', by simp [construct, h]⟩

/-- `--config` (finding C15-config-raw): every key/value is stored raw on the settings object -
    an unknown key silently becomes an attribute, a value is neither converted nor validated. -/
theorem config_stored_raw_witness (cfg s : Settings) (k : Str) (v : PyVal)
    (hcfg : (cfg.map (·.1)).Nodup) (h : aget k cfg = some v) : aget k (applyConfig cfg s) = some v :=
  aget_applyConfig_some cfg s k v hcfg h

/-- The same finding on the whole pipeline over the regenerated tables, evaluated by the kernel:
    `display: PUBLIC` in the metadata is lower-cased by `__post_init__`, `--config "display=['PUBLIC']"`
    is not - the two formats give different effective settings. -/
theorem config_not_normalised_witness :
    effField "display" (effective generatedTables "/p".toList "/pkg".toList none ["display: PUBLIC".toList] none [])
      = some (.list [.str "public".toList])
    ∧ effField "display" (effective generatedTables "/p".toList "/pkg".toList none []
        (some [("display".toList, .list [.str "PUBLIC".toList])]) [])
      = some (.list [.str "PUBLIC".toList]) := by decide +kernel

/-- fpm.toml values are not type-checked (finding C15-toml-not-type-checked): the string `"x"` for
    the integer option `graph_maxdepth` goes through the whole pipeline unchanged. -/
theorem toml_illtyped_accepted_witness :
    effField "graph_maxdepth" (effective generatedTables "/p".toList "/pkg".toList
        (some [("graph_maxdepth".toList, .atom (.str "x".toList))]) [] none [])
      = some (.atom (.str "x".toList)) := by decide +kernel

/-! ### paths -/

/-- An absolute path does not depend on the project directory ... -/
theorem path_absolute_ignores_dir (d1 d2 p : Str) (h : startsWith p ['/'] = true) :
    normPath d1 p = normPath d2 p := by
  simp [normPath, h]

/-- ... and a relative one is interpreted relative to the project file's directory: its
    normalisation is the normalisation of its own segments continued from the normalised
    directory.  (How the project directory itself follows from the working directory and the
    path typed on the command line is modelled in `SettingsSource.lean`, theorems of round 6 below.) -/
theorem path_relative_to_project_dir (dir p : Str) (h : startsWith p ['/'] = false) :
    normPath dir p =
      '/' :: joinSep '/' (normSegs (splitChar '/' p) (normSegs (splitChar '/' dir) []).reverse) := by
  simp [normPath, h, splitChar, splitCharAux_append, normSegs_append]

/-- The result of `normalise_path` is in normal form (no empty, `.` or `..` segment) ... -/
theorem path_normal_form (segs : List Str) : ∀ a ∈ normSegs segs [], normalSeg a = true :=
  normSegs_normal segs [] (by simp)

/-- ... and normalising it again, relative to any directory, changes nothing
    (`normalise_paths` may run again on already-normalised settings). -/
theorem path_idempotent (d d' p : Str) : normPath d' (normPath d p) = normPath d p := by
  have key : ∀ full : Str, normPath d' ('/' :: joinSep '/' (normSegs (splitChar '/' full) []))
      = '/' :: joinSep '/' (normSegs (splitChar '/' full) []) := by
    intro full
    have hn := normSegs_normal (splitChar '/' full) [] (by simp)
    have hs := normSegs_keeps '/' (splitChar '/' full) [] (by simp)
      (splitCharAux_pieces '/' full [] (by simp))
    generalize normSegs (splitChar '/' full) [] = N at hn hs
    simp only [normPath, startsWith, beq_self_eq_true, Bool.and_true, if_true]
    cases N with
    | nil => simp [joinSep, splitChar, splitCharAux, normSegs]
    | cons x r =>
      have hsp := splitChar_joinSep '/' (x :: r) (by simp) hs
      simp only [splitChar] at hsp
      simp only [splitChar, splitCharAux, beq_self_eq_true, if_true, List.reverse_nil]
      rw [hsp]
      rw [show normSegs ([] :: x :: r) [] = normSegs (x :: r) [] from by simp [normSegs],
        normSegs_of_normal _ _ hn]
      simp
  unfold normPath
  split
  · exact key p
  · exact key (d ++ '/' :: p)

/-! ### written paths and the "still the default?" tests of `normalise_paths` -/

/-- Every "is this option still at its default?" test of the regenerated `normalise_paths` is on a
    path option of the schema, compares against that option's *own default*, and compares the
    stored value itself (not `Path(value)`): only the untouched default - a `Path` - can pass it,
    never a value written in a settings file, `--config` or on the command line (all strings). -/
theorem sentinel_tests_sound :
    ∀ e ∈ Generated.sentinelTests,
      e.2.1 = false ∧ aget e.1 Generated.settingsSchema = some (Tag.path, .atom (.path e.2.2.1)) := by
  decide

/-- Relative paths are interpreted relative to the project file, for *every* written value: whatever
    the schema and whatever raw sentinel tests `normalise_paths` makes, a path option that holds a
    string `p` (what a settings file, `--config` or the command line delivers) holds
    `normalise_path(project directory, p)` afterwards - also when `p` spells the option's default
    (`favicon: favicon.png`, `md_base_dir: .`) or anything pathlib takes for it (`./favicon.png`). -/
theorem written_path_relative_to_project_dir (schema : List (Str × Tag × PyVal))
    (tests : List (Str × Bool × Str × SentinelRepl)) (dir pkg : Str) (s s' : Settings) (k p : Str)
    (hraw : ∀ e ∈ tests, e.2.1 = false)
    (ht : tagOf schema k = some .path ∨ tagOf schema k = some .optPath)
    (hd : k ≠ "directory".toList) (hu : k ≠ "project_url".toList)
    (hk : aget k s = some (.atom (.str p)))
    (h : normalisePaths schema tests dir pkg s = .ok s') :
    aget k s' = some (.atom (.path (normPath dir p))) := by
  obtain ⟨v', hv1, hv2⟩ := aget_normalisePaths schema tests dir pkg s s' k _ hraw hd hu
    ⟨hk, by intro q hq; cases hq⟩ h
  rcases ht with ht | ht <;> simp [ht, normField, normAtom] at hv1 <;> rw [hv2, ← hv1]

/-- The same for the list-of-paths options (`src_dir`, `exclude_dir`, `include`, ...): every item. -/
theorem written_path_list_relative_to_project_dir (schema : List (Str × Tag × PyVal))
    (tests : List (Str × Bool × Str × SentinelRepl)) (dir pkg : Str) (s s' : Settings) (k : Str) (ps : List Str)
    (hraw : ∀ e ∈ tests, e.2.1 = false)
    (ht : tagOf schema k = some .listPath)
    (hd : k ≠ "directory".toList) (hu : k ≠ "project_url".toList)
    (hk : aget k s = some (.list (ps.map .str)))
    (h : normalisePaths schema tests dir pkg s = .ok s') :
    aget k s' = some (.list (ps.map (fun p => .path (normPath dir p)))) := by
  obtain ⟨v', hv1, hv2⟩ := aget_normalisePaths schema tests dir pkg s s' k _ hraw hd hu
    ⟨hk, by intro q hq; cases hq⟩ h
  simp [ht, normField, normAtoms_strs] at hv1
  rw [hv2, ← hv1]

/-- Over the regenerated tables (schema, sentinel tests): every path option of FORD written as a
    string is resolved from the project directory by `normalise_paths`.  This is the obligation
    that no longer checks when a sentinel test starts to compare `Path(value)`. -/
theorem written_path_relative_generated (dir pkg : Str) (s s' : Settings) (k p : Str)
    (ht : tagOf Generated.settingsSchema k = some .path ∨ tagOf Generated.settingsSchema k = some .optPath)
    (hd : k ≠ "directory".toList)
    (hk : aget k s = some (.atom (.str p)))
    (h : normalisePaths Generated.settingsSchema Generated.sentinelTests dir pkg s = .ok s') :
    aget k s' = some (.atom (.path (normPath dir p))) := by
  refine written_path_relative_to_project_dir _ _ dir pkg s s' k p
    (fun e he => (sentinel_tests_sound e he).1) ht hd ?_ hk h
  intro hu
  subst hu
  revert ht
  decide

/-- Why "compares the stored value itself" is demanded, for any sentinel and any replacement: a test
    that compares `Path(value)` takes a written string that pathlib reads as the sentinel for the
    untouched default and replaces it - the project's own `favicon.png` next to the project file
    would silently become the icon shipped with FORD (a default overriding the file). -/
theorem coerced_sentinel_swallows_written_witness (dir pkg f sent p : Str) (repl : SentinelRepl) (s : Settings)
    (hp : pathParts p = pathParts sent) (hk : aget f s = some (.atom (.str p))) :
    applySentinels dir pkg [(f, true, sent, repl)] s = .ok (aset f (sentinelValue dir pkg sent repl) s)
    ∧ applySentinels dir pkg [(f, false, sent, repl)] s = .ok s := by
  simp [applySentinels, sentinelHit, hk, hp]

/-- non-vacuity: `./favicon.png` is read by pathlib as `favicon.png`; `img/favicon.png` is not -/
example : pathParts "./favicon.png".toList = pathParts "favicon.png".toList
    ∧ pathParts "img/favicon.png".toList ≠ pathParts "favicon.png".toList := by decide

/-- non-vacuity over the regenerated tables: `favicon` and `md_base_dir` are path options -/
example : tagOf Generated.settingsSchema "favicon".toList = some .path
    ∧ tagOf Generated.settingsSchema "md_base_dir".toList = some .path := by decide

/-! ### round 6: where the options are taken from (`initialize` / `load_settings` / `load_toml_settings`) -/

/-- Every attempt of the regenerated `load_settings` to find the manifest looks in the directory of
    the *project file* (and there is at least one): nothing is looked up in the working directory.
    A second lookup somewhere else (`load_toml_settings(Path.cwd())`) changes the regenerated table
    and this obligation no longer checks. -/
theorem toml_lookup_sound :
    Generated.tomlLookups ≠ [] ∧ ∀ l ∈ Generated.tomlLookups, l = LookupDir.projectDir := by decide

/-- "the `[extra.ford]` table of fpm.toml": the file the regenerated `load_toml_settings` opens and the
    table it passes to `ProjectSettings(**...)`. -/
theorem manifest_is_extra_ford_of_fpm_toml :
    Generated.manifestName = "fpm.toml".toList
    ∧ Generated.manifestTablePath = ["extra".toList, "ford".toList] := by decide

/-- The source of a project's options is decided by the manifest *next to the project file* alone:
    for every file system, working directory and spelling of the project file on the command line,
    the regenerated lookup sequence selects what `load_toml_settings` makes of
    `<directory of the project file>/fpm.toml`. -/
theorem source_is_manifest_next_to_project_file (fs : FileSys) (cwd addr : Str) :
    selectToml fs cwd (dirname addr) Generated.tomlLookups
      = loadToml (manifestAt fs (projectDirOf cwd addr)) :=
  selectToml_projectDir_only fs cwd (dirname addr) _ toml_lookup_sound.1 toml_lookup_sound.2

/-- "... whatever the working directory": two starts of FORD that name the same project file - from
    any two working directories, with any relative or absolute spelling of the path - have the same
    effective configuration (or the same error), whatever manifests lie in the working directories and
    whatever text files are readable, for every metadata block, `--config` table and command line.
    Whole pipeline, regenerated tables.  `_partial`: outside the class "the options come from a metadata
    block in which a string option opens with an include statement `{!`" (decidable: `mdIncludes`) - inside
    it the code as it is does depend on the working directory, see the witness below. -/
theorem effective_same_from_every_working_directory_partial (fs : FileSys) (files : List (Str × List Str))
    (incRep : Bool) (cwd₁ addr₁ cwd₂ addr₂ pkg : Str) (md : List Str) (config : Option Settings) (cli : Settings)
    (h : projectDirOf cwd₁ addr₁ = projectDirOf cwd₂ addr₂)
    (hinc : mdIncludes generatedTables md = false
      ∨ ∃ kw, manifestAt fs (projectDirOf cwd₁ addr₁) = .ford kw) :
    effectiveAt generatedTables Generated.tomlLookups fs cwd₁ addr₁ pkg md config cli files incRep
      = effectiveAt generatedTables Generated.tomlLookups fs cwd₂ addr₂ pkg md config cli files incRep := by
  simp only [effectiveAt, source_is_manifest_next_to_project_file, ← h]
  cases hm : loadToml (manifestAt fs (projectDirOf cwd₁ addr₁)) with
  | error e => rfl
  | ok toml =>
    have henv : toml.isSome = true ∨ mdIncludes generatedTables md = false := by
      rcases hinc with hinc | ⟨kw, hk⟩
      · exact Or.inr hinc
      · rw [hk] at hm
        simp [loadToml] at hm
        exact Or.inl (by simp [← hm])
    simp only [effective_env generatedTables (projectDirOf cwd₁ addr₁) pkg toml md config cli _
      { cwd := cwd₂, directory := dirname addr₂, files := files, baseFromProject := incRep } henv]

/-- The violating class, on the code as it is (`incRep = false`), whole pipeline over the regenerated tables:
    `md_base_dir: sub` + `summary: {!inc.md!}` with `<project>/sub/inc.md` on disk gives the file's text when FORD
    is started in the project directory and the empty string when the same project file is named from the parent
    directory - the relative `md_base_dir` is read from the working directory, not from the project file.
    With the repair (`Path(directory) / md_base_dir`, variant `incRep = true`) both starts give the file's text. -/
theorem include_base_dir_depends_on_cwd_witness :
    effFieldAt "summary" (effectiveAt generatedTables Generated.tomlLookups [] "/w/proj".toList "p.md".toList
        "/pkg".toList ["---".toList, "md_base_dir: sub".toList, "summary: {!inc.md!}".toList, "---".toList] none []
        [("/w/proj/sub/inc.md".toList, ["Included".toList])] false)
      = some (.atom (.str "Included".toList))
    ∧ effFieldAt "summary" (effectiveAt generatedTables Generated.tomlLookups [] "/w".toList "proj/p.md".toList
        "/pkg".toList ["---".toList, "md_base_dir: sub".toList, "summary: {!inc.md!}".toList, "---".toList] none []
        [("/w/proj/sub/inc.md".toList, ["Included".toList])] false)
      = some (.atom (.str []))
    ∧ effFieldAt "summary" (effectiveAt generatedTables Generated.tomlLookups [] "/w".toList "proj/p.md".toList
        "/pkg".toList ["---".toList, "md_base_dir: sub".toList, "summary: {!inc.md!}".toList, "---".toList] none []
        [("/w/proj/sub/inc.md".toList, ["Included".toList])] true)
      = some (.atom (.str "Included".toList)) := by
  decide +kernel

/-- Outside that class the include workaround is the identity, for every environment: no file is read, and the
    earlier theorems about the metadata format (stated without it) speak about the whole `load_markdown_settings`. -/
theorem include_only_where_a_value_opens_with_an_include (env : IncEnv) (kw : Settings)
    (h : opensInclude kw = false) : includeStep env kw kw = .ok kw :=
  includeStep_id env kw kw h

/-- The documented shape of an include statement is read as `markdown_include` reads it: text before, file name
    (blanks around it dropped), text after; a line without `{!` is left alone (non-vacuity of `incParse`). -/
example : incParse "see {! docs/inc.md !} end".toList = .inc "see ".toList "docs/inc.md".toList " end".toList
    ∧ incParse "{!inc.md!}".toList = .inc [] "inc.md".toList []
    ∧ incParse "a { b ! c".toList = .plain ∧ incParse "{!a!}{!b!}".toList = .other
    ∧ incParse "{! !}".toList = .other := by decide

/-- A manifest in any directory other than the project file's - the working directory, the parent
    directory, an unrelated fpm package - has no influence on the effective configuration: it may
    appear, disappear, change its `[extra.ford]` table or be unreadable. -/
theorem manifest_elsewhere_is_ignored (fs : FileSys) (files : List (Str × List Str)) (incRep : Bool)
    (d : Str) (m : Manifest) (cwd addr pkg : Str)
    (md : List Str) (config : Option Settings) (cli : Settings)
    (h : projectDirOf cwd addr ≠ d) :
    effectiveAt generatedTables Generated.tomlLookups (aset d m fs) cwd addr pkg md config cli files incRep
      = effectiveAt generatedTables Generated.tomlLookups fs cwd addr pkg md config cli files incRep := by
  simp only [effectiveAt, source_is_manifest_next_to_project_file, manifestAt_aset_ne fs d _ m h]

/-- "written as project-file metadata, as the `[extra.ford]` table of fpm.toml": the manifest next to
    the project file is the configuration exactly when it has an `[extra.ford]` table (then the
    metadata block is not consulted); without the file, without `[extra]` or without `[extra.ford]`
    the metadata block of the project file is.  In both cases relative paths are taken from the
    project file's directory. -/
theorem source_is_manifest_table_or_metadata (fs : FileSys) (files : List (Str × List Str)) (incRep : Bool)
    (cwd addr pkg : Str) (md : List Str) (config : Option Settings) (cli : Settings) :
    (∀ kw, manifestAt fs (projectDirOf cwd addr) = .ford kw →
      effectiveAt generatedTables Generated.tomlLookups fs cwd addr pkg md config cli files incRep
        = (effective generatedTables (projectDirOf cwd addr) pkg (some kw) md config cli).mapError .settings)
    ∧ (manifestAt fs (projectDirOf cwd addr) = .absent ∨ manifestAt fs (projectDirOf cwd addr) = .noExtra
        ∨ manifestAt fs (projectDirOf cwd addr) = .noFord →
      effectiveAt generatedTables Generated.tomlLookups fs cwd addr pkg md config cli files incRep
        = (effective generatedTables (projectDirOf cwd addr) pkg none md config cli
            { cwd := cwd, directory := dirname addr, files := files, baseFromProject := incRep }).mapError .settings) := by
  refine ⟨fun kw hk => ?_, fun hk => ?_⟩
  · simp only [effectiveAt, source_is_manifest_next_to_project_file, hk, loadToml]
    rw [effective_env generatedTables (projectDirOf cwd addr) pkg (some kw) md config cli _ {} (Or.inl rfl)]
    cases effective generatedTables (projectDirOf cwd addr) pkg (some kw) md config cli <;> rfl
  · rcases hk with hk | hk | hk <;>
      simp only [effectiveAt, source_is_manifest_next_to_project_file, hk, loadToml] <;>
      cases effective generatedTables (projectDirOf cwd addr) pkg none md config cli
        { cwd := cwd, directory := dirname addr, files := files, baseFromProject := incRep } <;> rfl

/-- A project file given by an absolute path has the same project directory from every working
    directory (so the two theorems above apply to `ford /abs/doc/ford.md` started anywhere) ... -/
theorem absolute_project_file_fixes_project_dir (cwd₁ cwd₂ r : Str) :
    projectDirOf cwd₁ ('/' :: r) = projectDirOf cwd₂ ('/' :: r) :=
  path_absolute_ignores_dir cwd₁ cwd₂ _ (dirname_absolute r)

/-- ... and a bare file name (`ford ford.md`) has the working directory as project directory. -/
theorem bare_project_file_is_in_working_directory (cwd name : Str) (h : name.contains '/' = false) :
    projectDirOf cwd name = normPath cwd [] := by
  simp [projectDirOf, dirname_no_slash name h]

/-- Why `toml_lookup_sound` is demanded, for any option table: with a fall-back lookup in the working
    directory, one and the same project file (absolute path, no manifest next to it) is configured
    by its metadata block when FORD is started in `cwd₁` and by the unrelated manifest lying in
    `cwd₂` when started there. -/
theorem cwd_lookup_depends_on_cwd_witness (kw : Settings) (cwd₁ cwd₂ r : Str)
    (hp₁ : normPath cwd₁ ('/' :: r) ≠ normPath cwd₂ []) (hp₂ : normPath cwd₂ ('/' :: r) ≠ normPath cwd₂ [])
    (hc : normPath cwd₁ [] ≠ normPath cwd₂ []) :
    selectToml [(normPath cwd₂ [], .ford kw)] cwd₁ ('/' :: r) [.projectDir, .cwd] = .ok none
    ∧ selectToml [(normPath cwd₂ [], .ford kw)] cwd₂ ('/' :: r) [.projectDir, .cwd] = .ok (some kw) := by
  simp [selectToml, lookupDir, manifestAt, aget, loadToml, Ne.symm hp₁, Ne.symm hp₂, Ne.symm hc]

/-- non-vacuity: the layout of the usual fpm package - project file `/w/pkg/doc/ford.md`, started from
    `/w/pkg/doc`, from `/w/pkg` and from `/w/other` - is one project directory; `dirname` behaves as
    `os.path.dirname` on the boundary spellings -/
example : projectDirOf "/w/pkg/doc".toList "ford.md".toList = "/w/pkg/doc".toList
    ∧ projectDirOf "/w/pkg".toList "doc/ford.md".toList = "/w/pkg/doc".toList
    ∧ projectDirOf "/w/other".toList "../pkg/./doc//ford.md".toList = "/w/pkg/doc".toList
    ∧ projectDirOf "/w/other".toList "/w/pkg/doc/ford.md".toList = "/w/pkg/doc".toList
    ∧ dirname "/ford.md".toList = "/".toList ∧ dirname "//a".toList = "//".toList
    ∧ dirname "a//b".toList = "a".toList ∧ dirname "a/b/".toList = "a/b".toList := by decide

/-- non-vacuity of the witness: the hypotheses are satisfiable, and over the regenerated lookup table
    the same two starts agree -/
example :
    selectToml [("/w/other".toList, .ford [("project".toList, .atom (.str "Other".toList))])]
        "/w/pkg".toList "/w/pkg/doc".toList [.projectDir, .cwd] = .ok none
    ∧ selectToml [("/w/other".toList, .ford [("project".toList, .atom (.str "Other".toList))])]
        "/w/other".toList "/w/pkg/doc".toList [.projectDir, .cwd]
        = .ok (some [("project".toList, .atom (.str "Other".toList))])
    ∧ selectToml [("/w/other".toList, .ford [("project".toList, .atom (.str "Other".toList))])]
        "/w/other".toList "/w/pkg/doc".toList Generated.tomlLookups = .ok none := by
  refine ⟨?_, ?_, ?_⟩ <;> rfl

end Ford.C15
