/-
  C01 — the documented entity tree equals the declared program structure.
  Property theorems only.  The model (FordModel/Parse.lean) is the statement-kind
  level reading of FortranContainer.__init__; the generated tables come from
  translate/c01.py (ast of ford/sourceform.py).
-/
import FordModel.Parse
import FordModel.Lemmas.Parse
import FordModel.Generated.C01
namespace Ford.C01
open Ford.Parse

/-- **Structure round trip.**  For every declared program structure - any number
    of program units per file, any nesting depth of internal procedures, types,
    interfaces, enumerations, block data, with any number of declarations, USE,
    COMMON, NAMELIST, binding and FINAL statements, in which every statement
    stands where the nesting tables allow it and at most one main program is
    present - parsing the statement stream yields exactly the declared tree:
    every entity once, under the unit that declares it, in order; nothing else;
    no diagnostic; no exception. -/
theorem structure_roundtrip (evs : Evs) (hw : evs.wf .file false = true) (hp : evs.progs ≤ 1) :
    parseFile evs.flatten = .ok (.mk .file 0 false false evs.canon, []) := by
  have h := run_evs evs { kind := .file, id := 0 } [] [] [] (by simpa using hw) rfl (by simpa using hp)
  simp only [List.append_nil] at h
  simp [parseFile, initSt, h, addEvs, Frame.close, run]

/-- the same, for one unit followed by arbitrary further statements: the rest of the
    file is parsed from the state in which exactly that unit has been recorded -/
theorem unit_then_rest (d : Decl) (rest : List Item) (hw : d.wf .file false = true) :
    run initSt (d.flatten ++ rest) =
      run ⟨[addEvs { kind := .file, id := 0 } [.inl d.canon] (isProgram d.kind)], []⟩ rest := by
  have := run_decl d { kind := .file, id := 0 } [] [] rest (by simpa using hw) rfl
    (by cases d with | mk k _ _ _ _ _ _ => cases k <;> simp [Decl.kind, isProgram])
  simpa [initSt] using this

/-- An unbalanced END at file level rejects the file (the source-file object has no
    `_cleanup`), whatever was parsed before it. -/
theorem stray_end_rejects (evs : Evs) (rest : List Item) (hw : evs.wf .file false = true)
    (hp : evs.progs ≤ 1) : parseFile (evs.flatten ++ .endUnit :: rest) = .error .notImplemented := by
  have h := run_evs evs { kind := .file, id := 0 } [] [] (.endUnit :: rest) (by simpa using hw) rfl
    (by simpa using hp)
  simp [parseFile, initSt, h, run, step, addEvs]

/-- The order and the guards of the `if/elif` cascade in the current source are the
    ones `step` implements (regenerated from the source on every run). -/
theorem cascade_as_modelled :
    Generated.C01.cascade =
      [("line_lower == 'contains'", ""),
       ("line_lower in ['public', 'private', 'protected']", ""),
       ("line_lower == 'sequence'", ""),
       ("FORMAT_RE.match", ""),
       ("ATTRIB_RE.match", "blocklevel == 0"),
       ("END_RE.match", ""),
       ("MODPROC_RE.match", "match['module'] or isinstance(self, FortranInterface)"),
       ("BLOCK_DATA_RE.match", ""),
       ("BLOCK_RE.match", ""),
       ("ASSOCIATE_RE.match", ""),
       ("MODULE_RE.match", ""),
       ("SUBMODULE_RE.match", ""),
       ("PROGRAM_RE.match", ""),
       ("SUBROUTINE_RE.match", ""),
       ("NAMELIST_RE.match", ""),
       ("FUNCTION_RE.match", ""),
       ("TYPE_RE.match", "blocklevel == 0"),
       ("INTERFACE_RE.match", "blocklevel == 0"),
       ("ENUM_RE.match", "blocklevel == 0"),
       ("BOUNDPROC_RE.match", "incontains"),
       ("COMMON_RE.match", ""),
       ("FINAL_RE.match", "incontains"),
       ("VARIABLE_RE.match", "blocklevel == 0"),
       ("USE_RE.match", ""),
       ("ARITH_GOTO_RE.search", ""),
       ("CALL_RE.search or SUBCALL_RE.search", "")] := by decide

def ckName : CK → String
  | .file => "file" | .module => "module" | .submodule => "submodule" | .program => "program"
  | .subroutine => "subroutine" | .function => "function" | .modprocImpl => "modprocImpl"
  | .type => "type" | .interface => "interface" | .enum => "enum" | .blockdata => "blockdata"

def tableHas (k : CK) (attr : String) : Bool :=
  match Generated.C01.hasattrTable.lookup (ckName k) with
  | some l => l.contains attr
  | none => false

/-- The `hasattr(self, "<list>")` tests of the cascade: the model's predicates agree,
    for every container class, with the list attributes the class initialisers
    define in the current source. -/
theorem hasattr_as_modelled (k : CK) :
    hasCalls k = tableHas k "calls" ∧ hasAttrDict k = tableHas k "attr_dict" ∧
    hasProcLists k = tableHas k "subroutines" ∧ hasProcLists k = tableHas k "functions" ∧
    hasTypes k = tableHas k "types" ∧ hasCodeUnitLists k = tableHas k "interfaces" ∧
    hasCodeUnitLists k = tableHas k "enums" ∧ hasCodeUnitLists k = tableHas k "namelists" ∧
    hasVariables k = tableHas k "variables" ∧ hasUses k = tableHas k "uses" ∧
    hasUses k = tableHas k "common" ∧ (k == .file) = tableHas k "modules" ∧
    (k == .file) = tableHas k "submodules" ∧ (k == .file) = tableHas k "programs" ∧
    (k == .file) = tableHas k "blockdata" ∧ (k == .type) = tableHas k "boundprocs" ∧
    (k == .type) = tableHas k "finalprocs" ∧ (k == .interface) = tableHas k "modprocs" ∧
    isModuleLike k = tableHas k "modprocedures" := by
  cases k <;> decide

/-- `_can_have_contains` as modelled -/
theorem canHaveContains_as_modelled :
    Generated.C01.canHaveContains =
      ["FortranModule", "FortranProgram", "FortranProcedure", "FortranType", "FortranSubmodule",
       "FortranModuleProcedureImplementation"] := by decide

/-- non-vacuity: a module with a variable, a type with a binding after CONTAINS, a
    generic interface with a module procedure, and two module procedures one of
    which has an internal procedure, followed by a main program, is well formed -/
def sample : Evs :=
  .consD (.mk .module 1 false false
      (.consL .use 2 (.consL .variable 3
        (.consD (.mk .type 4 false false (.consL .variable 5 .nil) true (.consL .boundproc 6 (.consL .final 7 .nil)))
          (.consD (.mk .interface 8 true false (.consL .modprocRef 9 .nil) false .nil) .nil))))
      true
      (.consD (.mk .subroutine 9 false false (.consL .variable 10 .nil) true
          (.consD (.mk .function 11 false false .nil false .nil) .nil))
        (.consD (.mk .function 12 false false .nil false .nil) .nil)))
    (.consD (.mk .program 13 false false (.consL .use 1 .nil) false .nil) .nil)

example : sample.wf .file false = true ∧ sample.progs ≤ 1 := by decide

end Ford.C01
