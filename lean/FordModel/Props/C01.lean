/-
  C01 — the documented entity tree equals the declared program structure.
  Property theorems only.  The model (FordModel/Parse.lean) is the statement-kind
  level reading of FortranContainer.__init__; the generated tables come from
  translate/c01.py (ast of ford/sourceform.py).
-/
import FordModel.Parse
import FordModel.Lemmas.Parse
import FordModel.Generated.C01
import FordModel.TypeSpec
import FordModel.Lemmas.TypeSpec
import FordModel.Lemmas.TypeSpecChar
import FordModel.Generated.C01TypeSpec
import FordModel.Lemmas.DeclList
import FordModel.Lemmas.TypeSpecProto
import FordModel.Mask
import FordModel.MaskSpec
import FordModel.Lemmas.Mask
import FordModel.Attribs
import FordModel.AttribsSpec
import FordModel.Lemmas.Attribs
import FordModel.TypeHead
import FordModel.Lemmas.TypeHead
import FordModel.Entity
import FordModel.Lemmas.Entity
import FordModel.C01Obs
import FordModel.FuncHead
import FordModel.Lemmas.FuncHead
import FordModel.SrcFiles
import FordModel.Lemmas.SrcFiles
namespace Ford.C01
open Ford.Parse

/-- **Structure round trip.**  For every declared program structure - any number
    of program units per file, any nesting depth of internal procedures, types,
    interfaces, enumerations, block data, with any number of declarations, USE,
    COMMON, NAMELIST, binding and FINAL statements, in which every statement
    stands where the nesting tables allow it and at most one main program is
    present - parsing the statement stream yields exactly the declared tree:
    every entity once, under the unit that declares it, in order; nothing else;
    no diagnostic; no exception. -/
theorem structure_roundtrip (evs : Evs) (hw : evs.wf .file false = true) (hp : evs.progs ≤ 1) :
    parseFile evs.flatten = .ok (.mk .file 0 false false evs.canon, []) := by
  have h := run_evs evs { kind := .file, id := 0 } [] [] [] (by simpa using hw) rfl (by simpa using hp)
  simp only [List.append_nil] at h
  simp [parseFile, initSt, h, addEvs, Frame.close, run]

/-- the same, for one unit followed by arbitrary further statements: the rest of the
    file is parsed from the state in which exactly that unit has been recorded -/
theorem unit_then_rest (d : Decl) (rest : List Item) (hw : d.wf .file false = true) :
    run initSt (d.flatten ++ rest) =
      run ⟨[addEvs { kind := .file, id := 0 } [.inl d.canon] (isProgram d.kind)], []⟩ rest := by
  have := run_decl d { kind := .file, id := 0 } [] [] rest (by simpa using hw) rfl
    (by cases d with | mk k _ _ _ _ _ _ => cases k <;> simp [Decl.kind, isProgram])
  simpa [initSt] using this

/-- An unbalanced END at file level rejects the file (the source-file object has no
    `_cleanup`), whatever was parsed before it. -/
theorem stray_end_rejects (evs : Evs) (rest : List Item) (hw : evs.wf .file false = true)
    (hp : evs.progs ≤ 1) : parseFile (evs.flatten ++ .endUnit :: rest) = .error .notImplemented := by
  have h := run_evs evs { kind := .file, id := 0 } [] [] (.endUnit :: rest) (by simpa using hw) rfl
    (by simpa using hp)
  simp [parseFile, initSt, h, run, step, addEvs]

/-- The order and the guards of the `if/elif` cascade in the current source are the
    ones `step` implements (regenerated from the source on every run; the local variables of
    `FortranContainer.__init__` appear alpha-renamed in order of first use - `v1` the lower-cased
    statement, `v2` the match object, `v3` the BLOCK nesting level, `v4` "after CONTAINS" - so that
    renaming one of them does not change the table, while reordering branches or guards does). -/
theorem cascade_as_modelled :
    Generated.C01.cascade =
      [("v1 == 'contains'", ""),
       ("v1 in ('private', 'protected', 'public')", ""),
       ("v1 == 'sequence'", ""),
       ("FORMAT_RE.match", ""),
       ("ATTRIB_RE.match", "v3 == 0"),
       ("END_RE.match", ""),
       ("MODPROC_RE.match", "v2['module'] or isinstance(self, FortranInterface)"),
       ("BLOCK_DATA_RE.match", ""),
       ("BLOCK_RE.match", ""),
       ("ASSOCIATE_RE.match", ""),
       ("MODULE_RE.match", ""),
       ("SUBMODULE_RE.match", ""),
       ("PROGRAM_RE.match", ""),
       ("SUBROUTINE_RE.match", ""),
       ("NAMELIST_RE.match", ""),
       ("FUNCTION_RE.match", ""),
       ("TYPE_RE.match", "v3 == 0"),
       ("INTERFACE_RE.match", "v3 == 0"),
       ("ENUM_RE.match", "v3 == 0"),
       ("BOUNDPROC_RE.match", "v4"),
       ("COMMON_RE.match", ""),
       ("FINAL_RE.match", "v4"),
       ("VARIABLE_RE.match", "v3 == 0"),
       ("USE_RE.match", ""),
       ("ARITH_GOTO_RE.search", ""),
       ("CALL_RE.search or SUBCALL_RE.search", "")] := by decide

def ckName : CK → String
  | .file => "file" | .module => "module" | .submodule => "submodule" | .program => "program"
  | .subroutine => "subroutine" | .function => "function" | .modprocImpl => "modprocImpl"
  | .type => "type" | .interface => "interface" | .enum => "enum" | .blockdata => "blockdata"

def tableHas (k : CK) (attr : String) : Bool :=
  match Generated.C01.hasattrTable.lookup (ckName k) with
  | some l => l.contains attr
  | none => false

/-- The `hasattr(self, "<list>")` tests of the cascade: the model's predicates agree,
    for every container class, with the list attributes the class initialisers
    define in the current source. -/
theorem hasattr_as_modelled (k : CK) :
    hasCalls k = tableHas k "calls" ∧ hasAttrDict k = tableHas k "attr_dict" ∧
    hasProcLists k = tableHas k "subroutines" ∧ hasProcLists k = tableHas k "functions" ∧
    hasTypes k = tableHas k "types" ∧ hasCodeUnitLists k = tableHas k "interfaces" ∧
    hasCodeUnitLists k = tableHas k "enums" ∧ hasCodeUnitLists k = tableHas k "namelists" ∧
    hasVariables k = tableHas k "variables" ∧ hasUses k = tableHas k "uses" ∧
    hasUses k = tableHas k "common" ∧ (k == .file) = tableHas k "modules" ∧
    (k == .file) = tableHas k "submodules" ∧ (k == .file) = tableHas k "programs" ∧
    (k == .file) = tableHas k "blockdata" ∧ (k == .type) = tableHas k "boundprocs" ∧
    (k == .type) = tableHas k "finalprocs" ∧ (k == .interface) = tableHas k "modprocs" ∧
    isModuleLike k = tableHas k "modprocedures" := by
  cases k <;> decide

/-- `_can_have_contains` as modelled -/
theorem canHaveContains_as_modelled :
    Generated.C01.canHaveContains =
      ["FortranModule", "FortranProgram", "FortranProcedure", "FortranType", "FortranSubmodule",
       "FortranModuleProcedureImplementation"] := by decide

/-- non-vacuity: a module with a variable, a type with a binding after CONTAINS, a
    generic interface with a module procedure, and two module procedures one of
    which has an internal procedure, followed by a main program, is well formed -/
def sample : Evs :=
  .consD (.mk .module 1 false false
      (.consL .use 2 (.consL .variable 3
        (.consD (.mk .type 4 false false (.consL .variable 5 .nil) true (.consL .boundproc 6 (.consL .final 7 .nil)))
          (.consD (.mk .interface 8 true false (.consL .modprocRef 9 .nil) false .nil) .nil))))
      true
      (.consD (.mk .subroutine 9 false false (.consL .variable 10 .nil) true
          (.consD (.mk .function 11 false false .nil false .nil) .nil))
        (.consD (.mk .function 12 false false .nil false .nil) .nil)))
    (.consD (.mk .program 13 false false (.consL .use 1 .nil) false .nil) .nil)

example : sample.wf .file false = true ∧ sample.progs ≤ 1 := by decide

/-! ### equivalent spellings of a declaration's type specification (`parse_type`, character level) -/

/-- The regular expressions `parse_type` uses in the current source are the ones the scanners of
    `FordModel/TypeSpec.lean` were written for (regenerated from the source on every run). -/
theorem typespec_regexes_as_modelled :
    Generated.C01TypeSpec.regexes =
      [("VAR_TYPE_STRING", "^integer|real|double\\s*precision|character|complex|double\\s*complex|logical|type|class|procedure|enumerator", "IGNORECASE"),
       ("VARKIND_RE", "\\((.*)\\)|\\*\\s*(\\d+|\\(.*\\))", ""),
       ("KIND_RE", "kind\\s*=\\s*([^,\\s]+)", "IGNORECASE"),
       ("LEN_RE", "(?:len\\s*=\\s*(\\w+|\\*|:|\\d+)|(\\d+))", "IGNORECASE"),
       ("PROTO_RE", "(\\*|\\w+)\\s*(?:\\((.*)\\))?", ""),
       ("DOUBLE_PREC_RE", "double\\s*precision", "IGNORECASE"),
       ("DOUBLE_CMPLX_RE", "double\\s*complex", "IGNORECASE"),
       ("QUOTES_RE", "\\\"([^\\\"]|\\\"\\\")*\\\"|'([^']|'')*'", "IGNORECASE")] := by decide

/-- `get_parens` stops, at nesting level 0, at a letter or at one of the characters listed in the
    current source - exactly the model's `isStop`. -/
theorem getParens_stops_as_modelled (c : Char) :
    TypeSpec.isStop c = (isAlpha c || Generated.C01TypeSpec.stopChars.toList.contains c) := by
  have : Generated.C01TypeSpec.stopChars.toList = ['_', ':', ',', ' '] := by decide
  rw [this]
  simp only [TypeSpec.isStop, List.contains, List.elem, Bool.or_assoc]
  cases isAlpha c <;> cases c == '_' <;> cases c == ':' <;> cases c == ',' <;> cases c == ' ' <;> rfl

open Ford.TypeSpec in
/-- **Kind spellings agree (`real*8` ≡ `real(8)` ≡ `real(kind=8)`).**  For every numeric intrinsic
    type, written in any letter case, any digit string `n`, any amount of blanks wherever Fortran
    allows them (also after the asterisk, repaired by the `fix:` commit for C01-star-blank), the keyword `kind` in any letter case, and any continuation of the statement that
    `get_parens` stops at (end of text, a blank, a letter, `_`, `:` or `,`), the three spellings
    decompose into the same type, the same kind `n` and the same remainder, and none of them fails. -/
theorem kind_spellings_agree (ty : NumT) (t w1 w2 w3 K wa wb ws n tail : Str)
    (ht : lower t = ty.kw) (hK : lower K = (chars! "kind"))
    (h1 : isBlank w1 = true) (h2 : isBlank w2 = true) (h3 : isBlank w3 = true)
    (ha : isBlank wa = true) (hb : isBlank wb = true) (hws : isBlank ws = true)
    (hn : ∀ c ∈ n, isDigit c = true) (hne : n ≠ []) (htail : EndsScan tail)
    (hnl : ∀ c ∈ w1 ++ w2 ++ w3 ++ wa ++ wb ++ tail, c ≠ '\n') (hnls : ∀ c ∈ ws, c ≠ '\n') :
    let expected : Except TErr Parsed := .ok { vartype := ty.kw, rest := strip tail, kind := some n }
    parseType (t ++ (w1 ++ (('*' :: (ws ++ n)) ++ tail))) = expected ∧
    parseType (t ++ (w1 ++ (('(' :: (w2 ++ n ++ w3) ++ [')']) ++ tail))) = expected ∧
    parseType (t ++ (w1 ++ (('(' :: (w2 ++ K ++ wa ++ '=' :: (wb ++ n ++ w3)) ++ [')']) ++ tail))) = expected := by
  have hkc : ∀ c ∈ n, kindCh c = true := fun c hc => digit_kindCh (hn c hc)
  have hp := kind_paren_kw_agree ty t w1 w2 w3 K wa wb n tail ht hK h1 h2 h3 ha hb hkc hne htail hnl
  refine ⟨?_, hp.1, hp.2⟩
  exact parseType_star ty t w1 ws n tail ht h1 hws hn hne htail
    (fun c hc => by
      simp only [List.mem_append] at hc
      rcases hc with (hc | hc) | hc
      · exact hnl c (by simp [hc])
      · exact hnls c hc
      · exact hnl c (by simp [hc]))

open Ford.TypeSpec in
/-- **`t(k)` ≡ `t(kind=k)` for every flat kind expression** (a name such as `dp`, `real64`, `c_int`, a
    component `k%v`, a number): same type, same kind, same remainder, no failure, in any letter case
    and blank layout. -/
theorem kind_keyword_optional (ty : NumT) (t w1 w2 w3 K wa wb k tail : Str)
    (ht : lower t = ty.kw) (hK : lower K = (chars! "kind"))
    (h1 : isBlank w1 = true) (h2 : isBlank w2 = true) (h3 : isBlank w3 = true)
    (ha : isBlank wa = true) (hb : isBlank wb = true)
    (hk : ∀ c ∈ k, kindCh c = true) (hne : k ≠ []) (htail : EndsScan tail)
    (hnl : ∀ c ∈ w1 ++ w2 ++ w3 ++ wa ++ wb ++ tail, c ≠ '\n') :
    let expected : Except TErr Parsed := .ok { vartype := ty.kw, rest := strip tail, kind := some k }
    parseType (t ++ (w1 ++ (('(' :: (w2 ++ k ++ w3) ++ [')']) ++ tail))) = expected ∧
    parseType (t ++ (w1 ++ (('(' :: (w2 ++ K ++ wa ++ '=' :: (wb ++ k ++ w3)) ++ [')']) ++ tail))) = expected :=
  kind_paren_kw_agree ty t w1 w2 w3 K wa wb k tail ht hK h1 h2 h3 ha hb hk hne htail hnl

open Ford.TypeSpec in
/-- non-vacuity: `ReAL  *8 :: x`, `ReAL  ( 8 ) :: x`, `ReAL  ( KiNd = 8 ) :: x` meet the hypotheses, and
    the model computes the common decomposition -/
example :
    (parseType "ReAL  * 8 :: x".toList).toOption = some { vartype := "real".toList, rest := ":: x".toList, kind := some ['8'] } ∧
    (parseType "ReAL  ( 8 ) :: x".toList).toOption = some { vartype := "real".toList, rest := ":: x".toList, kind := some ['8'] } ∧
    (parseType "ReAL  ( KiNd = 8 ) :: x".toList).toOption
      = some { vartype := "real".toList, rest := ":: x".toList, kind := some ['8'] } := by decide

open Ford.TypeSpec in
/-- **Length spellings of `character` agree** (`character(n)` ≡ `character(len=n)` ≡ `character*(n)`, and
    `character*n` for a number).  `n` is `*`, `:`, a number or a name; keywords in any letter case; runs of
    blanks and tabs wherever Fortran allows them; any continuation `get_parens` stops at.  All spellings
    decompose into type `character`, length `n`, no kind, and the same remainder; none fails. -/
theorem character_length_spellings_agree (t w1 w2 w3 wa wb ws L n tail : Str)
    (ht : lower t = kwChar) (hL : lower L = (chars! "len")) (hn : LenVal n)
    (h1 : isPad w1 = true) (h2 : isPad w2 = true) (h3 : isPad w3 = true)
    (ha : isPad wa = true) (hb : isPad wb = true) (hws : isPad ws = true)
    (htail : EndsScan tail) (htn : tail.all (fun c => c != '\n') = true) :
    let expected : Except TErr Parsed := .ok { vartype := kwChar, rest := strip tail, strlen := some n }
    parseType (t ++ (w1 ++ (('(' :: (w2 ++ n ++ w3) ++ [')']) ++ tail))) = expected ∧
    parseType (t ++ (w1 ++ (('(' :: (w2 ++ (L ++ wa ++ '=' :: (wb ++ n)) ++ w3) ++ [')']) ++ tail))) = expected ∧
    parseType (t ++ (w1 ++ (('*' :: (ws ++ '(' :: (w2 ++ n ++ w3) ++ [')'])) ++ tail))) = expected ∧
    ((∀ c ∈ n, isDigit c = true) → parseType (t ++ (w1 ++ (('*' :: (ws ++ n)) ++ tail))) = expected) := by
  have hnk := lenVal_kindCh hn
  have hne := lenVal_ne hn
  refine ⟨?_, ?_, ?_, ?_⟩
  · have := parse_char_one t w1 w2 n w3 tail (some n) none ht h1 h2 h3
      (fun c hc => kindCh_argCh (hnk c hc)) hne htail htn (charArgs_bare hn)
    simpa using this
  · have hLa := kw_alpha L _ hL lenKw_alpha
    have hX : ∀ c ∈ w2 ++ (L ++ wa ++ '=' :: (wb ++ n)) ++ w3, isParen c = false := by
      intro c hc
      simp only [List.mem_append, List.mem_cons] at hc
      rcases hc with (hc | (hc | hc) | rfl | hc | hc) | hc
      · exact blank_paren (isPad_blank h2) c hc
      · exact alpha_paren (hLa c hc)
      · exact blank_paren (isPad_blank ha) c hc
      · decide
      · exact blank_paren (isPad_blank hb) c hc
      · exact kindCh_paren (hnk c hc)
      · exact blank_paren (isPad_blank h3) c hc
    have hLn := allNotNl L (fun c hc => nospace_ne_nl (alpha_space (hLa c hc)))
    have hNn := allNotNl n (fun c hc => nospace_ne_nl (kindCh_space (hnk c hc)))
    have hLs : ∀ c ∈ L, isSpace c = false := fun c hc => alpha_space (hLa c hc)
    have hNs : ∀ c ∈ n, isSpace c = false := fun c hc => kindCh_space (hnk c hc)
    have hrm : removeWs (w2 ++ (L ++ wa ++ '=' :: (wb ++ n)) ++ w3) = L ++ '=' :: n := by
      rw [show ('=' :: (wb ++ n)) = ['='] ++ (wb ++ n) by rfl]
      simp only [removeWs_append, removeWs_blank _ (isPad_blank h2), removeWs_blank _ (isPad_blank h3),
        removeWs_blank _ (isPad_blank ha), removeWs_blank _ (isPad_blank hb),
        removeWs_nospace L hLs, removeWs_nospace n hNs, List.nil_append, List.append_nil]
      rfl
    have := parse_char_paren t w1 (w2 ++ (L ++ wa ++ '=' :: (wb ++ n)) ++ w3) tail [L ++ '=' :: n] (some n) none
      ht h1 hX (by simp [List.all_append, isPad_nl h2, isPad_nl h3, isPad_nl ha, isPad_nl hb, hLn, hNn])
      (by cases L <;> simp_all [lower])
      htail htn
      (by rw [hrm]; exact splitComma_one _ (fun c hc => argCh_comma (kwArg_argCh L n _ hL lenKw_alpha hnk c hc)))
      (by simp) (charArgs_len L n hL hn)
    simpa using this
  · exact parse_char_star_paren t w1 ws w2 n w3 tail ht h1 hws h2 h3 hnk hne htail htn
  · intro hd
    exact parse_char_star t w1 ws n tail ht h1 hws hd hne htail htn

open Ford.TypeSpec in
/-- **Length-and-kind spellings of `character` agree**: `(len=n, kind=k)` ≡ `(kind=k, len=n)` ≡
    `(n, kind=k)` ≡ `(n, k)` for a length value `n` and a flat kind `k`, keywords in any letter case, blanks
    around the parentheses and the comma: type `character`, length `n`, kind `k`, same remainder. -/
theorem character_length_kind_spellings_agree (t w1 w2 w3 w4 w5 L K n k tail : Str)
    (ht : lower t = kwChar) (hL : lower L = (chars! "len")) (hK : lower K = (chars! "kind"))
    (hn : LenVal n) (hk : ∀ c ∈ k, kindCh c = true) (hkne : k ≠ [])
    (h1 : isPad w1 = true) (h2 : isPad w2 = true) (h3 : isPad w3 = true) (h4 : isPad w4 = true)
    (h5 : isPad w5 = true) (htail : EndsScan tail) (htn : tail.all (fun c => c != '\n') = true) :
    let expected : Except TErr Parsed :=
      .ok { vartype := kwChar, rest := strip tail, kind := some k, strlen := some n }
    parseType (t ++ (w1 ++ (('(' :: (w2 ++ (L ++ '=' :: n) ++ w3 ++ ',' :: (w4 ++ (K ++ '=' :: k) ++ w5)) ++ [')']) ++ tail))) = expected ∧
    parseType (t ++ (w1 ++ (('(' :: (w2 ++ (K ++ '=' :: k) ++ w3 ++ ',' :: (w4 ++ (L ++ '=' :: n) ++ w5)) ++ [')']) ++ tail))) = expected ∧
    parseType (t ++ (w1 ++ (('(' :: (w2 ++ n ++ w3 ++ ',' :: (w4 ++ (K ++ '=' :: k) ++ w5)) ++ [')']) ++ tail))) = expected ∧
    parseType (t ++ (w1 ++ (('(' :: (w2 ++ n ++ w3 ++ ',' :: (w4 ++ k ++ w5)) ++ [')']) ++ tail))) = expected := by
  have hnk := lenVal_kindCh hn
  have hne := lenVal_ne hn
  have hAl := kwArg_argCh L n _ hL lenKw_alpha hnk
  have hAk := kwArg_argCh K k _ hK kindKw_alpha hk
  have hAn : ∀ c ∈ n, argCh c = true := fun c hc => kindCh_argCh (hnk c hc)
  have hAkk : ∀ c ∈ k, argCh c = true := fun c hc => kindCh_argCh (hk c hc)
  refine ⟨?_, ?_, ?_, ?_⟩
  · have := parse_char_two t w1 w2 (L ++ '=' :: n) w3 w4 (K ++ '=' :: k) w5 tail (some n) (some k) ht h1 h2 h3 h4 h5
      hAl hAk (by simp) htail htn (charArgs_len_kind L K n k hL hK hn hk hkne)
    simpa using this
  · have := parse_char_two t w1 w2 (K ++ '=' :: k) w3 w4 (L ++ '=' :: n) w5 tail (some n) (some k) ht h1 h2 h3 h4 h5
      hAk hAl (by simp) htail htn (charArgs_kind_len L K n k hL hK hn hk hkne)
    simpa using this
  · have := parse_char_two t w1 w2 n w3 w4 (K ++ '=' :: k) w5 tail (some n) (some k) ht h1 h2 h3 h4 h5
      hAn hAk hne htail htn (charArgs_bare_kind K n k hK hn hk hkne)
    simpa using this
  · have := parse_char_two t w1 w2 n w3 w4 k w5 tail (some n) (some k) ht h1 h2 h3 h4 h5
      hAn hAkk hne htail htn (charArgs_bare_bare n k hn hk)
    simpa using this

open Ford.TypeSpec in
/-- non-vacuity: concrete spellings that meet the hypotheses -/
example :
    (parseType "CHARACTER ( LEN = 10 ) :: s".toList).toOption
      = some { vartype := kwChar, rest := ":: s".toList, strlen := some "10".toList } ∧
    (parseType "character * (10) :: s".toList).toOption
      = some { vartype := kwChar, rest := ":: s".toList, strlen := some "10".toList } ∧
    (parseType "character(kind=ck, len=*), intent(in) :: s".toList).toOption
      = some { vartype := kwChar, rest := ", intent(in) :: s".toList, kind := some "ck".toList, strlen := some ['*'] } ∧
    (parseType "character(*, ck), intent(in) :: s".toList).toOption
      = some { vartype := kwChar, rest := ", intent(in) :: s".toList, kind := some "ck".toList, strlen := some ['*'] } := by
  decide
/-! ### string literals are masked before the cascade and put back afterwards (`QUOTES_RE`, character level) -/

open Ford.Mask in
/-- **Masking captures exactly the declared literals, in order.**  For every statement made of plain text
    pieces and any number of character literals - either delimiter, any contents (also contents that look like
    the internal placeholders `"0"`, `"1"`, ..., doubled delimiters, the other quote character, `!`, `;`, `&`),
    the same literal any number of times - in which two literals are separated by at least one character, the
    masking loop of `FortranContainer.__init__` terminates without error, `self.strings` is the list of the
    literals as written, in source order, and the masked line is the statement with the i-th literal replaced
    by `"i"` and every other character untouched. -/
theorem mask_literals_in_order (segs : List (Str × Lit)) (tail : Str)
    (hw : wfSegs true segs = true) (ht : noQuote tail = true) :
    mask (render segs tail) = .ok (renderMasked 0 segs tail, litTexts segs) :=
  mask_segs segs tail hw ht

open Ford.Mask in
/-- **Placeholders are replaced by the captured literal of that number.**  For every text with any number of
    placeholders `"k"` (any order, repeated, any subset of the captured literals: the initial value of one
    entity of a declaration is such a fragment of the masked line), every `k` below the number of captured
    literals, the loop of `line_to_variables` terminates without error and yields the text with each `"k"`
    replaced by the (transformed) k-th captured literal and every other character untouched; `g` is any
    transformation that leaves quote characters where they are. -/
theorem restore_placeholders (g : Str → Str) (hg : QuoteNeutral g) (lits : List Lit)
    (hl : ∀ l ∈ lits, isQuote l.q = true) (items : List (Str × Nat)) (tail : Str)
    (hw : wfItems lits.length true items = true) (ht : noQuote tail = true) :
    restore g (renderPh items tail) (lits.map Lit.text) = .ok (renderBack g (lits.map Lit.text) items tail) :=
  restore_items g hg lits hl items tail hw ht

open Ford.Mask in
/-- **Masking is transparent.**  Restoring the masked statement with the captured strings gives back the
    statement as declared, character for character; with the transformation `line_to_variables` applies
    (`NBSP_RE`) the only characters that change are blanks inside literals.  Hence the reported text of a
    literal never depends on its delimiter, its contents or its position in the statement. -/
theorem mask_restore_roundtrip (segs : List (Str × Lit)) (tail : Str)
    (hw : wfSegs true segs = true) (ht : noQuote tail = true) :
    ∃ m strs, mask (render segs tail) = .ok (m, strs) ∧
      restore id m strs = .ok (render segs tail) ∧
      restore nbsp m strs = .ok (renderG nbsp segs tail) := by
  refine ⟨_, _, mask_segs segs tail hw ht, ?_, mask_then_restore nbsp nbsp_neutral segs tail hw ht⟩
  rw [mask_then_restore id id_neutral segs tail hw ht, renderG_id]

open Ford.Mask in
/-- the transformation `line_to_variables` applies to a captured literal (`NBSP_RE.sub`) meets the hypothesis
    of `restore_placeholders`: it leaves every quote character in place -/
theorem nbsp_keeps_quotes : QuoteNeutral nbsp := nbsp_neutral

open Ford.C01Obs in
/-- `QUOTES_RE` and `NBSP_RE` as compiled in the working tree mean what `Mask.scanBody`/`search` and `Mask.nbsp` were
    written for (equal parse trees, or equal behaviour on an exhaustive run over token sequences - the table then
    carries the modelled text), and the two loops DO what `Mask.mask` and `Mask.restore` compute: on every probe -
    one-statement files read by the real `FortranContainer.__init__`, initial values restored by the real
    `line_to_variables` - the masked line, `self.strings`, the restored text or the exception class recorded by
    the translator is the model's answer (regenerated from the working tree on every run; a rewrite of either
    loop that keeps its meaning leaves the table unchanged, one that changes what it does on a probe does not). -/
theorem mask_source_as_modelled :
    Generated.C01.quotesRe.head? = some "\\\"([^\\\"]|\\\"\\\")*\\\"|'([^']|'')*'" ∧
    Generated.C01.nbspRe = [" (?= )|(?<= ) ", ""] ∧
    (Generated.C01.maskProbes.all fun p => maskObs p.1 == p.2) = true ∧
    (Generated.C01.restoreProbes.all fun p => restoreObs p.1 p.2.1 == p.2.2) = true ∧
    Generated.C01.maskProbes.length ≥ 20 ∧ Generated.C01.restoreProbes.length ≥ 20 := by
  decide +kernel

open Ford.Mask in
/-- non-vacuity: `bits(2) = ["1", "0"]`, a statement whose second literal looks like the first placeholder,
    meets the hypotheses; the model computes the masked line, the captured strings and the round trip.  The
    separation hypothesis is needed: two literals written without anything between them (not Fortran) are
    captured as one. -/
example :
    let segs : List (Str × Lit) := [((chars! "bits(2) = ["), ⟨'"', ['1']⟩), ((chars! ", "), ⟨'"', ['0']⟩)]
    wfSegs true segs = true ∧ render segs [']'] = (chars! "bits(2) = [\"1\", \"0\"]") ∧
    (mask (chars! "bits(2) = [\"1\", \"0\"]")).toOption
      = some ((chars! "bits(2) = [\"0\", \"1\"]"), [(chars! "\"1\""), (chars! "\"0\"")]) ∧
    (restore id (chars! "bits(2) = [\"0\", \"1\"]") [(chars! "\"1\""), (chars! "\"0\"")]).toOption
      = some (chars! "bits(2) = [\"1\", \"0\"]") ∧
    (mask (chars! "'a'\"b\"")).toOption = some ((chars! "\"0\"\"b\""), [(chars! "'a'")]) := by decide

open Ford.TypeSpec in
/-- **`double precision` ≡ `doubleprecision` (and `double complex`)**: the two words in any letter case
    with any run of blanks or none between them are the one type `double precision` (`double complex`),
    with the same remainder; the spelling never reaches the reported type.  (The blank-less spelling was
    reported as its own type before fix 222292f.) -/
theorem double_types_spelling (d : DblT) (t1 ws t2 tail : Str)
    (h1 : lower t1 = (chars! "double")) (h2 : lower t2 = d.second) (hws : isPad ws = true)
    (htail : EndsScan (strip tail)) (htn : tail.all (fun c => c != '\n') = true) :
    parseType (t1 ++ (ws ++ (t2 ++ tail))) = .ok { vartype := d.norm, rest := strip tail } ∧
    parseType (t1 ++ (t2 ++ tail)) = .ok { vartype := d.norm, rest := strip tail } := by
  refine ⟨parseType_dbl d t1 ws t2 tail h1 h2 hws htail htn, ?_⟩
  have := parseType_dbl d t1 [] t2 tail h1 h2 rfl htail htn
  simpa using this

open Ford.TypeSpec in
example :
    (parseType "DoublePrecision :: x".toList).toOption = some { vartype := "double precision".toList, rest := ":: x".toList } ∧
    (parseType "double   precision, save :: x".toList).toOption
      = some { vartype := "double precision".toList, rest := ", save :: x".toList } := by decide

open Ford.Show Ford.TypeSpec in
/-- **Entity list of a declaration: exactly the declared names, once each, in order.**  For any type
    specification text `T` without a character literal and without `::` inside it, and any number of names,
    the statement `T :: n1, n2, ..., nk` is recorded as exactly the k entities `n1 ... nk` (no dimension, no
    initial value, not a pointer assignment) - none missing, none invented, none twice, whichever variant of
    the initial-value split the working tree has (`line_to_variables` as modelled by `Show.declVarsOpt`, which
    is compared with the real `line_to_variables` on every run by the `decl` streams of C18 and C02). -/
theorem declaration_entities_exact (typ n : Str) (ns : List Str) (eqJoin : Bool)
    (htyp : ∀ c ∈ typ, isQuote c = false ∧ c ≠ ':')
    (hn : ∀ m ∈ n :: ns, NameOk m ∧ m ≠ []) :
    declVarsOpt false (typ ++ [' ', ':', ':', ' '] ++ joinStr sepCS (n :: ns)) eqJoin
      = .ok ((n :: ns).map fun m => ⟨m, [], false, none⟩) :=
  declVars_names typ n ns eqJoin htyp hn

open Ford.Show in
example :
    (declVarsOpt false "real(kind=dp), intent(in) :: alpha, beta_2, g".toList).toOption
      = some [⟨"alpha".toList, [], false, none⟩, ⟨"beta_2".toList, [], false, none⟩, ⟨"g".toList, [], false, none⟩] := by
  decide

/-! ### attributes: several entities per declaration x separate attribute statements (`process_attribs`) -/

open Ford.Attribs in
/-- **Every attribute reaches exactly the entities it is given for.**  For every specification part - any number
    of type declaration statements with any number of entities and any attribute lists, any number of attribute
    statements of any keyword (`target :: u`, `dimension v(3), w(:)`, `intent(in) x`, `parameter (n = 3)`, ...)
    naming any entities, in any order - whose declared names differ pairwise (letter case ignored; not needed in
    block data) and whose PARAMETER items all have their `=` (`paramsOk`): the unit's variables are exactly the declared
    entities, once each, in source order, and each one is what ITS OWN declaration says, updated by the texts that
    the attribute statements file under ITS OWN name, in statement order - nothing else.  In particular what is
    given for one entity of a declaration line never reaches the other entities of that line.  Holds for every
    variant `cfg` of the four repairable places. -/
theorem attributes_reach_exactly_the_named_entities (cfg : Cfg) (bd : Bool) (inh : Str) (stmts : List Stmt)
    (hok : paramsOk cfg stmts = true)
    (hd : bd = true ∨ ((declared inh stmts).map fun v => lower v.name).Pairwise (· ≠ ·)) :
    run cfg bd inh stmts = .ok (dropExternal cfg bd ((declared inh stmts).map fun v =>
      applyAll cfg (params cfg stmts) v (named cfg stmts (lower v.name)))) :=
  run_eq cfg bd inh stmts hok hd

open Ford.Attribs in
/-- **An entity no attribute statement names is documented exactly as declared**, whatever statements name the
    other entities of its declaration line (or anything else). -/
theorem unnamed_entity_is_as_declared (cfg : Cfg) (p : List (Str × Str)) (stmts : List Stmt) (v : Var)
    (hn : named cfg stmts (lower v.name) = []) :
    applyAll cfg p v (named cfg stmts (lower v.name)) = v := by
  rw [hn]; rfl

open Ford.Attribs in
/-- **Attribute statement ≡ attribute on the declaration.**  `T, as :: e` with a later statement `k :: e` is
    documented exactly as `T, as, k :: e` without that statement - every variable of the unit identical, `e`
    included - for every plain attribute keyword `k` (`save`, `target`, `volatile`, `asynchronous`, `value`,
    `external`, `allocatable`, `pointer`, `bind(c)`, ...: `isPlain`), any statements before, between and after
    (declarations with any number of entities, attribute statements for other entities, later ones for `e` too),
    as long as no earlier attribute statement names `e` and the declared names differ pairwise. -/
theorem attribute_statement_equals_attribute_on_declaration (cfg : Cfg) (bd : Bool) (inh : Str)
    (pre mid post : List Stmt) (as : List Str) (e : Ent) (k : Str)
    (hk : isPlain cfg k = true) (hn : ∀ c ∈ e.name, isWord c = true)
    (hd : ((declared inh (pre ++ .decl as [e] :: (mid ++ .attr k e.name :: post))).map
            fun v => lower v.name).Pairwise (· ≠ ·))
    (hq : named cfg (pre ++ mid) (lower e.name) = []) :
    run cfg bd inh (pre ++ .decl as [e] :: (mid ++ .attr k e.name :: post))
      = run cfg bd inh (pre ++ .decl (as ++ [k]) [e] :: (mid ++ post)) :=
  stmt_vs_inline cfg bd inh pre mid post as e k (plain_of cfg k hk) hn hd hq

open Ford.Attribs in
/-- **One declaration statement for several entities ≡ one statement each.**  `T, as :: e1, .., ej, f1, .., fk`
    is documented exactly as `T, as :: e1, .., ej` followed by `T, as :: f1, .., fk`, in any context: every entity
    of a line owns its copy of the line's attributes. -/
theorem one_declaration_or_several (cfg : Cfg) (bd : Bool) (inh : Str) (pre post : List Stmt) (as : List Str)
    (es fs : List Ent) :
    run cfg bd inh (pre ++ .decl as (es ++ fs) :: post) = run cfg bd inh (pre ++ .decl as es :: .decl as fs :: post) := by
  have h1 : declared inh (pre ++ .decl as (es ++ fs) :: post) = declared inh (pre ++ .decl as es :: .decl as fs :: post) := by
    simp [declared_append, declared_cons, declVars]
  have h2 : named cfg (pre ++ .decl as (es ++ fs) :: post) = named cfg (pre ++ .decl as es :: .decl as fs :: post) := by
    funext n; simp [named_append, named_cons, contrib_decl]
  have h3 : params cfg (pre ++ .decl as (es ++ fs) :: post) = params cfg (pre ++ .decl as es :: .decl as fs :: post) := by
    simp [params_append, params_cons, paramPairs_decl]
  have h4 : paramsOk cfg (pre ++ .decl as (es ++ fs) :: post) = paramsOk cfg (pre ++ .decl as es :: .decl as fs :: post) := by
    simp [paramsOk_append, paramsOk_cons, paramItems_decl]
  simp only [Attribs.run, h1, h2, h3, h4]

open Ford.Attribs in
/-- **A PARAMETER item without `=` rejects the file** (`split[1]` raises IndexError; `paramsOk` is constantly
    true in the repaired variant `cfg.paramJoin`) - the only way this machinery fails. -/
theorem parameter_item_without_value_rejects (cfg : Cfg) (bd : Bool) (inh : Str) (stmts : List Stmt)
    (h : paramsOk cfg stmts = false) : run cfg bd inh stmts = .error .indexError := by
  simp [Attribs.run, h]

open Ford.Attribs Ford.C01Obs in
/-- What the current source does with the attributes of a variable is what `FordModel/Attribs.lean` computes
    (regenerated from the working tree on every run): every variable owns its attribute list (observed on live
    objects: the entities of one declaration get different lists, a variable does not share the list it was
    constructed with, nor the default), `DIM_RE` means the modelled pattern, and on every probe - specification
    parts of declarations and attribute statements that visit every branch of the classification loop of
    `line_to_variables`, of the `ATTRIB_RE` branch, of both `process_attribs` loops and of the `external` filter,
    in all five kinds of unit, read by the real `FortranSourceFile` - the variables of the unit (name, attributes
    in order, dimension, intent, optional, permission, parameter, initial value) or the exception are the
    model's answer for the variant `attrCfg` of the four repairable places that the translator observed. -/
theorem attribs_source_as_modelled :
    (Generated.C01.attribsOwnership.all fun p => p.2) = true ∧ Generated.C01.attribsOwnership.length = 3 ∧
    Generated.C01.dimRe = ["^\\w+\\s*(\\(.*\\))\\s*$", ""] ∧
    (Generated.C01.attrProbes.all fun p =>
      attrsObs Generated.C01.attrCfg p.1 (chars! "public") p.2.1 == p.2.2) = true ∧
    Generated.C01.attrProbes.length ≥ 30 := by
  decide +kernel

open Ford.Attribs in
/-- Repair cbe48be files the items of an access / SAVE / OPTIONAL ... statement under `_attr_key(name)` instead of
    `name.strip().lower()`.  For every item and every name without a parenthesis - every variable name - the two keys
    select the same items, so every theorem about `Attribs.contrib` (which compares `lower (strip it)` with the
    variable's name) holds for both spellings of the source accepted by `attribs_source_as_modelled`. -/
theorem attr_key_repair_invisible_to_variables (it n : Str) (hn : n.contains '(' = false) :
    (attrKey it = n ↔ lower (strip it) = n) := attrKey_same_items it n hn

open Ford.Attribs in
/-- non-vacuity: `public :: Operator ( + )` is filed under `operator(+)`, `save :: X ` under `x` as before -/
example : attrKey (chars! " Operator ( + ) ") = (chars! "operator(+)") ∧ attrKey (chars! " X ") = (chars! "x") := by decide

open Ford.Attribs in
/-- non-vacuity (the situation of `real, save :: u, v` / `target :: u` / `dimension v(3)`): the hypotheses hold,
    `u` gets `target`, `v` gets `dimension(3)`, neither gets the other's; the keywords of the equivalence theorem
    are plain in every variant -/
example :
    let cfg : Cfg := ⟨false, false, false, false⟩
    let stmts : List Stmt :=
      [.decl [(chars! "save")] [⟨['u'], [], none⟩, ⟨['v'], [], none⟩], .attr (chars! "target") ['u'],
       .attr (chars! "dimension") (chars! "v(3)")]
    paramsOk cfg stmts = true ∧
    (run cfg false (chars! "public") stmts).toOption
      = some [⟨['u'], [(chars! "save"), (chars! "target")], [], [], false, (chars! "public"), false, none⟩,
              ⟨['v'], [(chars! "save"), (chars! "dimension(3)")], [], [], false, (chars! "public"), false, none⟩] ∧
    (AttribsSpec.allCfgs.all fun c =>
      [(chars! "save"), (chars! "target"), (chars! "volatile"), (chars! "asynchronous"), (chars! "value"),
       (chars! "external"), (chars! "allocatable"), (chars! "pointer"), (chars! "bind(c)")].all (isPlain c)) = true := by
  decide

open Ford.TypeSpec in
/-- **`type(name)` / `class(name)` / `procedure(name)` in any spelling.**  The keyword in any letter case,
    any runs of blanks around the parentheses and the name: the declared type is the keyword, the
    prototype is the name as written, nothing is lost to the remainder, and `parse_type` does not fail. -/
theorem derived_type_spec_spellings (ty : ProtoT) (t w1 w2 n w3 tail : Str) (ht : lower t = ty.kw)
    (h1 : isPad w1 = true) (h2 : isPad w2 = true) (h3 : isPad w3 = true)
    (hn : ∀ c ∈ n, isWord c = true) (hne : n ≠ [])
    (htail : EndsScan tail) (htn : tail.all (fun c => c != '\n') = true) :
    parseType (t ++ (w1 ++ (('(' :: (w2 ++ n ++ w3) ++ [')']) ++ tail)))
      = .ok { vartype := ty.kw, rest := strip tail, proto := some (n, []) } :=
  parse_proto ty t w1 w2 n w3 tail ht h1 h2 h3 hn hne htail htn

open Ford.TypeSpec in
example :
    (parseType "TYPE ( vec_t ), intent(in) :: v".toList).toOption
      = some { vartype := "type".toList, rest := ", intent(in) :: v".toList, proto := some ("vec_t".toList, []) } ∧
    (parseType "class(shape)::s".toList).toOption
      = some { vartype := "class".toList, rest := "::s".toList, proto := some ("shape".toList, []) } := by decide

/-! ## The statement that opens a derived type (`TYPE_RE`, `FortranType._initialize`, `VARIABLE_STRING`) -/

open Ford.TypeSpec Ford.TypeHead in
/-- **Every identifier names a derived type.**  `type name` - the keyword in any letter case, any run of
    blanks, any identifier at all (`isotope`, `is_stable_t`, `IS`, `type_t`, `end`, ...) - is taken as the
    definition of the derived type with exactly that name: nothing else is recorded (no parent, no attribute,
    the inherited permission, no parameter), whatever the name begins with. -/
theorem type_definition_every_identifier (inh t w n w2 : Str) (ht : lower t = (chars! "type"))
    (hw : isBlank w = true) (hwne : w ≠ []) (hn : ∀ c ∈ n, isWord c = true) (hne : n ≠ []) (hw2 : isBlank w2 = true) :
    typeStmt inh (t ++ (w ++ (n ++ w2))) = some ⟨n, none, [], inh, []⟩ :=
  typeStmt_plain inh t w n w2 ht hw hwne hn hne hw2

open Ford.TypeSpec Ford.TypeHead in
/-- **`type name` and `type :: name` are the same declaration** - for every identifier, independently of the
    letter case of the keyword and of the blanks in either spelling. -/
theorem type_definition_spellings_agree (inh t t' w w0 w1 n w2 w2' : Str) (ht : lower t = (chars! "type"))
    (ht' : lower t' = (chars! "type")) (hw : isBlank w = true) (hwne : w ≠ []) (h0 : isBlank w0 = true)
    (h1 : isBlank w1 = true) (hn : ∀ c ∈ n, isWord c = true) (hne : n ≠ []) (hw2 : isBlank w2 = true)
    (hw2' : isBlank w2' = true) :
    typeStmt inh (t ++ (w ++ (n ++ w2))) = typeStmt inh (t' ++ (w0 ++ ':' :: ':' :: (w1 ++ (n ++ w2')))) := by
  rw [typeStmt_plain inh t w n w2 ht hw hwne hn hne hw2, typeStmt_colons inh t' w0 w1 n w2' ht' h0 h1 hn hne hw2']

open Ford.TypeSpec Ford.TypeHead in
/-- **`type, a₁, a₂, … :: name`.**  Any number of attribute texts (no comma or colon inside, blanks anywhere
    around them), any identifier: the type has exactly that name and its attributes are classified one by one,
    in the order written, each text exactly as written (`attrStep`, whose three cases follow). -/
theorem type_definition_attribute_list_as_written (inh t w0 w1 n w2 : Str) (items : List (Str × Str × Str))
    (ht : lower t = (chars! "type")) (h0 : isBlank w0 = true) (hi : items ≠ [])
    (hok : ∀ it ∈ items, attrItemOk it = true) (h1 : isBlank w1 = true) (hn : ∀ c ∈ n, isWord c = true)
    (hne : n ≠ []) (h2 : isBlank w2 = true) :
    typeStmt inh (t ++ (w0 ++ ',' :: (renderAttrs items ++ ':' :: ':' :: (w1 ++ (n ++ w2))))) =
      some ((items.map (·.2.1)).foldl attrStep ⟨n, none, [], inh, []⟩) :=
  typeStmt_attrs inh t w0 w1 n w2 items ht h0 hi hok h1 hn hne h2

open Ford.TypeSpec Ford.TypeHead in
/-- `extends ( parent )` - keyword in any letter case, any blanks, any parent name (also one that begins with
    a keyword) - records the parent as written and changes nothing else. -/
theorem extends_attribute_names_the_parent (ti : TypeInfo) (e w1 w2 b w3 : Str) (he : lower e = (chars! "extends"))
    (h1 : isBlank w1 = true) (h2 : isBlank w2 = true) (hb : ∀ c ∈ b, c ≠ '(' ∧ c ≠ ')' ∧ isSpace c = false)
    (hbne : b ≠ []) (h3 : isBlank w3 = true) :
    attrStep ti (e ++ (w1 ++ '(' :: (w2 ++ (b ++ (w3 ++ [')']))))) = { ti with base := some b } :=
  attrStep_extends ti e w1 w2 b w3 he h1 h2 hb hbne h3

open Ford.TypeSpec Ford.TypeHead in
/-- `public` / `private` in any letter case set the permission (lower-cased) and change nothing else. -/
theorem access_attribute_sets_the_permission (ti : TypeInfo) (a : Str) (ha : tight a = true)
    (hk : lower a = (chars! "public") ∨ lower a = (chars! "private")) :
    attrStep ti a = { ti with permission := lower a } :=
  attrStep_access ti a ha hk

open Ford.TypeSpec Ford.TypeHead in
/-- every other attribute without a parenthesis (`abstract`, `sequence`-like words, ...) is appended to the
    attributes exactly as written. -/
theorem other_attribute_is_kept_as_written (ti : TypeInfo) (a : Str) (ha : tight a = true) (hnp : ∀ c ∈ a, c ≠ '(')
    (h1 : lower a ≠ (chars! "public")) (h2 : lower a ≠ (chars! "private")) (h3 : lower a ≠ (chars! "external")) :
    attrStep ti a = { ti with attribs := ti.attribs ++ [a] } :=
  attrStep_plain ti a ha hnp h1 h2 h3

open Ford.TypeSpec Ford.TypeHead in
/-- **Parameterised type head** `type name ( .. )`: groups 2 and 3 of `TYPE_RE` are the name and the parameter
    list as written - for every identifier except `is` (in any letter case), which followed by a parenthesis is
    the SELECT TYPE guard (next theorem); that exclusion is the explicit hypothesis `hx`. -/
theorem type_definition_with_parameters_partial (t w n w1 body w2 : Str) (ht : lower t = (chars! "type"))
    (hw : isBlank w = true) (hwne : w ≠ []) (hn : ∀ c ∈ n, isWord c = true) (hne : n ≠ [])
    (hx : lower n ≠ (chars! "is")) (h1 : isBlank w1 = true) (hb : ∀ c ∈ body, c ≠ '(' ∧ c ≠ ')')
    (h2 : isBlank w2 = true) :
    typeRe (t ++ (w ++ (n ++ (w1 ++ '(' :: (body ++ ')' :: w2))))) = some ⟨none, n, some ('(' :: (body ++ [')']))⟩ :=
  typeRe_plain_params t w n w1 body w2 ht hw hwne hn hne hx h1 hb h2

open Ford.TypeSpec Ford.TypeHead in
/-- **Nothing undeclared: the SELECT TYPE guards.**  `type is ( ..`, `class is ( ..`, `class default` - keywords
    in any letter case, any blanks, anything at all after them - are neither a derived type definition
    (`TYPE_RE`) nor a declaration (`VARIABLE_RE`). -/
theorem select_type_guards_declare_nothing (t cl i df w w1 rest : Str) (ht : lower t = (chars! "type"))
    (hc : lower cl = (chars! "class")) (hi : lower i = (chars! "is")) (hd : lower df = (chars! "default"))
    (hw : isBlank w = true) (hwne : w ≠ []) (h1 : isBlank w1 = true) :
    typeRe (t ++ (w ++ (i ++ (w1 ++ '(' :: rest)))) = none ∧
    varRe (t ++ (w ++ (i ++ rest))) = none ∧
    varRe (cl ++ (w ++ (i ++ rest))) = none ∧
    varRe (cl ++ (w ++ (df ++ rest))) = none :=
  ⟨typeRe_guard t w i w1 rest ht hw hi h1, varRe_guard_type t w i rest ht hw hwne hi,
   varRe_guard_class_is cl w i rest hc hw hwne hi, varRe_guard_class_default cl w df rest hc hw hwne hd⟩

open Ford.TypeSpec Ford.TypeHead in
/-- **A declaration `type ( .. ) ..` / `class ( .. ) ..` is a declaration** and never a type definition: `TYPE_RE`
    (tried first by the cascade) rejects it, `VARIABLE_RE` accepts it with the keyword as written and everything
    from the parenthesis on - whatever the type name inside the parentheses and the entity names begin with. -/
theorem derived_type_declaration_is_a_declaration (t cl w rest : Str) (ht : lower t = (chars! "type"))
    (hc : lower cl = (chars! "class")) (hw : isBlank w = true) :
    typeRe (t ++ (w ++ '(' :: rest)) = none ∧
    varRe (t ++ (w ++ '(' :: rest)) = some (t, '(' :: rest) ∧
    varRe (cl ++ (w ++ '(' :: rest)) = some (cl, '(' :: rest) :=
  ⟨typeRe_decl t w rest ht hw, varRe_decl_type t w rest ht hw, varRe_decl_class cl w rest hc hw⟩

open Ford.TypeHead in
/-- `TYPE_RE`, `EXTENDS_RE`, `SPLIT_RE` and `VARIABLE_RE` as compiled in the working tree mean the patterns
    `TypeHead.typeRe`, `extendsSearch`, `splitStripped` and `varRe` were written for, and the TYPE_RE branch of the
    cascade together with `FortranType._initialize` DOES what `typeStmt` computes: on every probe - a statement at the
    place of a type definition in a module with default accessibility public / private, read by the real
    `FortranSourceFile` - the recorded `FortranType` (name, parent, attributes, permission, parameters), or the
    fact that none is recorded, is the model's answer (regenerated from the working tree on every run). -/
theorem typehead_source_as_modelled :
    Generated.C01.typeRe =
      ["^type(?:\\s+|\\s*(,.*)?::\\s*)((?!(?:is\\s*\\())\\w+)\\s*(\\([^()]*\\))?\\s*$", "re.IGNORECASE"] ∧
    Generated.C01.extendsRe = ["extends\\s*\\(\\s*(?P<base>[^()\\s]+)\\s*\\)", "re.IGNORECASE"] ∧
    Generated.C01.splitRe = ["\\s*,\\s*", "re.IGNORECASE"] ∧
    Generated.C01.variableRe =
      ["^(integer|real|double\\s*precision|character|complex|double\\s*complex|logical|type(?!\\s+is)|class(?!\\s+is|\\s+default)|procedure|enumerator)\\s*((?:\\(|\\s\\w|[:,*]).*)$", "re.IGNORECASE"] ∧
    (Generated.C01.typeProbes.all fun p => typeStmt p.1 p.2.1 == p.2.2) = true ∧
    Generated.C01.typeProbes.length ≥ 40 := by
  decide +kernel

open Ford.TypeSpec Ford.TypeHead in
/-- non-vacuity: the hypotheses are met by ordinary statements, and the model computes on them -/
example :
    typeStmt (chars! "public") (chars! "type isotope") = some ⟨(chars! "isotope"), none, [], (chars! "public"), []⟩ ∧
    typeStmt (chars! "public") (chars! "TYPE  :: Is_Stable_t ") = some ⟨(chars! "Is_Stable_t"), none, [], (chars! "public"), []⟩ ∧
    typeStmt (chars! "public") (chars! "type, Extends( isotope ) ,PRIVATE , abstract::island")
      = some ⟨(chars! "island"), some (chars! "isotope"), [(chars! "abstract")], (chars! "private"), []⟩ ∧
    typeRe (chars! "type is (integer)") = none ∧ typeRe (chars! "TYPE IS(isotope)") = none ∧
    typeRe (chars! "type(isotope) :: x") = none ∧
    varRe (chars! "type is (integer)") = none ∧ varRe (chars! "class default") = none ∧
    varRe (chars! "class is (isotope)") = none ∧
    varRe (chars! "type(isotope) :: x") = some ((chars! "type"), (chars! "(isotope) :: x")) ∧
    attrItemOk ((chars! " "), (chars! "Extends( isotope )"), (chars! " ")) = true ∧
    (typeRe (chars! "type pdt(k, n)")).map (typeInit (chars! "public"))
      = some ⟨(chars! "pdt"), none, [], (chars! "public"), [(chars! "(k"), (chars! "n)")]⟩ := by
  decide

/-! ### the entity of a declaration: its name and what follows it; dummy arguments (`FordModel/Entity.lean`) -/

open Ford.Entity Ford.Show in
/-- **An entity is documented under its declared name, whatever follows the name.**  For every name (not empty,
    without `(`, `[`, `*`) and EVERY text that follows it - nothing, or anything that begins with one of the three
    characters: an array specification, a coarray specification, a character length in either spelling, in any
    combination and order, with any contents (`x(3)`, `a[*]`, `b(2)[2,*]`, `c*10`, `buf*(*)`, `line*(80)`,
    `w(3)*(2*n)`) - `FortranVariable.__init__` records exactly that name and keeps exactly that text. -/
theorem entity_keeps_its_declared_name (n spec : Str) (hne : n ≠ []) (hn : ∀ x ∈ n, isNameDelim x = false)
    (hs : spec = [] ∨ ∃ c r, spec = c :: r ∧ isNameDelim c = true) :
    mkVar (n ++ spec) = ⟨n, spec⟩ :=
  mkVar_exact (n, spec) ⟨hne, hn, hs⟩

open Ford.Entity Ford.Show in
/-- **Equivalent spellings of a character length do not reach the name.**  `character(len=L) :: n dims co`,
    `character :: n dims co *L` and `character :: n dims co *(L)`: with any array specification `dims` (nothing or
    `(..)`), any coarray specification `co` (nothing or `[..]`) and any length text, the entity is `n` in all
    three, and the length text after the name is kept as written behind the specifications. -/
theorem character_length_after_the_name (n dims co len : Str) (hne : n ≠ []) (hn : ∀ x ∈ n, isNameDelim x = false)
    (hd : dims = [] ∨ ∃ r, dims = '(' :: r) (hc : co = [] ∨ ∃ r, co = '[' :: r) :
    mkVar (n ++ (dims ++ co)) = ⟨n, dims ++ co⟩ ∧
    mkVar (n ++ (dims ++ (co ++ '*' :: len))) = ⟨n, dims ++ (co ++ '*' :: len)⟩ ∧
    mkVar (n ++ (dims ++ (co ++ '*' :: '(' :: (len ++ [')'])))) = ⟨n, dims ++ (co ++ '*' :: '(' :: (len ++ [')']))⟩ := by
  refine ⟨mkVar_exact (n, _) ⟨hne, hn, ?_⟩, mkVar_exact (n, _) ⟨hne, hn, ?_⟩, mkVar_exact (n, _) ⟨hne, hn, ?_⟩⟩ <;>
    rcases hd with rfl | ⟨r, rfl⟩ <;> rcases hc with rfl | ⟨r', rfl⟩ <;> simp [isNameDelim]

open Ford.Entity Ford.Show in
/-- **Every dummy argument takes its own declaration; the unit keeps exactly the other variables.**  For every
    procedure whose declarations have the entities `name_i ++ follows_i` (names pairwise different, letter case
    ignored; what follows a name is anything as in `entity_keeps_its_declared_name`) and whose dummy argument
    list has pairwise different names: after `_cleanup` the i-th argument is the variable of the declaration with
    the argument's name (letter case ignored) with everything that declaration says - or an implicitly typed
    variable when there is no such declaration -, in the order of the argument list, and the variables of the
    procedure are exactly the declared entities that are not dummy arguments, once each, in source order.  No
    bound on the number of arguments or declarations.  (Interface bodies that describe dummy procedures are
    outside this model.) -/
theorem dummy_arguments_take_their_declarations (args : List Str) (ds : List (Str × Str))
    (hd : ∀ e ∈ ds, EntOk e) (hnd : (ds.map fun e => lower e.1).Nodup) (ha : (args.map lower).Nodup) :
    cleanup args (ds.map fun e => e.1 ++ e.2) =
      (args.map (fun a =>
          match ds.find? (fun e => lower a == lower e.1) with
          | some e => Arg.declared ⟨e.1, e.2⟩
          | none => Arg.implicit a),
       (ds.filter fun e => !(args.any fun a => lower a == lower e.1)).map fun e => ⟨e.1, e.2⟩) :=
  cleanup_exact args ds hd hnd ha

open Ford.Entity in
/-- What `FortranVariable.__init__` and `FortranProcedure._cleanup` DO in the working tree is what `Entity.mkVar`
    and `Entity.cleanup` compute: on every probe - entity texts handed to the real constructor (all orders of the
    three specifications, texts that begin with a delimiter, unbalanced ones), and subroutines whose dummy
    arguments are declared with a character length after the name, with array and coarray specifications, in
    another letter case, or not at all, read by the real `FortranSourceFile` - the recorded name / dimension, the
    argument list and the remaining variables are the model's answer (regenerated on every run). -/
theorem entity_source_as_modelled :
    (Generated.C01.entityProbes.all fun p => mkVar p.1 == p.2) = true ∧
    (Generated.C01.argProbes.all fun p => cleanup p.1 p.2.1 == (p.2.2.1, p.2.2.2)) = true ∧
    Generated.C01.entityProbes.length ≥ 25 ∧ Generated.C01.argProbes.length ≥ 8 := by
  decide +kernel

open Ford.Entity Ford.Show in
/-- non-vacuity (the classic spelling `character buf*(*), line*(80)` of two dummy arguments): the hypotheses hold and
    the model computes the documented arguments and locals; cutting at "the first KIND of delimiter that occurs"
    instead of the leftmost one names the entity `buf*` - the argument then loses its declaration, is documented as
    an implicitly typed variable, and `buf*` is reported as a local variable nobody declared -/
example :
    let ds : List (Str × Str) := [((chars! "buf"), (chars! "*(*)")), ((chars! "n"), []), ((chars! "line"), (chars! "*(80)")),
                                  ((chars! "tmp"), (chars! "(3)*4"))]
    (ds.all fun e => !e.1.isEmpty && e.1.all (fun x => !isNameDelim x)) = true ∧
    cleanup [(chars! "BUF"), (chars! "n"), (chars! "line"), (chars! "k")] (ds.map fun e => e.1 ++ e.2)
      = ([.declared ⟨(chars! "buf"), (chars! "*(*)")⟩, .declared ⟨(chars! "n"), []⟩, .declared ⟨(chars! "line"), (chars! "*(80)")⟩,
          .implicit (chars! "k")], [⟨(chars! "tmp"), (chars! "(3)*4")⟩]) ∧
    matchArgs [(chars! "buf")] [⟨(splitNameDimByKind (chars! "buf*(*)")).1, (splitNameDimByKind (chars! "buf*(*)")).2⟩]
      = ([.implicit (chars! "buf")], [⟨(chars! "buf*"), (chars! "(*)")⟩]) := by
  decide

/-! ## Round 6: the statement that opens a function (FuncHead.lean), the set of source files (SrcFiles.lean) -/

section FuncHeadProps
open Ford Ford.TypeSpec Ford.TypeHead Ford.FuncHead Ford.Entity

/-- **The result clause is found behind a language binding** ("independent of ... equivalent spellings of the
    same declaration": Fortran allows `BIND(..) RESULT(r)` as well as `RESULT(r) BIND(..)`).  Whatever stands
    between the argument list and the result clause - in particular EVERY `bind( .. )` clause, with any text -
    group `result` of `FUNCTION_RE` is the name written in the LAST `result ( name )` of the statement, in any
    letter case of the keyword and with any blanks.  No bound on any length.  (A suffix parsed item by item in the
    order RESULT, BIND loses the name in this spelling.) -/
theorem result_clause_found_behind_anything (pre kR w1 w2 r w3 : Str) (hk : lower kR = (chars! "result"))
    (h1 : isBlank w1 = true) (h2 : isBlank w2 = true) (hr : ∀ c ∈ r, isWord c = true) (hne : r ≠ [])
    (h3 : isBlank w3 = true) :
    lastMatch resultAt (pre ++ (kR ++ (w1 ++ '(' :: (w2 ++ (r ++ (w3 ++ [')'])))))) = some r := by
  apply lastMatch_append_some
  have hat := resultAt_spelled kR w1 w2 r w3 [] hk h1 h2 hr hne h3
  cases kR with
  | nil => simp [lower] at hk
  | cons c0 k' =>
    have hk' : lower k' = (chars! "esult") := by
      simp [lower] at hk ⊢; exact hk.2
    have hY : lastMatch resultAt (w2 ++ (r ++ (w3 ++ [')']))) = none := by
      apply lastResult_noparen
      intro c hc
      simp only [List.mem_append, List.mem_singleton] at hc
      rcases hc with hc | hc | hc | hc
      · intro h; rw [h] at hc; simp [isBlank] at h2; have := h2 _ hc; simp [isSpace] at this
      · exact word_ne_paren (hr c hc)
      · intro h; rw [h] at hc; simp [isBlank] at h3; have := h3 _ hc; simp [isSpace] at this
      · rw [hc]; decide
    have hskip : lastMatch resultAt ((k' ++ (w1 ++ ['('])) ++ (w2 ++ (r ++ (w3 ++ [')'])))) = none := by
      rw [lastMatch_skip, hY]
      intro c hc t
      apply resultAt_head
      simp only [List.mem_append, List.mem_singleton] at hc
      rcases hc with hc | hc | hc
      · exact lower_mem_ne k' _ 'r' hk' (by decide) c hc
      · exact blank_lower_ne w1 'r' (by decide) h1 c hc
      · rw [hc]; decide
    simp only [List.cons_append, List.append_assoc, List.nil_append] at hskip hat ⊢
    simp only [lastMatch, hskip, hat]

/-- **The result clause in front of a language binding** - the other order.  `_partial`: proved for result names
    without the letter r (then no later position of the statement can begin the word `result`; the explicit
    hypothesis is proof economy, the correspondence stream `funcre` covers all names), EVERY bind text without
    parentheses, any keyword case and blanks. -/
theorem result_clause_found_before_bind_partial (pre kR w1 w2 r w3 w4 kB w5 b : Str) (hk : lower kR = (chars! "result"))
    (h1 : isBlank w1 = true) (h2 : isBlank w2 = true) (hr : ∀ c ∈ r, isWord c = true) (hne : r ≠ [])
    (hnr : ∀ c ∈ r, lowerChar c ≠ 'r') (h3 : isBlank w3 = true) (h4 : isBlank w4 = true)
    (hkb : lower kB = (chars! "bind")) (h5 : isBlank w5 = true) (hb : ∀ c ∈ b, c ≠ '(') :
    lastMatch resultAt
      (pre ++ (kR ++ (w1 ++ '(' :: (w2 ++ (r ++ (w3 ++ ')' :: (w4 ++ (kB ++ (w5 ++ '(' :: (b ++ [')'])))))))))) = some r := by
  apply lastMatch_append_some
  have hat := resultAt_spelled kR w1 w2 r w3 (w4 ++ (kB ++ (w5 ++ '(' :: (b ++ [')'])))) hk h1 h2 hr hne h3
  cases kR with
  | nil => simp [lower] at hk
  | cons c0 k' =>
    have hk' : lower k' = (chars! "esult") := by
      simp [lower] at hk ⊢; exact hk.2
    have hY : lastMatch resultAt (b ++ [')']) = none := by
      apply lastResult_noparen
      intro c hc
      simp only [List.mem_append, List.mem_singleton] at hc
      rcases hc with hc | hc
      · exact hb c hc
      · rw [hc]; decide
    have hskip : lastMatch resultAt
        ((k' ++ (w1 ++ ('(' :: (w2 ++ (r ++ (w3 ++ (')' :: (w4 ++ (kB ++ (w5 ++ ['('])))))))))) ++ (b ++ [')'])) = none := by
      rw [lastMatch_skip, hY]
      intro c hc t
      apply resultAt_head
      simp only [List.mem_append, List.mem_cons, List.mem_singleton, List.not_mem_nil, or_false] at hc
      rcases hc with hc | hc | hc | hc | hc | hc | hc | hc | hc | hc | hc
      · exact lower_mem_ne k' _ 'r' hk' (by decide) c hc
      · exact blank_lower_ne w1 'r' (by decide) h1 c hc
      · rw [hc]; decide
      · exact blank_lower_ne w2 'r' (by decide) h2 c hc
      · exact hnr c hc
      · exact blank_lower_ne w3 'r' (by decide) h3 c hc
      · rw [hc]; decide
      · exact blank_lower_ne w4 'r' (by decide) h4 c hc
      · exact lower_mem_ne kB _ 'r' hkb (by decide) c hc
      · exact blank_lower_ne w5 'r' (by decide) h5 c hc
      · rw [hc]; decide
    simp only [List.cons_append, List.append_assoc, List.nil_append] at hskip hat ⊢
    simp only [lastMatch, hskip, hat]

/-- **The bind text behind the result clause** is the text between the parentheses as written (blanks in front
    of it dropped), for every text without parentheses, any keyword case and blanks, whatever precedes the clause.
    `_partial`: the order `BIND(..) RESULT(r)` is excluded - see `bind_before_result_witness`. -/
theorem bind_text_behind_anything_partial (pre kB w1 w2 b w : Str) (hk : lower kB = (chars! "bind"))
    (h1 : isBlank w1 = true) (h2 : isBlank w2 = true) (hb0 : ∀ c r, b = c :: r → isSpace c = false)
    (hb : ∀ c ∈ b, c ≠ '(') (hw : isBlank w = true) :
    lastMatch bindAt (pre ++ (kB ++ (w1 ++ '(' :: (w2 ++ (b ++ ')' :: w))))) = some b := by
  apply lastMatch_append_some
  have hwc : ∀ c ∈ w, c ≠ ')' := by
    intro c hc h; rw [h] at hc; simp [isBlank] at hw; have := hw _ hc; simp [isSpace] at this
  have hwo : ∀ c ∈ w, c ≠ '(' := by
    intro c hc h; rw [h] at hc; simp [isBlank] at hw; have := hw _ hc; simp [isSpace] at this
  have hat := bindAt_spelled kB w1 w2 b w hk h1 h2 hb0 hwc
  cases kB with
  | nil => simp [lower] at hk
  | cons c0 k' =>
    have hk' : lower k' = (chars! "ind") := by
      simp [lower] at hk ⊢; exact hk.2
    have hY : lastMatch bindAt (w2 ++ (b ++ ')' :: w)) = none := by
      apply lastBind_noparen
      intro c hc
      simp only [List.mem_append, List.mem_cons] at hc
      rcases hc with hc | hc | hc | hc
      · intro h; rw [h] at hc; simp [isBlank] at h2; have := h2 _ hc; simp [isSpace] at this
      · exact hb c hc
      · rw [hc]; decide
      · exact hwo c hc
    have hskip : lastMatch bindAt ((k' ++ (w1 ++ ['('])) ++ (w2 ++ (b ++ ')' :: w))) = none := by
      rw [lastMatch_skip, hY]
      intro c hc t
      apply bindAt_head
      simp only [List.mem_append, List.mem_singleton] at hc
      rcases hc with hc | hc | hc
      · exact lower_mem_ne k' _ 'b' hk' (by decide) c hc
      · exact blank_lower_ne w1 'b' (by decide) h1 c hc
      · rw [hc]; decide
    simp only [List.cons_append, List.append_assoc, List.nil_append] at hskip hat ⊢
    simp only [lastMatch, hskip, hat]

/-- the behaviour that violates the property (known finding C01-bind-before-result): written `BIND(C) RESULT(r)`
    the bind group runs to the last `)` of the statement and `get_parens(.., -1)` keeps one closing parenthesis:
    the function is documented with `bind(c))` - while the result name IS found, and written in the other order
    everything is as declared -/
theorem bind_before_result_witness :
    (funcRe (chars! "function f() bind(c) result(r)")).map (fun g => (g.name, g.result, g.bindC, g.bindC.bind bindText))
      = some ((chars! "f"), some (chars! "r"), some (chars! "c) result(r"), some (chars! "c)")) ∧
    (funcRe (chars! "function f() result(r) bind(c)")).map (fun g => (g.name, g.result, g.bindC, g.bindC.bind bindText))
      = some ((chars! "f"), some (chars! "r"), some (chars! "c"), some (chars! "c")) := by
  decide

/-- **The result variable is the declared one** ("nothing undeclared is reported", "exactly once"): for every
    function whose remaining variables have pairwise different names (letter case ignored), the result variable
    is the variable declared under the result name - with everything its declaration says - and it is no longer
    among the function's variables, which otherwise stay as they are, in order; only when nothing is declared
    under that name an implicitly typed variable is made up, and then no variable is removed. -/
theorem function_result_is_the_declared_variable (r : Str) (vs : List Var)
    (hnd : (vs.map fun v => lower v.name).Nodup) :
    takeResult false r vs =
      match vs.find? (sameName r) with
      | some w => (.declared w, vs.filter fun v => !sameName r v)
      | none => (.implicit r, vs) := by
  unfold takeResult
  simp only [Bool.false_eq_true, if_false]
  cases h : takeVar r vs with
  | none => rw [(takeVar_none r vs).mp h]
  | some p =>
    obtain ⟨w, rest⟩ := p
    obtain ⟨h1, h2⟩ := takeVar_some r vs hnd w rest h
    rw [h1, h2]

/-- What `FUNCTION_RE` DOES in the working tree is what `FuncHead.funcRe` computes: on every probe statement (both
    orders of RESULT / BIND, with and without blanks, every prefix form, keyword-like names, repeated clauses,
    malformed and foreign statements) the five groups the real compiled pattern yields - recorded on every run
    by translate/c01.py - are the model's answer. -/
theorem function_head_as_modelled :
    (Generated.C01.funcProbes.all fun p => funcRe p.1 == p.2) = true ∧ Generated.C01.funcProbes.length ≥ 30 := by
  decide +kernel

/-- non-vacuity: a C-interoperable function in both suffix orders, prefix items, keyword-like names -/
example :
    (funcRe (chars! "pure function to_kelvin(celsius) BIND (C, name=\"0\") Result( kelvin )")).map
        (fun g => (g.attributes, g.name, argNames g.arguments, retName g))
      = some (some (chars! "pure"), (chars! "to_kelvin"), [(chars! "celsius")], (chars! "kelvin")) ∧
    (funcRe (chars! "function result(bind, function) result(r)")).map (fun g => (g.name, argNames g.arguments, retName g))
      = some ((chars! "result"), [(chars! "bind"), (chars! "function")], (chars! "r")) ∧
    funcCleanup false ⟨none, (chars! "f"), some (chars! "(x)"), some (chars! "r"), none⟩ [(chars! "R(3)"), (chars! "x"), (chars! "tmp")]
      = ([.declared ⟨(chars! "x"), []⟩], .declared ⟨(chars! "R"), (chars! "(3)")⟩, [⟨(chars! "tmp"), []⟩]) := by
  decide

end FuncHeadProps

section SrcFilesProps
open Ford Ford.TypeSpec Ford.SrcFiles

/-- **Every source file is handed to the parser once** ("each program unit ... appears exactly once"): whatever
    the settings - source directories that overlap, lie inside one another or are listed several times, any
    extensions, any exclusions - and whatever the directory tree, the result of `find_all_files` has no file twice. -/
theorem every_source_file_once (c : Cfg) : (findAllFiles c).Nodup := by
  unfold findAllFiles
  exact dropFiles_nodup _ _ _ (dropDirs_nodup _ _ (collect_nodup _ _ _))

/-- **Exactly the selected files** ("nothing undeclared is reported", nothing declared is lost): a path is in the
    result iff it is an entry of the tree below one of the source directories whose name ends in `.` + one of the
    extensions, it does not match `<exclude_dir>/*` for any excluded directory, and its path relative to the
    working directory matches none of the (rewritten) `exclude` patterns. -/
theorem source_file_selected_iff (c : Cfg) (s : Str) :
    s ∈ findAllFiles c ↔
      (∃ x ∈ c.tree, x.path = s ∧ ∃ d ∈ c.dirs, ∃ e ∈ c.exts, globHit d e x = true) ∧
      (∀ d ∈ c.exdirs, fnm (d ++ (chars! "/*")) s = false) ∧
      (∀ p ∈ excludeAfter c, fnm p (relTo c.cwd s) = false) := by
  unfold findAllFiles excludeAfter
  rw [mem_dropFiles, mem_dropDirs, mem_collect]
  constructor
  · rintro ⟨⟨h1, h2⟩, h3⟩; exact ⟨h1, h2, h3⟩
  · rintro ⟨h1, h2, h3⟩; exact ⟨⟨h1, h2⟩, h3⟩

/-- **Equivalent spellings of the source directories select the same files**: listing a directory twice, or
    listing a directory that lies inside a listed one (`src` and `src/legacy`), adds no file and removes none -
    and by `every_source_file_once` no file is taken twice. -/
theorem overlapping_source_directories_select_the_same_files (d sub : Str) (ds exts : List Str) (tree : List Entry) (s : Str) :
    (s ∈ collect (d :: d :: ds) exts tree ↔ s ∈ collect (d :: ds) exts tree) ∧
    (s ∈ collect (d :: (d ++ '/' :: sub) :: ds) exts tree ↔ s ∈ collect (d :: ds) exts tree) := by
  simp only [mem_collect, List.mem_cons]
  constructor
  · constructor
    · rintro ⟨x, hx, hp, d', hd', e, he, hg⟩
      refine ⟨x, hx, hp, d', ?_, e, he, hg⟩
      rcases hd' with h | h | h
      · exact Or.inl h
      · exact Or.inl h
      · exact Or.inr h
    · rintro ⟨x, hx, hp, d', hd', e, he, hg⟩
      refine ⟨x, hx, hp, d', ?_, e, he, hg⟩
      rcases hd' with h | h
      · exact Or.inl h
      · exact Or.inr (Or.inr h)
  · constructor
    · rintro ⟨x, hx, hp, d', hd', e, he, hg⟩
      rcases hd' with h | h | h
      · exact ⟨x, hx, hp, d', Or.inl h, e, he, hg⟩
      · rw [h] at hg
        exact ⟨x, hx, hp, d, Or.inl rfl, e, he, globHit_nested d sub e x hg⟩
      · exact ⟨x, hx, hp, d', Or.inr h, e, he, hg⟩
    · rintro ⟨x, hx, hp, d', hd', e, he, hg⟩
      refine ⟨x, hx, hp, d', ?_, e, he, hg⟩
      rcases hd' with h | h
      · exact Or.inl h
      · exact Or.inr (Or.inr h)

/-- non-vacuity: `src_dir = [/p/src, /p/src/legacy, /p/src]`, two extensions: three files, once each -/
example :
    findAllFiles ⟨[(chars! "/p/src"), (chars! "/p/src/legacy"), (chars! "/p/src")], [(chars! "f90"), (chars! "F90")], [], [], (chars! "/p"),
                  [⟨(chars! "/p/src/a.f90"), true⟩, ⟨(chars! "/p/src/legacy"), false⟩, ⟨(chars! "/p/src/legacy/old.f90"), true⟩,
                   ⟨(chars! "/p/src/legacy/x.F90"), true⟩, ⟨(chars! "/p/src/notes.txt"), true⟩, ⟨(chars! "/p/app/main.f90"), true⟩]⟩
      = [(chars! "/p/src/a.f90"), (chars! "/p/src/legacy/old.f90"), (chars! "/p/src/legacy/x.F90")] := by
  decide

end SrcFilesProps

end Ford.C01
