/-
  C16 — links into an externalised project hit the right pages of that project.
  Property theorems only; helper lemmas live in FordModel/Lemmas/External*.lean,
  the model in FordModel/External.lean, the specification vocabulary in
  FordModel/ExternalSpec.lean, the tables in FordModel/Generated/C16.lean
  (regenerated from the source on every run).
-/
import FordModel.External
import FordModel.ExternalSpec
import FordModel.Lemmas.External
import FordModel.Lemmas.ExternalRT
import FordModel.Lemmas.ExternalReach
import FordModel.Lemmas.ExternalUrl
import FordModel.Lemmas.ExternalMulti
import FordModel.ExternalGraph
import FordModel.Lemmas.ExternalGraph
import FordModel.ExternalAssoc
import FordModel.Lemmas.ExternalAssoc
import FordModel.ExternalChild
import FordModel.Lemmas.ExternalChild
import FordModel.ExternalHref
import FordModel.Lemmas.ExternalHref
namespace Ford.C16
open Ford Ford.Ext

/-! ## Round trip: export then import preserves every entity and its URL -/

/-- **Round trip, exact form.**  For every entity tree of the exporting project whose kinds are
    keys of ENTITIES, `dict2obj (obj2dict e)` succeeds and is *exactly* the specified external
    object: same name, kind = `proctype or obj`, URL = first path segment stripped and re-based on
    A's location, children = the non-external children in ATTRIBUTES order, recursively.
    No bound on the size or depth of the tree. -/
theorem roundtrip_exact (b : Base) (p : Option Json) (e : Ent) (hv : validE e = true)
    (hn : isNode e = true) : dict2obj b p (exportE e) = .ok (specE b p e) := by
  apply rt_ent b e hv p
  cases e <;> simp_all [isNode, keep]

/-- **Round trip for a whole description.**  Loading the `modules.json` that `dump_modules`
    writes for any list of (valid) modules succeeds and yields the specified objects. -/
theorem roundtrip_document (b : Base) (version : Str) (mods : List Ent)
    (hv : validList mods = true) (hn : mods.all isNode = true) :
    importDoc b (dumpModules version mods) = .ok (mods.map (specE b none)) := by
  have hk : (kModules == Gen.metadataName) = false := by decide
  have top : ∀ (ms : List Ent), validList ms = true → ms.all isNode = true →
      importTop b (exportList ms) = .ok (ms.map (specE b none)) := by
    intro ms
    induction ms with
    | nil => intro _ _; simp [exportList, importTop]
    | cons m r ih =>
      intro hv hn
      simp only [validList, Bool.and_eq_true] at hv
      simp only [List.all_cons, Bool.and_eq_true] at hn
      simp [exportList, importTop, roundtrip_exact b none m hv.1 hn.1, ih hv.2 hn.2]
  simp [importDoc, dumpModules, List.lookup, hk, top mods hv hn]

/-- **Round trip, the form of the property statement.**  Every entity `e` of A that is reachable
    through exported attributes (every public entity is: `pub_procs`, `pub_types`, `pub_vars`,
    `pub_absints` are exported) is found among the entities appended to B's lists, with its
    name, its kind, in the list its kind belongs to, and with url = A's location / `get_url e`. -/
theorem roundtrip (b : Base) (version : Str) (mods : List Ent) (hv : validList mods = true)
    (hn : mods.all isNode = true) (m : Ent) (hm : m ∈ mods) (e : Ent) (hr : Reach m e)
    (name : Str) (url : Option Str) (obj : Str) (pt : Option Str) (attrs : List (Str × Attr))
    (he : e = .node name url obj pt attrs) :
    ∃ os, importDoc b (dumpModules version mods) = .ok os ∧
      ∃ x ∈ entriesAll os, x.name = .str name ∧ x.cls = kindOf obj pt ∧
        x.list = listOf (kindOf obj pt) ∧ x.url = .str (rebase b (urlText url)) := by
  refine ⟨_, roundtrip_document b version mods hv hn, ?_⟩
  obtain ⟨x, hx, hp⟩ := reach_entries b m e hr name url obj pt attrs he none
  refine ⟨x, ?_, hp⟩
  clear hv hn
  induction mods with
  | nil => simp at hm
  | cons y r ih =>
    simp only [List.map_cons, entriesAll, List.mem_append]
    rcases List.mem_cons.mp hm with h | h
    · left; subst h; exact hx
    · right; exact ih h

/-- The URL an entity is imported with: the exporter writes `./` + `get_url()`, the importer
    strips the first path segment, so what is re-based is `get_url()` itself. -/
theorem strip_first_segment (u : Str) : afterFirstSlash ('.' :: '/' :: u) = u :=
  afterFirstSlash_dot_slash u

/-! ## The exported description lists exactly A's modules with exactly their exported entities -/

/-- `modules.json` lists exactly the project's modules, in order, by name. -/
theorem export_module_names (version : Str) (mods : List Ent) (hn : mods.all isNode = true) :
    (docModules (dumpModules version mods)).map (jField kName) = mods.map entName := by
  have hk : (kModules == Gen.metadataName) = false := by decide
  simp only [docModules, dumpModules, jField, List.lookup, hk, beq_self_eq_true]
  induction mods with
  | nil => simp [exportList]
  | cons m r ih =>
    simp only [List.all_cons, Bool.and_eq_true] at hn
    cases m with
    | ext => simp [isNode] at hn
    | text s => simp [isNode] at hn
    | node name url obj pt attrs =>
      simp only [exportList, List.map_cons, ih hn.2]
      cases pt <;> simp [exportE, jField, header, List.lookup, entName]

/-- Per entity, the description has exactly the attributes that are in ATTRIBUTES and that the
    object has - nothing else, nothing missing (in particular `pub_procs`, `pub_absints`,
    `pub_types`, `pub_vars`: the public entities, table fact `pub_keys_exported`). -/
theorem export_attribute_exact (name : Str) (url : Option Str) (obj : Str) (pt : Option Str)
    (attrs : List (Str × Attr)) (k : Str) (hk : k ∈ Gen.attributes) :
    jField k (exportE (.node name url obj pt attrs)) = (attrs.lookup k).map exportAttr := by
  simp only [exportE, jField]
  rw [lookup_append, header_lookup_attr _ _ _ _ k hk, lookup_orderByTable, if_pos hk,
    exportAttrs_eq_map, lookup_map_snd]
  simp

/-- A dict-valued attribute (`pub_procs` ...) is exported key by key: same keys, same order,
    each value the description of that entity. -/
theorem export_dict_keys (kvs : List (Str × Ent)) :
    (exportDict kvs).map (·.1) = kvs.map (·.1) := by
  induction kvs with
  | nil => simp [exportDict]
  | cons x r ih => obtain ⟨k, e⟩ := x; simp [exportDict, ih]

/-- The four tables of public entities are exported (they are in the generated ATTRIBUTES), and
    no ATTRIBUTES entry collides with the fixed keys of a description. -/
theorem pub_keys_exported :
    "pub_procs".toList ∈ Gen.attributes ∧ "pub_absints".toList ∈ Gen.attributes ∧
    "pub_types".toList ∈ Gen.attributes ∧ "pub_vars".toList ∈ Gen.attributes ∧
    Gen.attributes.Nodup ∧
    (∀ a ∈ Gen.attributes, a ≠ kName ∧ a ≠ kUrl ∧ a ≠ kObj ∧ a ≠ kProctype) := by
  decide

/-- Entities that are themselves external to A (re-exported from a third project) are written as
    `null` and never become entities of B. -/
theorem external_items_not_reexported (b : Base) (q : Option Json) (xs : List Ent) :
    importList b q (exportList (.ext :: xs)) = importList b q (exportList xs) := by
  simp [exportList, exportE, importList, truthy]

/-! ## Every description is that of the entity listed at that place -/

/-- A list-valued attribute (`functions`, `interfaces`, `types`, `variables`, `boundprocs` ...) is
    exported item by item: the i-th description is `obj2dict` of the i-th item itself, whatever was
    exported before it (no state is carried from one entity to the next). -/
theorem export_list_pointwise (xs : List Ent) : exportList xs = xs.map exportE := by
  induction xs with
  | nil => simp [exportList]
  | cons x r ih => simp [exportList, ih]

/-- ... and a dict-valued attribute (`pub_procs`, `pub_types`, `pub_vars`, `pub_absints`) value by
    value: under each key stands the description of the entity stored under that key. -/
theorem export_dict_pointwise (kvs : List (Str × Ent)) :
    exportDict kvs = kvs.map (fun kv => (kv.1, exportE kv.2)) := by
  induction kvs with
  | nil => simp [exportDict]
  | cons x r ih => obtain ⟨k, e⟩ := x; simp [exportDict, ih]

/-- The description of an entity carries that entity's own name, its own `get_url()` (behind `./`),
    its own `obj` and its own `proctype` - in particular two entities with the same name but of
    different kinds (a type and its constructor interface, a component and a module function named
    alike) are described by their own kinds and their own URLs. -/
theorem export_header_own (name : Str) (url : Option Str) (obj : Str) (pt : Option Str)
    (attrs : List (Str × Attr)) :
    jField kName (exportE (.node name url obj pt attrs)) = some (.str name) ∧
    jField kUrl (exportE (.node name url obj pt attrs)) = some (.str ('.' :: '/' :: urlText url)) ∧
    jField kObj (exportE (.node name url obj pt attrs)) = some (.str obj) ∧
    jField kProctype (exportE (.node name url obj pt attrs)) = pt.map Json.str := by
  have hp : (orderByTable Gen.attributes (exportAttrs attrs)).lookup kProctype = none := by
    rw [lookup_orderByTable, if_neg kProctype_not_attr]
  refine ⟨?_, ?_, ?_, ?_⟩
  · cases pt <;> simp [exportE, jField, header, List.lookup]
  · cases pt <;> simp [exportE, jField, header, List.lookup, kUrl_ne_kName]
  · cases pt <;> simp [exportE, jField, header, List.lookup, kObj_ne_kName, kObj_ne_kUrl]
  · simp only [exportE, jField]
    rw [lookup_append, hp]
    cases pt <;> simp [header, List.lookup, kProctype_ne_kName, kProctype_ne_kUrl, kProctype_ne_kObj]

/-- Non-vacuity for shared identifiers: a module with the type `vec_t` and the constructor interface
    `vec_t` lists, under `interfaces`, the interface's page and, under `types`, the type's page. -/
example :
    let ty := Ent.node ['v', 'e', 'c', '_', 't'] (some "type/vec_t.html".toList) "type".toList none []
    let ct := Ent.node ['v', 'e', 'c', '_', 't'] (some "interface/vec_t.html".toList) "proc".toList
      (some "Interface".toList) []
    let md := exportE (.node ['m'] (some "module/m.html".toList) "module".toList none
      [("pub_procs".toList, .dict [(['v', 'e', 'c', '_', 't'], ct)]),
       ("pub_types".toList, .dict [(['v', 'e', 'c', '_', 't'], ty)]),
       ("interfaces".toList, .list [ct]), ("types".toList, .list [ty])])
    listedUrl "interfaces".toList 0 md = some "./interface/vec_t.html".toList ∧
    listedUrl "types".toList 0 md = some "./type/vec_t.html".toList := by
  decide

/-! ## Remote locations: the links lie below the URL as the user wrote it -/

/-- For a remote external project written as `u` = `http(s)://authority...` in `external:`, with or
    without a trailing slash, every entity URL is the written URL, a slash (unless `u` already ends
    with one), and the entity's own `get_url()`: nothing of `u` is lost in `urljoin`, because the
    base handed to `dict2obj` is the *normalised* one. -/
theorem remote_entity_url_below_written_url (u pre rest rel : Str)
    (h : stripHttp u = some (pre, rest)) (hr : rest ≠ []) :
    rebase (remoteBase u) rel = normRemote u ++ rel := by
  simp [rebase, remoteBase, urljoinSimple, urlDir_normRemote u pre rest h hr]

/-- ... the description is fetched from `<u>/modules.json` ... -/
theorem remote_index_url (u pre rest : Str) (h : stripHttp u = some (pre, rest)) (hr : rest ≠ []) :
    indexUrl u = normRemote u ++ kModulesJson := by
  simp [indexUrl, urljoinSimple, urlDir_normRemote u pre rest h hr]

/-- ... and writing the trailing slash or not makes no difference at all. -/
theorem remote_trailing_slash_irrelevant (u : Str) (hs : endsWithSlash u = false) :
    remoteBase (u ++ ['/']) = remoteBase u ∧ indexUrl (u ++ ['/']) = indexUrl u := by
  simp [remoteBase, indexUrl, normRemote_append_slash u hs]

/-- **Round trip against a remote location.**  Every entity of A reachable through exported
    attributes is appended to B's lists with URL = written URL of A + `/` + `get_url e`. -/
theorem roundtrip_remote (u pre rest : Str) (h : stripHttp u = some (pre, rest)) (hr : rest ≠ [])
    (version : Str) (mods : List Ent) (hv : validList mods = true)
    (hn : mods.all isNode = true) (m : Ent) (hm : m ∈ mods) (e : Ent) (hre : Reach m e)
    (name : Str) (url : Option Str) (obj : Str) (pt : Option Str) (attrs : List (Str × Attr))
    (he : e = .node name url obj pt attrs) :
    ∃ os, importDoc (remoteBase u) (dumpModules version mods) = .ok os ∧
      ∃ x ∈ entriesAll os, x.name = .str name ∧ x.cls = kindOf obj pt ∧
        x.url = .str (normRemote u ++ urlText url) := by
  obtain ⟨os, hos, x, hx, h1, h2, _, h4⟩ :=
    roundtrip (remoteBase u) version mods hv hn m hm e hre name url obj pt attrs he
  exact ⟨os, hos, x, hx, h1, h2, by rw [h4, remote_entity_url_below_written_url u pre rest _ h hr]⟩

/-- Why the normalisation is load-bearing: `urljoin` on the URL as written (no trailing slash)
    replaces its last path segment, the normalised base keeps it. -/
theorem remote_base_needs_slash_witness :
    urljoinSimple "http://h/docs/proja".toList "module/m.html".toList = "http://h/docs/module/m.html".toList ∧
    rebase (remoteBase "http://h/docs/proja".toList) "module/m.html".toList
      = "http://h/docs/proja/module/m.html".toList := by
  decide

/-! ## The exporter never produces what the importer rejects -/

/-- For every list of modules whose entity kinds (`proctype or obj`, lower-cased) are keys of the
    generated ENTITIES table, importing the exported description cannot fail. -/
theorem total_on_valid_export (b : Base) (version : Str) (mods : List Ent)
    (hv : validList mods = true) (hn : mods.all isNode = true) :
    isOk (importDoc b (dumpModules version mods)) = true := by
  rw [roundtrip_document b version mods hv hn]; rfl

/-- Which `proctype` values of the source are covered by ENTITIES: all but the two named ones. -/
theorem total_on_valid_export_partial :
    ∀ p ∈ Gen.proctypes, p ≠ kModProc → p ≠ kUnknown → (Gen.entities.lookup (lower p)).isSome = true := by
  decide

/-- ... and an entity whose `proctype` is "Module Procedure" (class attribute of
    FortranModuleProcedureImplementation, kept when no interface is matched) is exported to a
    description on which `dict2obj` raises KeyError. -/
theorem total_on_valid_export_witness :
    kModProc ∈ Gen.proctypes ∧
    errOf (dict2obj { remote := false, url := "/A/doc".toList } none
      (exportE (.node "orphan".toList (some "proc/orphan.html".toList) "proc".toList (some kModProc) [])))
      = some .keyError := by
  decide

/-! ## Local before external -/

/-- USE resolution (`find_used_modules`): when B has a module of that name (case-insensitively),
    the USE is bound to one of B's modules, whatever the external projects contain. -/
theorem local_first_use (name : Str) (mods exts : List Named)
    (h : ∃ m ∈ mods, lower m.name = lower name) :
    ∃ m ∈ mods, resolveUse name mods exts = some m := by
  induction mods with
  | nil => simp at h
  | cons x r ih =>
    by_cases hx : lower x.name = lower name
    · exact ⟨x, by simp, by simp [resolveUse, findIn, hx]⟩
    · obtain ⟨m, hm, hlm⟩ := h
      have hm' : m ∈ r := by
        rcases List.mem_cons.mp hm with h' | h'
        · subst h'; exact absurd hlm hx
        · exact h'
      obtain ⟨m2, hm2, hres⟩ := ih ⟨m, hm', hlm⟩
      refine ⟨m2, by simp [hm2], ?_⟩
      simpa [resolveUse, findIn, hx] using hres

/-- ... and external modules are consulted exactly when B has none of that name. -/
theorem use_falls_back_to_external (name : Str) (mods exts : List Named)
    (h : ∀ m ∈ mods, lower m.name ≠ lower name) :
    resolveUse name mods exts = findIn name exts := by
  induction mods with
  | nil => simp [resolveUse]
  | cons x r ih =>
    have hx : lower x.name ≠ lower name := h x (by simp)
    have := ih (fun m hm => h m (by simp [hm]))
    simpa [resolveUse, findIn, hx] using this

/-- `[[name(kind)]]` with a kind qualifier that does not start with `ext` searches one of B's own
    collections only (generated LINK_TYPES): it can never return an external entity. -/
theorem find_qualified_local_only :
    ∀ kv ∈ Gen.linkTypes, startsWith kv.1 "ext".toList = false → startsWith kv.2 "ext".toList = false := by
  decide

/-- Unqualified `[[name]]`: a module of B with that name always wins (B's modules are the first
    collection `Project.find` chains). -/
theorem find_unqualified_local_first_partial (p : Colls) (name : Str) (m : Named)
    (h : findIn name (collection p "modules".toList) = some m) :
    projectFind p name none = some (some m) := by
  have findIn_append : ∀ (xs ys : List Named), findIn name (xs ++ ys) = (findIn name xs).or (findIn name ys) := by
    intro xs ys
    induction xs with
    | nil => simp [findIn]
    | cons x r ih => by_cases hx : lower x.name = lower name <;> simp [findIn, hx, ih]
  have hd : ∃ rest, Gen.linkTypes.map (fun kv => collection p kv.2)
      = collection p "modules".toList :: rest := ⟨_, rfl⟩
  obtain ⟨rest, hrest⟩ := hd
  simp only [projectFind, hrest, List.flatten_cons, findIn_append, h]
  rfl

/-- Same-kind precedence in the generated LINK_TYPES order: each of B's collections is chained
    before the external collection of the same kind (so for a name that B and A both define *with
    the same kind* the unqualified `[[name]]` finds B's entity first). -/
theorem find_same_kind_local_first :
    let order := Gen.linkTypes.map (·.2)
    order.idxOf "modules".toList < order.idxOf "extModules".toList ∧
    order.idxOf "types".toList < order.idxOf "extTypes".toList ∧
    order.idxOf "procedures".toList < order.idxOf "extProcedures".toList ∧
    order.idxOf "absinterfaces".toList < order.idxOf "extInterfaces".toList ∧
    order.idxOf "extInterfaces".toList < order.length := by
  decide

/-- ... but for other kinds the chain order of LINK_TYPES puts `extModules` and `extTypes` before
    B's procedures: an unqualified `[[foo]]` where B defines procedure `foo` and A a type `foo`
    is resolved to A's entity. -/
theorem find_unqualified_local_first_witness :
    projectFind [("procedures".toList, [{ name := "foo".toList, ext := false }]),
                 ("extTypes".toList, [{ name := "foo".toList, ext := true }])] "foo".toList none
      = some (some { name := "foo".toList, ext := true }) := by
  decide

/-! ## An unreachable or malformed description costs only the links -/

/-- If every way of failing to fetch / decode the description is caught by the `except` clause
    of `load_external_modules` (generated table), a failed fetch loads nothing and aborts nothing. -/
theorem bad_description_costs_only_links (b : Base)
    (hall : ∀ kv ∈ Gen.fetchErrors, kv.2 = true) (exc : Str) (he : exc ∈ Gen.fetchErrors.map (·.1)) :
    load b (.failed exc) = .loaded [] := by
  have hc : catches exc = true := by
    obtain ⟨kv, hkv, rfl⟩ := List.mem_map.mp he
    have tbl : ∀ kv ∈ Gen.fetchErrors, catches kv.1 = kv.2 := by decide
    rw [tbl kv hkv, hall kv hkv]
  simp [load, hc]

/-- What holds on the code as it is: the failures the `except` clause does name cost only the links. -/
theorem bad_description_costs_only_links_partial (b : Base) (exc : Str) (hc : catches exc = true) :
    load b (.failed exc) = .loaded [] := by
  simp [load, hc]

/-- ... and every failure it does not name aborts the run (on the unrepaired tree:
    FileNotFoundError, IsADirectoryError, PermissionError, TimeoutError, UnicodeDecodeError). -/
theorem bad_description_costs_only_links_witness (b : Base) :
    ∀ kv ∈ Gen.fetchErrors, kv.2 = false → (load b (.failed kv.1)).isAborted = true := by
  intro kv hkv hf
  have tbl : ∀ kv ∈ Gen.fetchErrors, catches kv.1 = kv.2 := by decide
  have : catches kv.1 = false := by rw [tbl kv hkv, hf]
  simp [load, this, LoadResult.isAborted]

/-- A description that is valid JSON but not of the expected shape (here: a module without
    `name`) aborts the run as well: nothing in `load_external_modules` guards `dict2obj`. -/
theorem wrong_shape_aborts_witness :
    (load { remote := false, url := "/A/doc".toList }
      (.got (.arr [.obj [(kUrl, .str "./module/m.html".toList), (kObj, .str "module".toList)]]))).isAborted
      = true := by
  decide

/-! ## Several external projects: an unusable one costs only its *own* links -/

/-- What the translator read from `load_external_modules` (generated `handlerExits`): one entry per way of
    failing of the `fetchErrors` table, in the same order; each exit is one of the known ones; and a way of
    failing has a handler exactly when the `except` clause catches it. -/
theorem handler_exits_table :
    Gen.handlerExits.map (·.1) = Gen.fetchErrors.map (·.1) ∧
    (∀ kv ∈ Gen.handlerExits, kv.2 ∈ knownExits) ∧
    (∀ kv ∈ Gen.handlerExits, catches kv.1 = (kv.2 != kUncaught)) := by
  decide

/-- **No handler leaves the loop over the external projects.**  For every way of failing to fetch a
    description, the handler that catches it (generated table, read from the source) either falls through
    to the conversion with an empty description or continues with the next project - it never ends the
    loop (`break`, `return`) and never re-raises. -/
theorem handler_never_leaves_loop (exc : Str) :
    handlerFlow exc = .proceed ∨ handlerFlow exc = .next :=
  handlerFlow_goes_on (by decide) exc

/-- **An unusable external project is as if it were not listed.**  Whatever stands before and after it in
    the `external:` option - usable projects, other unusable ones, in any number and order -, a project
    whose description cannot be fetched (in a way the `except` clause names) changes nothing about what
    `load_external_modules` does with the others: the same objects are appended, in the same order, and the
    run ends (or not) exactly as without it. -/
theorem unusable_project_costs_only_its_own_links (pre post : List (Base × Fetch)) (b : Base)
    (exc : Str) (hc : catches exc = true) :
    loadAll (pre ++ (b, .failed exc) :: post) = loadAll (pre ++ post) :=
  loadAllWith_drop_failed handlerFlow b exc hc (handler_never_leaves_loop exc) pre post []

/-- **Every usable project is loaded completely.**  When each listed project either has a description
    that converts or fails to be fetched in a caught way, the run is not aborted and the objects appended
    are exactly those every project contributes when it is listed alone, project after project. -/
theorem every_usable_project_loaded (ps : List (Base × Fetch)) (h : ∀ p ∈ ps, harmless p = true) :
    loadAll ps = .loaded ((ps.map objsOf).flatten) := by
  simpa [loadAll] using loadAllWith_harmless handlerFlow handler_never_leaves_loop ps [] h

/-- **The round trip, with other external projects around.**  A is exported (valid kinds) and listed by B
    at any position among other external projects, each of which is usable or unusable in a caught way.
    Then the run is not aborted and every entity of A reachable through exported attributes is among the
    entities appended to B's lists with its name, its kind, its list, and URL = *A's own* location /
    `get_url e` - not the location of a neighbour. -/
theorem roundtrip_among_several (pre post : List (Base × Fetch))
    (hpre : ∀ p ∈ pre, harmless p = true) (hpost : ∀ p ∈ post, harmless p = true)
    (b : Base) (version : Str) (mods : List Ent) (hv : validList mods = true)
    (hn : mods.all isNode = true) (m : Ent) (hm : m ∈ mods) (e : Ent) (hr : Reach m e)
    (name : Str) (url : Option Str) (obj : Str) (pt : Option Str) (attrs : List (Str × Attr))
    (he : e = .node name url obj pt attrs) :
    ∃ os, loadAll (pre ++ (b, .got (dumpModules version mods)) :: post) = .loaded os ∧
      ∃ x ∈ entriesAll os, x.name = .str name ∧ x.cls = kindOf obj pt ∧
        x.list = listOf (kindOf obj pt) ∧ x.url = .str (rebase b (urlText url)) := by
  obtain ⟨osA, hA, x, hx, hp⟩ := roundtrip b version mods hv hn m hm e hr name url obj pt attrs he
  have hall : ∀ p ∈ pre ++ (b, Fetch.got (dumpModules version mods)) :: post, harmless p = true := by
    intro p hp'
    rcases List.mem_append.mp hp' with h | h
    · exact hpre p h
    · rcases List.mem_cons.mp h with h | h
      · subst h; simp [harmless, hA, isOk]
      · exact hpost p h
  refine ⟨_, every_usable_project_loaded _ hall, x, ?_, hp⟩
  simp only [List.map_append, List.map_cons, List.flatten_append, List.flatten_cons, entriesAll_append,
    List.mem_append]
  right; left
  simpa [objsOf, hA] using hx

/-- A single listed project: the loop is the one-project `load` of the theorems above. -/
theorem single_project_load (b : Base) (f : Fetch) : loadAll [(b, f)] = load b f := by
  cases f with
  | got doc =>
    simp only [loadAll, loadAllWith, load]
    cases importDoc b doc <;> simp
  | failed exc =>
    simp only [loadAll, loadAllWith, load]
    cases catches exc with
    | false => rfl
    | true =>
      rcases handler_never_leaves_loop exc with h | h <;> simp [h, importDoc_empty]

/-- Why `handler_never_leaves_loop` is load-bearing: with a handler that ends the loop (`return` /
    `break`) an unusable project listed first costs every link into the usable project listed after it,
    while the run still succeeds - and with the order swapped nothing is lost. -/
theorem leaving_the_loop_loses_later_projects_witness :
    let a : Base × Fetch := ({ remote := false, url := ['/', 'A'] },
      .got (.arr [.obj [(kName, .str ['m']), (kUrl, .str ['.', '/', 'm', '.', 'h', 't', 'm', 'l']),
                        (kObj, .str ['m', 'o', 'd', 'u', 'l', 'e'])]]))
    let x : Base × Fetch := ({ remote := false, url := ['/', 'X'] },
      .failed ['U', 'R', 'L', 'E', 'r', 'r', 'o', 'r'])
    catches ['U', 'R', 'L', 'E', 'r', 'r', 'o', 'r'] = true →
    (loadAllWith (fun _ => .stop) [x, a] []).count = 0 ∧
    (loadAllWith (fun _ => .stop) [a, x] []).count = 1 ∧
    (loadAllWith (fun _ => .proceed) [x, a] []).count = 1 := by
  decide

/-! ## Round 4: the nodes of B's graphs (used modules, called procedures, extended types, component types) -/

/-- "every public entity of A that B uses, extends, *calls* ... is linked to a URL that exists in A's
    documentation" - on the nodes of B's graphs: the node made for an entity imported from an external project
    carries exactly the URL the entity was imported with (`external_url`, re-based on A's location), whatever the
    path from the page back to the top of B's site (`parent_dir`), whether A is given by a local path or by a
    remote URL, and whichever External* class the entity has.  Holds for the test read from
    `BaseNode.__init__` (`Gen.nodeVerbatim`) and the classes it turns into strings (`Gen.nodeStringified`). -/
theorem graph_node_of_external_entity_carries_its_url (parentDir cls name url : Str)
    (h : plainLink url name = true) :
    nodeUrl parentDir { external := true, cls := cls, name := name, url := some url, visible := true } = some url := by
  have hu : url.isEmpty = false := by
    have := (plainLink_url url name h).1
    cases url <;> simp_all
  unfold nodeUrl nodeUrlWith
  cases hc : Gen.nodeStringified.contains cls
  · simp [hu, Gen.nodeVerbatim, evalCond, evalAtom]
  · simp [hu, parseLink_strOfExternal url name h, Gen.nodeVerbatim, evalCond, evalAtom]

/-- Non-vacuity: local paths (spaces, `#anchor`) and remote URLs are in the class the theorem is stated for. -/
example : plainLink (chars! "/abs/with space/doc/type/t.html#boundprocedure-b") (chars! "b") = true ∧
    plainLink (chars! "https://ex.invalid/~user/a.b/module/m.html") (chars! "Amod1") = true := by
  decide

/-- The same with the URL spelled out: an entity exported with `get_url() = u` from a project at `b` (local
    directory or remote URL) is, on every node B's graphs make for it, linked to `b / u` - the page of A's own
    documentation (`roundtrip` gives the import, this the step from the imported object to the node). -/
theorem graph_node_roundtrip (b : Base) (parentDir cls name u : Str)
    (h : plainLink (rebase b u) name = true) :
    nodeUrl parentDir { external := true, cls := cls, name := name,
                        url := some (rebase b (afterFirstSlash ('.' :: '/' :: u))), visible := true }
      = some (rebase b u) := by
  rw [strip_first_segment]
  exact graph_node_of_external_entity_carries_its_url parentDir cls name (rebase b u) h

/-- "... costs only the links": an imported entity without a usable URL (falsy `external_url`) gives a node
    without a link - never a link to somewhere inside B.  Excluded (see the witness): a *name* that is itself
    written like a link. -/
theorem graph_node_without_url_is_not_a_link_partial (parentDir cls name : Str) (hn : parseLink name = none) :
    nodeUrl parentDir { external := true, cls := cls, name := name, url := none, visible := true } = none := by
  unfold nodeUrl nodeUrlWith
  cases hc : Gen.nodeStringified.contains cls <;> simp [strOfExternal, hn]

/-- The excluded class is real: the string made from the object is matched against HYPERLINK_RE whatever it came
    from, so a description whose `name` is `<a href='x'>y</a>` (and whose URL is empty) yields a node linked to `x`. -/
theorem graph_node_without_url_is_not_a_link_witness :
    nodeUrlWith (.or (.atom .fromstr) (.atom .hasExternalUrl)) [chars! "ExternalModule"] (chars! "../")
      { external := true, cls := chars! "ExternalModule", name := chars! "<a href='x'>y</a>", url := none,
        visible := true } = some ['x'] := by
  decide

/-- Why `graph_node_of_external_entity_carries_its_url` is load-bearing: with a test that looks at the URL instead
    ("it has a scheme, so it is complete"), the absolute file-system path of a local-path external project is
    taken for a path inside B and prefixed with `../` - a dead link - while a remote URL stays intact. -/
theorem scheme_test_breaks_local_externals_witness :
    let o (u : Str) : NodeObj := { external := true, cls := chars! "ExternalModule", name := ['m'],
                                   url := some u, visible := true }
    nodeUrlWith (.atom .urlHasScheme) Gen.nodeStringified (chars! "../") (o (chars! "/abs/A/doc/module/m.html"))
      = some (chars! "..//abs/A/doc/module/m.html") ∧
    nodeUrlWith (.atom .urlHasScheme) Gen.nodeStringified (chars! "../") (o (chars! "https://h/a/module/m.html"))
      = some (chars! "https://h/a/module/m.html") := by
  decide

/-! ## Round 5: entities of A inside B - `[[...]]` to parts of A that B's code does not use, and USE association
    through B's own modules -/

/-- "every public entity of A that B ... names in a `[[...]]` reference is linked": *whatever B's source
    contains*.  A is exported (valid kinds) and `m` is any of its modules; B is any project - its USE statements
    are not even a parameter: nothing of B decides what is loaded - that has no module, submodule or
    already-known external module of that name.  Then the description converts and the unqualified `[[name]]`
    is resolved by `Project.find` to an entity loaded from A's description that carries the module's name
    (modules, submodules and `extModules` are the first three collections of the generated LINK_TYPES). -/
theorem reference_to_any_exported_module_resolves (b : Base) (version : Str) (mods : List Ent)
    (hv : validList mods = true) (hn : mods.all isNode = true) (m : Ent) (hm : m ∈ mods)
    (name : Str) (url : Option Str) (obj : Str) (pt : Option Str) (attrs : List (Str × Attr))
    (he : m = .node name url obj pt attrs) (hmod : kindOf obj pt = kModule) (own : Colls)
    (h1 : findIn name (collection own kModulesColl) = none)
    (h2 : findIn name (collection own kSubmodulesColl) = none)
    (h3 : findIn name (collection own kExtModules) = none) :
    ∃ os, importDoc b (dumpModules version mods) = .ok os ∧
      ∃ x, projectFind (withLoaded own (entriesAll os)) name none = some (some x) ∧
        x.ext = true ∧ lower x.name = lower name := by
  obtain ⟨os, hos, e, hemem, hname, hcls, hlist, _⟩ :=
    roundtrip b version mods hv hn m hm m (Reach.refl m) name url obj pt attrs he
  refine ⟨os, hos, ?_⟩
  have hl : e.list = kExtModules := by rw [hlist, hmod]; decide
  have hin := loadedIn_mem kExtModules (entriesAll os) e name hemem hname hl
  obtain ⟨x, hxm, hfx, hxn⟩ := findIn_of_mem name (loadedIn kExtModules (entriesAll os)) ⟨_, hin, rfl⟩
  -- whatever the search returns from a list of loaded objects is an external entity with that name
  have key : ∀ c y, findIn name (loadedIn c (entriesAll os)) = some y → y.ext = true ∧ lower y.name = lower name :=
    fun c y hy => ⟨loadedIn_ext c _ y (findIn_some name _ y hy).1, (findIn_some name _ y hy).2⟩
  obtain ⟨k1, k2, k3, rest, hrest⟩ : ∃ k1 k2 k3 rest, Gen.linkTypes =
      (k1, kModulesColl) :: (k2, kSubmodulesColl) :: (k3, kExtModules) :: rest := ⟨_, _, _, _, rfl⟩
  have hm1 : kModulesColl ∈ Gen.linkTypes.map (·.2) := by decide
  have hm2 : kSubmodulesColl ∈ Gen.linkTypes.map (·.2) := by decide
  have hm3 : kExtModules ∈ Gen.linkTypes.map (·.2) := by decide
  have c1 := collection_withLoaded own (entriesAll os) _ hm1
  have c2 := collection_withLoaded own (entriesAll os) _ hm2
  have c3 := collection_withLoaded own (entriesAll os) _ hm3
  have hflat : ∃ R, (Gen.linkTypes.map (fun kv => collection (withLoaded own (entriesAll os)) kv.2)).flatten =
      (collection own kModulesColl ++ loadedIn kModulesColl (entriesAll os)) ++
      ((collection own kSubmodulesColl ++ loadedIn kSubmodulesColl (entriesAll os)) ++
      ((collection own kExtModules ++ loadedIn kExtModules (entriesAll os)) ++ R)) := by
    refine ⟨(rest.map (fun kv => collection (withLoaded own (entriesAll os)) kv.2)).flatten, ?_⟩
    rw [hrest]
    simp only [List.map_cons, List.flatten_cons, c1, c2, c3]
  obtain ⟨R, hR⟩ := hflat
  simp only [projectFind, hR, findIn_append, h1, h2, h3, Option.none_or]
  cases hA : findIn name (loadedIn kModulesColl (entriesAll os)) with
  | some y => exact ⟨y, by simp, key _ y hA⟩
  | none =>
    cases hB : findIn name (loadedIn kSubmodulesColl (entriesAll os)) with
    | some y => exact ⟨y, by simp, key _ y hB⟩
    | none => exact ⟨x, by simp [hfx], loadedIn_ext _ _ x hxm, hxn⟩

/-- `filter_public` - what a module of B passes on of the entities it got by USE association - looks at the
    *name* only (public by default, or named in a PUBLIC statement): an entity is kept or dropped whether it is
    one of B's own or one imported from an external project. -/
theorem reexport_filter_ignores_origin (m : BMod) (t : Tbl) (k : Str) (v : Item) :
    (k, v) ∈ filterPublic m t ↔ (k, v) ∈ t ∧ shouldBePublic m k = true :=
  mem_filterWith _ t k v

/-- "every public entity of A that B uses, extends ... is linked" when B gets it *indirectly*: module `P` of B
    uses module `mname` (of A - or of B, any depth: `pubM` is whatever that module passes on) and passes the
    name `k` on (public by default or listed PUBLIC); module `Q` of B uses `P`.  Then the very entity `e` that
    `mname` offers under `k` - with its class and its `external_url` - is what `P` passes on and what `Q`'s
    declarations (`extends(k)`, `type(k)`, `procedure(k)`, calls) are resolved to.  For each of the four tables;
    whatever else `P` and `Q` declare themselves. -/
theorem external_entity_passes_through_prelude (env ext : List (Str × Pub)) (mname : Str) (pubM : Pub)
    (P Q : BMod) (hM : lookupMod env ext mname = some pubM) (hP : P.uses = [(mname, .all)])
    (hQ : Q.uses = [(P.name, .all)]) (hfresh : findMod P.name env = none) (f : Fld) (k : Str) (e : Item)
    (hk : (pubM.get f).lookup k = some e) (hwM : (pubM.get f).wf) (hwP : (P.ownPub.get f).wf)
    (hpub : shouldBePublic P k = true) :
    (((correlateMod P env ext).1).get f).lookup k = some e ∧
    (((correlateMod Q (env ++ [(P.name, (correlateMod P env ext).1)]) ext).2).get f).lookup k = some e := by
  have hPres := correlateModWith_single_all (fun m k _ => shouldBePublic m k) P env ext mname pubM hP hM
  have hmemF : (k, e) ∈ filterWith (fun k _ => shouldBePublic P k) (pubM.get f) :=
    (mem_filterWith _ _ k e).mpr ⟨lookup_some_mem _ _ _ hk, hpub⟩
  have hwF : Tbl.wf (filterWith (fun k _ => shouldBePublic P k) (pubM.get f)) := wf_filter _ _ hwM
  have h1 : (((correlateMod P env ext).1).get f).lookup k = some e := by
    simp only [correlateMod, hPres, get_update, get_map]
    exact lookup_dupdate_of_lookup _ _ k e hwF (lookup_of_mem_wf _ k e hwF hmemF)
  refine ⟨h1, ?_⟩
  have hlook : lookupMod (env ++ [(P.name, (correlateMod P env ext).1)]) ext P.name
      = some (correlateMod P env ext).1 := by
    simp [lookupMod, findMod_append_fresh P.name env _ hfresh]
  have hQres := correlateModWith_single_all (fun m k _ => shouldBePublic m k) Q
    (env ++ [(P.name, (correlateMod P env ext).1)]) ext P.name _ hQ hlook
  have hwPp : Tbl.wf (((correlateMod P env ext).1).get f) := by
    simp only [correlateMod, hPres, get_update, get_map]
    exact wf_dupdate _ _ hwP
  have hQ' : correlateMod Q (env ++ [(P.name, (correlateMod P env ext).1)]) ext
      = (Q.ownPub.update ((correlateMod P env ext).1.map (filterWith (fun k _ => shouldBePublic Q k))),
         Q.ownAll.update (correlateMod P env ext).1) := hQres
  rw [hQ', get_update]
  exact lookup_dupdate_of_lookup _ _ k e hwPp h1

/-- Why `reexport_filter_ignores_origin` is load-bearing: with a `filter_public` that leaves out the entities
    of other external projects (say, when the project is itself documented with `externalize`), the prelude
    module passes nothing of A on and a type `t` of A is unknown in the module that uses the prelude - while
    the code as it is hands it through. -/
theorem reexport_dropping_external_entities_witness :
    let t : Item := { ext := true, cls := chars! "type", name := .str ['t'], url := .str (chars! "/A/doc/type/t.html") }
    let ext : List (Str × Pub) := [(['a'], { procs := [], absints := [], types := [(['t'], t)], vars := [] })]
    let P : BMod := { name := ['p'], isPublic := true, publicList := [], ownPub := Pub.empty, ownAll := Pub.empty,
                      uses := [(['a'], .all)] }
    let Q : BMod := { name := ['q'], isPublic := true, publicList := [], ownPub := Pub.empty, ownAll := Pub.empty,
                      uses := [(['p'], .all)] }
    let dropExt : BMod → Str → Item → Bool := fun m k it => shouldBePublic m k && !it.ext
    (((correlateModWith dropExt Q [(['p'], (correlateModWith dropExt P [] ext).1)] ext).2.types).lookup ['t']).isSome = false ∧
    (((correlateMod Q [(['p'], (correlateMod P [] ext).1)] ext).2.types).lookup ['t']).isSome = true := by
  decide

/-- Non-vacuity of the prelude theorem: with ONLY lists and a private prelude that names the type in a PUBLIC
    statement the entity still arrives, under the local name of a rename. -/
example :
    let t : Item := { ext := true, cls := chars! "type", name := .str ['t'], url := .str (chars! "/A/doc/type/t.html") }
    let ext : List (Str × Pub) := [(['a'], { procs := [], absints := [], types := [(['t'], t)], vars := [] })]
    let P : BMod := { name := ['p'], isPublic := false, publicList := [['u']], ownPub := Pub.empty, ownAll := Pub.empty,
                      uses := [(['A'], .only [(['u'], ['T'])])] }
    let Q : BMod := { name := ['q'], isPublic := true, publicList := [], ownPub := Pub.empty, ownAll := Pub.empty,
                      uses := [(['p'], .only [(['u'], ['u'])])] }
    ((correlateAll ext [P, Q] []).map (fun r => (r.1, r.2.2.types.map (·.1)))) = [(['p'], [['u']]), (['q'], [['u']])] := by
  decide

/-- Non-vacuity: a two-level module tree is valid, and its round trip appends the module and its
    public function with the re-based URLs. -/
example :
    ((importDoc { remote := false, url := "/A/doc".toList }
      (dumpModules "v".toList
        [.node "m".toList (some "module/m.html".toList) "module".toList none
          [("pub_procs".toList, .dict [("f".toList,
              .node "f".toList (some "proc/f.html".toList) "proc".toList (some "Function".toList) [])])]])).toOption.map
        (fun os => (entriesAll os).map (fun x => (x.list, x.cls)))) =
      some [("extModules".toList, "module".toList), ("extProcedures".toList, "function".toList)] := by
  decide

/-! ## Round 6: module-qualified references into A (`[[module:entity]]`, `[[type:component]]`) and the
    state `dict2obj` leaves in the description -/

/-- **`[[parent:child]]`, exact form.**  For every entity `m` of A (a module, a type, ...: any name, URL, kind,
    attributes - no bound on their number or on the depth of the tree), looking the name `c` up among the
    children of the *imported* `m` (`find_child(c)`: the lazy chain `children` in the probed order
    `Gen.childrenOrder`, `_find_in_list`) never raises and finds exactly the import of the first entity of that
    name (case-insensitively) in the list attributes `m` was exported with, taken in that order - with the class
    defaults of the External class (`Gen.classDefaults`, a table fact: all iterable) for what the description
    does not carry. -/
theorem child_lookup_exact (b : Base) (p : Option Json) (name : Str) (url : Option Str) (obj : Str)
    (pt : Option Str) (attrs : List (Str × Attr)) (c : Str) :
    xFindChild (specE b p (.node name url obj pt attrs)) c none
      = .ok ((firstChild c attrs Gen.childrenOrder).map (specE b (some (.str name)))) := by
  simp only [specE, xFindChild]
  exact findLazy_spec b (some (.str name)) (kindOf obj pt) c attrs Gen.childrenOrder

/-- **`[[module:entity]]` reaches an entity of that name of that module, at its URL in A** (the clause "every
    public entity of A that B ... names in a `[[...]]` reference is linked to a URL that ... documents that
    entity", for the module-qualified form - the only form that reaches a module variable).  `e` is listed by `m`
    in a list attribute that is exported (`∈ ATTRIBUTES`) and that `children` visits: then the look-up of its name
    in the imported `m` succeeds, and what it finds is the import of an entity `c` that `m` lists under an exported,
    visited attribute, named like `e` up to case, carrying A's location / `get_url c`. -/
theorem child_reference_reaches_entity (b : Base) (p : Option Json) (name : Str) (url : Option Str) (obj : Str)
    (pt : Option Str) (attrs : List (Str × Attr)) (a : Str) (xs : List Ent)
    (ha : a ∈ Gen.childrenOrder) (hat : a ∈ Gen.attributes) (hl : attrs.lookup a = some (.list xs))
    (en : Str) (eu : Option Str) (eo : Str) (ept : Option Str) (eats : List (Str × Attr))
    (he : Ent.node en eu eo ept eats ∈ xs) :
    ∃ a' xs' cn cu co cpt cats,
      a' ∈ Gen.childrenOrder ∧ a' ∈ Gen.attributes ∧ attrs.lookup a' = some (.list xs') ∧
      Ent.node cn cu co cpt cats ∈ xs' ∧ lower en = lower cn ∧
      xFindChild (specE b p (.node name url obj pt attrs)) en none
        = .ok (some (specE b (some (.str name)) (.node cn cu co cpt cats))) ∧
      xUrl (specE b (some (.str name)) (.node cn cu co cpt cats)) = some (.str (rebase b (urlText cu))) := by
  obtain ⟨c, hc⟩ := firstChild_complete en attrs Gen.childrenOrder a xs ha hat hl en eu eo ept eats he rfl
  obtain ⟨a', xs', h1, h2, h3, h4, cn, cu, co, cpt, cats, h5, h6⟩ :=
    firstChild_sound en attrs Gen.childrenOrder c hc
  subst h5
  refine ⟨a', xs', cn, cu, co, cpt, cats, h1, h2, h3, h4, h6, ?_, ?_⟩
  · rw [child_lookup_exact, hc]; rfl
  · simp [specE, xUrl]

/-- **`[[parent:child(kind)]]`, exact form.**  With a kind that SUBLINK_TYPES maps to an exported attribute which
    `m` carries as a list: the look-up never raises and finds exactly the import of the first entity of that name
    in *that* list. -/
theorem qualified_child_lookup_exact (b : Base) (p : Option Json) (name : Str) (url : Option Str) (obj : Str)
    (pt : Option Str) (attrs : List (Str × Attr)) (kind a : Str) (xs : List Ent)
    (hk : Gen.sublinkTypes.lookup (lower kind) = some a) (hat : a ∈ Gen.attributes)
    (hl : attrs.lookup a = some (.list xs)) (c : Str) :
    xFindChild (specE b p (.node name url obj pt attrs)) c (some kind)
      = .ok ((firstNamed c xs).map (specE b (some (.str name)))) := by
  simp only [specE, xFindChild, hk, attrVal_spec, hat, if_true, hl]
  exact xFindIn_specList b (some (.str name)) c xs

/-- **`[[module:entity(kind)]]` reaches an entity of that name and kind.** -/
theorem qualified_child_reference_reaches_entity (b : Base) (p : Option Json) (name : Str) (url : Option Str)
    (obj : Str) (pt : Option Str) (attrs : List (Str × Attr)) (kind a : Str) (xs : List Ent)
    (hk : Gen.sublinkTypes.lookup (lower kind) = some a) (hat : a ∈ Gen.attributes)
    (hl : attrs.lookup a = some (.list xs))
    (en : Str) (eu : Option Str) (eo : Str) (ept : Option Str) (eats : List (Str × Attr))
    (he : Ent.node en eu eo ept eats ∈ xs) :
    ∃ cn cu co cpt cats, Ent.node cn cu co cpt cats ∈ xs ∧ lower en = lower cn ∧
      xFindChild (specE b p (.node name url obj pt attrs)) en (some kind)
        = .ok (some (specE b (some (.str name)) (.node cn cu co cpt cats))) ∧
      xUrl (specE b (some (.str name)) (.node cn cu co cpt cats)) = some (.str (rebase b (urlText cu))) := by
  obtain ⟨c, hc⟩ := firstNamed_complete en xs en eu eo ept eats he rfl
  obtain ⟨h4, cn, cu, co, cpt, cats, h5, h6⟩ := firstNamed_sound en xs c hc
  subst h5
  refine ⟨cn, cu, co, cpt, cats, h4, h6, ?_, ?_⟩
  · rw [qualified_child_lookup_exact b p name url obj pt attrs kind a xs hk hat hl, hc]; rfl
  · simp [specE, xUrl]

/-- **Table facts the two theorems above lean on** (`decide` on the probed tables): every plain list of entities a
    description carries - `functions`, `subroutines`, `interfaces`, `absinterfaces`, `types`, `variables`,
    `boundprocs` - is exported (`ATTRIBUTES`) *and* visited by `children`, and the kind words of the link syntax
    lead to these very lists; what the External classes set themselves can be iterated. -/
theorem child_lists_exported_and_visited :
    (∀ a ∈ [chars! "functions", chars! "subroutines", chars! "interfaces", chars! "absinterfaces", chars! "types",
            chars! "variables", chars! "boundprocs"], a ∈ Gen.attributes ∧ a ∈ Gen.childrenOrder) ∧
    (∀ kv ∈ [(chars! "function", chars! "functions"), (chars! "subroutine", chars! "subroutines"),
             (chars! "interface", chars! "interfaces"), (chars! "absinterface", chars! "absinterfaces"),
             (chars! "type", chars! "types"), (chars! "variable", chars! "variables"),
             (chars! "bound", chars! "boundprocs")], Gen.sublinkTypes.lookup kv.1 = some kv.2) ∧
    Gen.classDefaults.all (fun row => row.2.all (fun p => p.2 == kList || p.2 == kDict || p.2 == kStr)) = true := by
  decide

/-- **Why the plain lists have to be converted** (witness, `decide`): an imported module that has its `pub_vars`
    table but not its `variables` list - what "build only the `pub_*` tables" gives - answers `[[geom:origin]]`
    with nothing, so that `convert_link` falls back to the module's own page, and `[[geom:origin(variable)]]` with
    a ValueError that ends the run; the module imported as the code imports it reaches the variable. -/
theorem module_without_its_plain_lists_loses_child_references_witness :
    let v : XObj := .node (chars! "variable") (.str (chars! "origin")) (.str (chars! "/A/doc/module/geom.html#variable-origin"))
      (some (.str (chars! "geom"))) none []
    let lean : XObj := .node (chars! "module") (.str (chars! "geom")) (.str (chars! "/A/doc/module/geom.html")) none none
      [(chars! "pub_vars", .dict [(chars! "origin", v)])]
    let full : XObj := .node (chars! "module") (.str (chars! "geom")) (.str (chars! "/A/doc/module/geom.html")) none none
      [(chars! "pub_vars", .dict [(chars! "origin", v)]), (chars! "variables", .list [v])]
    outcome (xFindChild lean (chars! "origin") none) = [chars! "none"] ∧
    outcome (resolveRef (some lean) (some (chars! "origin")) none)
      = [chars! "module", chars! "geom", chars! "/A/doc/module/geom.html"] ∧
    outcome (xFindChild lean (chars! "origin") (some (chars! "variable"))) = [chars! "ValueError"] ∧
    outcome (resolveRef (some full) (some (chars! "Origin")) none)
      = [chars! "variable", chars! "origin", chars! "/A/doc/module/geom.html#variable-origin"] ∧
    outcome (xFindChild full (chars! "origin") (some (chars! "Variable")))
      = [chars! "variable", chars! "origin", chars! "/A/doc/module/geom.html#variable-origin"] := by
  decide

/-- **Stripping is not idempotent: the second conversion of the same dictionary loses the directory.**
    `dict2obj` stores `external_url.split("/", 1)[-1]` back into the dictionary it was given.  On the exported
    `./dir/rest` the first conversion leaves `dir/rest` (= `get_url()`, `strip_first_segment`); a second conversion
    of the *same* dictionary would re-base `rest` alone - for every directory name and every rest. -/
theorem second_strip_loses_directory (dir rest : Str) (hd : '/' ∉ dir) :
    afterFirstSlash ('.' :: '/' :: (dir ++ '/' :: rest)) = dir ++ '/' :: rest ∧
    afterFirstSlash (afterFirstSlash ('.' :: '/' :: (dir ++ '/' :: rest))) = rest := by
  rw [afterFirstSlash_dot_slash]
  exact ⟨rfl, afterFirstSlash_append dir rest hd⟩

/-- a stripped URL without a directory left is a fixed point: only then would a second conversion be harmless -/
theorem strip_fixed_point (s : Str) (h : '/' ∉ s) : afterFirstSlash s = s := by
  simp [afterFirstSlash, afterFirstSlashAux_none s h]

/-- **Every load has to start from a freshly parsed description** (witness, `decide`): the model of the state
    `dict2obj` leaves behind (`rewriteJ`, corresponded with the real dictionary after `load_external_modules`)
    converted a second time puts the module at `/A/doc/geom.html`; the description as parsed from the file at
    `/A/doc/module/geom.html`. -/
theorem converting_the_same_dictionary_twice_witness :
    let j : Json := .obj [(kName, .str (chars! "geom")), (kUrl, .str (chars! "./module/geom.html")),
                          (kObj, .str (chars! "module"))]
    let b : Base := { remote := false, url := chars! "/A/doc" }
    ((dict2obj b none j).toOption.bind xUrl).map jsonText = some (chars! "/A/doc/module/geom.html") ∧
    ((dict2obj b none (rewriteJ j)).toOption.bind xUrl).map jsonText = some (chars! "/A/doc/geom.html") := by
  decide

/-- Non-vacuity of `child_reference_reaches_entity` / `qualified_child_lookup_exact`: a module exported with a
    type and a constructor interface of the same name plus a variable: `[[m:origin]]` reaches the variable,
    `[[m:vec]]` the type (types come before interfaces in `children`), `[[m:vec(interface)]]` the interface. -/
example :
    let m : Ent := .node (chars! "m") (some (chars! "module/m.html")) (chars! "module") none
      [(chars! "interfaces", .list [.node (chars! "vec") (some (chars! "interface/vec.html")) (chars! "interface")
                                      (some (chars! "Interface")) []]),
       (chars! "types", .list [.node (chars! "vec") (some (chars! "type/vec.html")) (chars! "type") none []]),
       (chars! "variables", .list [.node (chars! "Origin") (some (chars! "module/m.html#variable-origin"))
                                      (chars! "variable") none []])]
    let b : Base := { remote := false, url := chars! "/A/doc" }
    outcome (xFindChild (specE b none m) (chars! "origin") none)
      = [chars! "variable", chars! "Origin", chars! "/A/doc/module/m.html#variable-origin"] ∧
    outcome (xFindChild (specE b none m) (chars! "VEC") none) = [chars! "type", chars! "vec", chars! "/A/doc/type/vec.html"] ∧
    outcome (xFindChild (specE b none m) (chars! "vec") (some (chars! "Interface")))
      = [chars! "interface", chars! "vec", chars! "/A/doc/interface/vec.html"] := by
  decide

/-! ## Round 6: the `href` of a textual reference to an imported entity -/

/-- **A `[[...]]` reference to an entity imported from a local path leads, from the page it is shown on, to the
    entity's URL in A's documentation.**  `convert_link` writes `relpath(external_url, current_path)` with
    `current_path = <output dir>/<Path(context url).parent.parent>/non-existent dir` - the text is shown on the
    entity's own page and on list pages, so the reference has to work from every directory *next to* that one.
    For every output directory `base`, every `pre`, every sibling directory `d`, every absolute URL without `..`
    (what `dict2obj` builds: A's resolved location / `get_url`): following the reference from `base/pre/d`
    arrives exactly at the URL.  Excluded (decidable, witnessed below): A's documentation lying inside
    `base/pre/non-existent dir`. -/
theorem textual_link_leads_to_imported_url_partial (base pre : List Path.Seg) (d : Path.Seg) (itemUrl : Str)
    (hb : Path.Normal base) (hpre : Path.Normal pre) (hd : Path.NormalSeg d) (habs : isAbs itemUrl = true)
    (hup : Path.up ∉ pathSegs itemUrl)
    (hx : ¬ (base ++ pre ++ [kNonExistent]) <+: pathSegs itemUrl) :
    Path.resolve (base ++ pre ++ [d]) (linkRel base (base ++ pre ++ [kNonExistent]) itemUrl) = pathSegs itemUrl := by
  have ht : Path.Normal (pathSegs itemUrl) := by
    intro s hs
    have hne : s ≠ Path.up := fun h => hup (h ▸ hs)
    simp only [pathSegs, List.mem_filter, Bool.and_eq_true, Bool.not_eq_true', bne_iff_ne, ne_eq] at hs
    refine ⟨?_, hs.2.2, hne⟩
    intro h; subst h; simp at hs
  have hP : Path.Normal (base ++ pre) := Path.normal_append hb hpre
  have hX : Path.NormalSeg kNonExistent := by decide
  have hcur : Path.Normal (base ++ pre ++ [kNonExistent]) :=
    Path.normal_append hP (fun s hs => by simp at hs; subst hs; exact hX)
  have hne : Path.relpath (pathSegs itemUrl) (base ++ pre ++ [kNonExistent]) ≠ [] := by
    intro h
    exact hx (by rw [relpath_eq_nil _ _ h]; exact List.prefix_refl _)
  have h1 : linkRel base (base ++ pre ++ [kNonExistent]) itemUrl
      = Path.relpath (pathSegs itemUrl) (base ++ pre ++ [kNonExistent]) := by
    unfold linkRel linkTarget Path.relpathPy
    simp only [habs, if_true]
    rw [Path.norm_normal _ ht, Path.norm_normal _ hcur, if_neg hne]
  rw [h1]
  unfold Path.resolve Path.norm
  rw [foldl_sibling (base ++ pre) (pathSegs itemUrl) d kNonExistent hP ht hd hX hx []]
  simp

/-- the page directory the theorem speaks of is the one `MetaMarkdown.convert` computes from the context's URL -/
theorem current_path_is_sibling_of_page_directories (base ctxUrl : List Path.Seg) :
    currentPath base ctxUrl = base ++ ctxUrl.dropLast.dropLast ++ [kNonExistent] := rfl

/-- **A reference to an entity imported from a remote location is the imported URL, unchanged**, wherever the
    page is. -/
theorem remote_link_href_verbatim (base cur : List Path.Seg) (u : Str) (h : (stripHttp u).isSome = true) :
    linkHref base cur u = u := by
  have : startsWith u kHttp = true := by
    unfold stripHttp at h
    split at h <;> simp_all [startsWith, kHttp]
  simp [linkHref, this]

/-- the second look `RelativeLinksTreeProcessor` takes at every `href` changes nothing unless the reference,
    read from the working directory, happens to lie below the output directory -/
theorem tree_processor_leaves_foreign_href (base cwd cur : List Path.Seg) (href : Str)
    (h : properPrefix base (if isAbs href then Path.norm (pathSegs href) else Path.norm (cwd ++ pathSegs href)) = false) :
    fixHref base cwd cur href = href := by
  simp [fixHref, h]

/-- **Witnesses for the two exclusions** (`decide`): A documented inside `<B's output>/non-existent dir` - the
    reference made from there is followed from `module/` to a place inside B's `module/` directory; and a layout
    in which the reference, read from the working directory, lies below the output directory - the tree processor
    rewrites it into a reference to a page of B (as long as it reads relative references that way: the probed
    `Gen.treeProcessorReadsRelative`; with the candidate repair it leaves the reference alone). -/
theorem textual_link_exclusions_witness :
    let base : List Path.Seg := [chars! "w", chars! "doc"]
    Path.resolve (base ++ [chars! "module"])
        (linkRel base (base ++ [kNonExistent]) (chars! "/w/doc/" ++ kNonExistent ++ chars! "/A/module/m.html"))
      = [chars! "w", chars! "doc", chars! "module", chars! "A", chars! "module", chars! "m.html"] ∧
    (Gen.treeProcessorReadsRelative = true →
      pageHref base [chars! "w"] (base ++ [kNonExistent]) (chars! "/w/w/doc/A/m.html") = chars! "../A/m.html") ∧
    (Gen.treeProcessorReadsRelative = false →
      pageHref base [chars! "w"] (base ++ [kNonExistent]) (chars! "/w/w/doc/A/m.html") = chars! "../../w/doc/A/m.html") ∧
    linkHref base (base ++ [kNonExistent]) (chars! "/w/w/doc/A/m.html") = chars! "../../w/doc/A/m.html" := by
  decide

/-- Non-vacuity: B documented in `/w/B/doc`, A in `/w/A/doc`: the reference shown on `module/bmod.html` and on
    `lists/modules.html` is `../../../A/doc/module/geom.html` and leads to A's page from both. -/
example :
    let base : List Path.Seg := [chars! "w", chars! "B", chars! "doc"]
    hrefOf base [chars! "w", chars! "B"] (.context [chars! "module", chars! "bmod.html"]) (chars! "/w/A/doc/module/geom.html")
      = chars! "../../../A/doc/module/geom.html" ∧
    Path.resolve (base ++ [chars! "lists"]) (pathSegs (chars! "../../../A/doc/module/geom.html"))
      = [chars! "w", chars! "A", chars! "doc", chars! "module", chars! "geom.html"] ∧
    hrefOf base [chars! "w", chars! "B"] (.context [chars! "module", chars! "bmod.html"]) (chars! "https://ex.invalid/a/module/geom.html")
      = chars! "https://ex.invalid/a/module/geom.html" := by
  decide

/-! ## Round 6: `Project.find` among the imported objects -/

/-- **Table fact (probed on every run): `Project.find` passes over imported type-bound procedures** when it looks
    for a bare name - they share `extProcedures` with the module procedures. -/
theorem find_skips_bindings : chars! "boundprocedure" ∈ Gen.findSkips := by decide

/-- **A bare (or kind-qualified) `[[name]]` never ends at an object of a class `Project.find` skips** - with the
    table fact above: never at a type-bound procedure of A, however the description orders its entities (bindings
    are reached through their type: `child_reference_reaches_entity`).  For every set of loaded objects. -/
theorem bare_name_never_reaches_a_skipped_class (skip : List Str) (os : List XObj) (name : Str) (kind : Option Str)
    (o : XObj) (h : findLoadedWith skip os name kind = .ok (some o)) : skip.contains (xCls o) = false := by
  cases kind with
  | none => exact xFindTop_not_skipped skip name _ o (by simpa [findLoadedWith] using h)
  | some k =>
    simp only [findLoadedWith] at h
    cases hl : Gen.linkTypes.lookup (lower k) with
    | none => simp [hl] at h
    | some c => simp only [hl] at h; exact xFindTop_not_skipped skip name _ o h

theorem bare_name_never_reaches_a_binding (os : List XObj) (name : Str) (kind : Option Str) (o : XObj)
    (h : findLoaded os name kind = .ok (some o)) : xCls o ≠ chars! "boundprocedure" := by
  have h1 := bare_name_never_reaches_a_skipped_class Gen.findSkips os name kind o h
  intro hc
  rw [hc] at h1
  have h2 : Gen.findSkips.contains (chars! "boundprocedure") = true := by decide
  rw [h2] at h1
  cases h1

/-- **Why the table fact is load-bearing** (witness, `decide`): a type `t` with a binding `s`, listed before the
    module subroutine `s`: without the skip `[[s]]` ends at the binding (`type/t.html#boundprocedure-s`), with the
    probed table at the subroutine's page. -/
theorem binding_found_by_bare_name_witness :
    let bnd : XObj := .node (chars! "boundprocedure") (.str (chars! "s")) (.str (chars! "/A/doc/type/t.html#boundprocedure-s"))
      (some (.str (chars! "t"))) none []
    let typ : XObj := .node (chars! "type") (.str (chars! "t")) (.str (chars! "/A/doc/type/t.html")) (some (.str (chars! "m"))) none
      [(chars! "boundprocs", .list [bnd])]
    let sub : XObj := .node (chars! "subroutine") (.str (chars! "s")) (.str (chars! "/A/doc/proc/s.html")) (some (.str (chars! "m"))) none []
    let m : XObj := .node (chars! "module") (.str (chars! "m")) (.str (chars! "/A/doc/module/m.html")) none none
      [(chars! "types", .list [typ]), (chars! "subroutines", .list [sub])]
    outcome (findLoadedWith [] [m] (chars! "s") none)
      = [chars! "boundprocedure", chars! "s", chars! "/A/doc/type/t.html#boundprocedure-s"] ∧
    outcome (findLoaded [m] (chars! "S") none) = [chars! "subroutine", chars! "s", chars! "/A/doc/proc/s.html"] ∧
    outcome (xConvertLink [m] (chars! "t") none (some (chars! "s")) none)
      = [chars! "boundprocedure", chars! "s", chars! "/A/doc/type/t.html#boundprocedure-s"] ∧
    outcome (xConvertLink [m] (chars! "m") none (some (chars! "nosuch")) none)
      = [chars! "module", chars! "m", chars! "/A/doc/module/m.html"] := by
  decide

/-- **`[[module:entity]]` through `Project.find` / `convert_link`.**  When the search for the parent's name among the
    loaded objects ends at the import of an exported entity `m` (for a module of A and a B without a module of that
    name it does: `reference_to_any_exported_module_resolves`), the whole reference resolves - without the fall-back
    to the parent's page - to the import of an entity that `m` lists under that name, at A's location / `get_url`. -/
theorem reference_through_project_find_reaches_entity (b : Base) (p : Option Json) (os : List XObj)
    (pname : Str) (pkind : Option Str) (name : Str) (url : Option Str) (obj : Str)
    (pt : Option Str) (attrs : List (Str × Attr)) (a : Str) (xs : List Ent)
    (htop : findLoaded os pname pkind = .ok (some (specE b p (.node name url obj pt attrs))))
    (ha : a ∈ Gen.childrenOrder) (hat : a ∈ Gen.attributes) (hl : attrs.lookup a = some (.list xs))
    (en : Str) (eu : Option Str) (eo : Str) (ept : Option Str) (eats : List (Str × Attr))
    (he : Ent.node en eu eo ept eats ∈ xs) :
    ∃ cn cu co cpt cats, lower en = lower cn ∧
      xConvertLink os pname pkind (some en) none = .ok (some (specE b (some (.str name)) (.node cn cu co cpt cats))) ∧
      xUrl (specE b (some (.str name)) (.node cn cu co cpt cats)) = some (.str (rebase b (urlText cu))) := by
  obtain ⟨_, _, cn, cu, co, cpt, cats, _, _, _, _, h5, h6, h7⟩ :=
    child_reference_reaches_entity b p name url obj pt attrs a xs ha hat hl en eu eo ept eats he
  refine ⟨cn, cu, co, cpt, cats, h5, ?_, h7⟩
  simp [xConvertLink, xProjectFind, htop, viaParent, h6]

end Ford.C16
