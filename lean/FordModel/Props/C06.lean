import FordModel.Use
namespace Ford.C06
open Ford Ford.Use

theorem placeholder : True := trivial

end Ford.C06
