/-
  C06 — USE association imports exactly the accessible names.
  Property theorems only.  Model: FordModel/Use.lean (FORD's tables and loops as they
  are); specification: FordModel/Lemmas/UseSpec.lean (`Admits`, `Exports`, `Imports`,
  `Sees`: the standard's rules as inductive relations, no tables, no order);
  helper lemmas: FordModel/Lemmas/Use.lean.

  `run k g order` is `for container in ranklist: container.correlate(project)` for the
  kind-`k` tables (procedures, abstract interfaces, types, variables) of project `g`.
  Nothing below bounds the number of modules, the length of re-export chains, the
  number of USE statements per scope or the size of only-lists.
-/
import FordModel.Use
import FordModel.Lemmas.UseSpec
import FordModel.Lemmas.Use
import FordModel.Lemmas.UseHost
import FordModel.UseBind
import FordModel.Lemmas.UseBind
import FordModel.Generated.C06
import FordModel.UseExt
namespace Ford.C06
open Ford Ford.Use

/-- **Nothing inaccessible is imported** (soundness), for *every* correlation order, every
    module graph, every mix of plain / only / only+rename USE statements, several USEs of one
    module, every entity kind: each entry `l ↦ e` of a scope's `all_*` table is a name the
    standard makes denote `e` there, and each entry of a module's `pub_*` table is exported by
    the standard's rules.  The excluded defect classes are explicit and decidable:
    rename lists without ONLY (`NoBareRename`) and `private ::` statements about imported
    names that FORD's filter ignores (`NoEffectivePrivate`); `NoShadow` is Fortran's own
    rule that a use-associated identifier is not redeclared.  `Exports` starts from the standard's
    accessibility of a declaration (`declAccessible`: PUBLIC / PRIVATE keyword in whatever order
    and place, else the module default, PROTECTED irrelevant) while the code reads its single
    `permission` slot; the class where the two differ in this direction is excluded explicitly
    (`NoProtectedOverPrivate`, finding C06-protected-private-exported). -/
theorem tables_sound_partial (g : List Scope) (k : Nat) (order : List Str)
    (hu : UniqueNames g) (hb : NoBareRename g) (hp : NoEffectivePrivate g) (hs : NoShadow g k)
    (hq : NoProtectedOverPrivate g)
    (m : Scope) (hm : m ∈ g) (l : Str) (e : Ent) :
    (aget (getTabs (run k g order) m.name).pub l = some e → Exports g k m l e) ∧
    (aget (getTabs (run k g order) m.name).all l = some e → Sees g k m l e) :=
  ⟨fun h => (sound_run g k hu hb hp hs hq order m hm).1 (l, e) (aget_mem _ _ _ h),
   fun h => (sound_run g k hu hb hp hs hq order m hm).2 (l, e) (aget_mem _ _ _ h)⟩

/-- **Everything accessible is imported** (completeness), across any chain or diamond of
    re-exporting modules: when the scopes are correlated in *any* topological order of the
    USE graph (`isTopo`, what `toposort_flatten` + appended programs provide — checked on the
    real order in every run), every identifier the standard makes accessible in a scope is a
    key of its table.  Excluded defect classes: rename lists without ONLY, and only-lists
    naming one remote entity twice (`NoRepeatedRemote`).  Every entity that is accessible by the
    standard (`declAccessible`) is found - `public, protected` in either order, by attribute or by
    statement, in default-public and default-private modules alike; `LegalAccess` is Fortran's
    constraint that no entity is given both PUBLIC and PRIVATE. -/
theorem tables_complete_partial (g : List Scope) (k : Nat) (order : List Str)
    (hu : UniqueNames g) (hb : NoBareRename g) (hr : NoRepeatedRemote g) (hl : LegalAccess g)
    (ht : isTopo g [] order = true) (m : Scope) (hm : m ∈ g) (hin : m.name ∈ order)
    (l : Str) (e : Ent) :
    (Exports g k m l e → hasKey (getTabs (run k g order) m.name).pub l) ∧
    (Sees g k m l e → hasKey (getTabs (run k g order) m.name).all l) :=
  ⟨fun h => (complete_run g k hu hb hr hl order ht m hm hin).1 l e h,
   fun h => (complete_run g k hu hb hr hl order ht m hm hin).2 l e h⟩

/-- **Exactly the accessible names, resolved to the exporting module's entity**: in a legal
    program (no identifier denotes two entities in the scope) the name table *is* the
    standard's relation: `all_*[l] = e ↔ Sees s l e`. -/
theorem use_exact_partial (g : List Scope) (k : Nat) (order : List Str)
    (hu : UniqueNames g) (hb : NoBareRename g) (hr : NoRepeatedRemote g)
    (hp : NoEffectivePrivate g) (hs : NoShadow g k) (hl : LegalAccess g)
    (hq : NoProtectedOverPrivate g) (ht : isTopo g [] order = true)
    (m : Scope) (hm : m ∈ g) (hin : m.name ∈ order)
    (hamb : ∀ l e e', Sees g k m l e → Sees g k m l e' → e = e') (l : Str) (e : Ent) :
    aget (getTabs (run k g order) m.name).all l = some e ↔ Sees g k m l e := by
  constructor
  · exact (tables_sound_partial g k order hu hb hp hs hq m hm l e).2
  · intro h
    obtain ⟨e', _, he'⟩ := hasKey_mem _ _ ((tables_complete_partial g k order hu hb hr hl ht m hm hin l e).2 h)
    have := (tables_sound_partial g k order hu hb hp hs hq m hm l e').2 he'
    rw [he', hamb l e e' h this]

/-- ... and a module's `pub_*` table is exactly what it exports (own public entities and
    re-exports, restricted by its default accessibility and access statements). -/
theorem export_exact_partial (g : List Scope) (k : Nat) (order : List Str)
    (hu : UniqueNames g) (hb : NoBareRename g) (hr : NoRepeatedRemote g)
    (hp : NoEffectivePrivate g) (hs : NoShadow g k) (hl : LegalAccess g)
    (hq : NoProtectedOverPrivate g) (ht : isTopo g [] order = true)
    (m : Scope) (hm : m ∈ g) (hin : m.name ∈ order)
    (hamb : ∀ l e e', Exports g k m l e → Exports g k m l e' → e = e') (l : Str) (e : Ent) :
    aget (getTabs (run k g order) m.name).pub l = some e ↔ Exports g k m l e := by
  constructor
  · exact (tables_sound_partial g k order hu hb hp hs hq m hm l e).1
  · intro h
    obtain ⟨e', _, he'⟩ := hasKey_mem _ _ ((tables_complete_partial g k order hu hb hr hl ht m hm hin l e).1 h)
    have := (tables_sound_partial g k order hu hb hp hs hq m hm l e').1 he'
    rw [he', hamb l e e' h this]

/-- **Regardless of the order in which source files are read**: any two topological orders
    of the USE graph give every scope the same name table. -/
theorem order_independent_partial (g : List Scope) (k : Nat) (o₁ o₂ : List Str)
    (hu : UniqueNames g) (hb : NoBareRename g) (hr : NoRepeatedRemote g)
    (hp : NoEffectivePrivate g) (hs : NoShadow g k) (hl : LegalAccess g)
    (hq : NoProtectedOverPrivate g)
    (h₁ : isTopo g [] o₁ = true) (h₂ : isTopo g [] o₂ = true)
    (m : Scope) (hm : m ∈ g) (hi₁ : m.name ∈ o₁) (hi₂ : m.name ∈ o₂)
    (hamb : ∀ l e e', Sees g k m l e → Sees g k m l e' → e = e') (l : Str) :
    aget (getTabs (run k g o₁) m.name).all l = aget (getTabs (run k g o₂) m.name).all l := by
  have e1 := use_exact_partial g k o₁ hu hb hr hp hs hl hq h₁ m hm hi₁ hamb l
  have e2 := use_exact_partial g k o₂ hu hb hr hp hs hl hq h₂ m hm hi₂ hamb l
  cases h : aget (getTabs (run k g o₁) m.name).all l with
  | some e => exact ((e2 e).2 ((e1 e).1 h)).symm
  | none =>
    cases h' : aget (getTabs (run k g o₂) m.name).all l with
    | none => rfl
    | some e => rw [(e1 e).2 ((e2 e).1 h')] at h; cases h

/-- **Private entities are never imported** — unconditionally: whatever the USE forms (the
    defect classes included), whatever the correlation order, every entity in a `pub_*` table
    is a declaration of a project module whose accessibility is not private, and every entity
    in a scope's `all_*` table is such a declaration or one of the scope's own. -/
theorem private_never_imported (g : List Scope) (k : Nat) (order : List Str) (hu : UniqueNames g)
    (m : Scope) (hm : m ∈ g) (l : Str) (e : Ent) :
    (aget (getTabs (run k g order) m.name).pub l = some e → PubEnt g k e) ∧
    (aget (getTabs (run k g order) m.name).all l = some e → PubEnt g k e ∨ OwnEnt k m e) :=
  ⟨fun h => (priv_run g k hu order m hm).1 (l, e) (aget_mem _ _ _ h),
   fun h => (priv_run g k hu order m hm).2 (l, e) (aget_mem _ _ _ h)⟩

/-- **Private entities are never imported**, with "private" read as the standard's accessibility
    (PRIVATE attribute or statement, or default-private module without PUBLIC; PROTECTED does not
    make an entity accessible): outside the defect class `NoProtectedOverPrivate`, for every USE
    form (the other defect classes included) and every correlation order, whatever sits in a
    `pub_*` / `all_*` table is a declaration that `declAccessible` admits, or the scope's own. -/
theorem private_never_imported_std_partial (g : List Scope) (k : Nat) (order : List Str)
    (hu : UniqueNames g) (hq : NoProtectedOverPrivate g) (m : Scope) (hm : m ∈ g) (l : Str) (e : Ent) :
    (aget (getTabs (run k g order) m.name).pub l = some e → AccessibleEnt g k e) ∧
    (aget (getTabs (run k g order) m.name).all l = some e → AccessibleEnt g k e ∨ OwnEnt k m e) := by
  have h := private_never_imported g k order hu m hm l e
  exact ⟨fun h1 => accessibleEnt_of_pubEnt g k e hq (h.1 h1),
         fun h1 => (h.2 h1).imp (accessibleEnt_of_pubEnt g k e hq) id⟩

/-- **What a module exports of its own declarations is decided by PUBLIC / PRIVATE / the default,
    not by PROTECTED** - for every list of access keywords in every order (attribute list, then
    statements), in default-public and default-private modules: the filter of `_cleanup` over
    FORD's single permission slot (the keyword met last) equals the standard's accessibility,
    outside the defect class and for legal keyword sets. -/
theorem own_export_filter_exact_partial (m : Scope) (d : Decl)
    (hl : ¬ (Perm.pub ∈ d.accs ∧ Perm.priv ∈ d.accs)) (hq : ¬ ProtectedOverPrivate m d) :
    declExported m d = declAccessible m d :=
  declExported_eq_accessible m d hl hq

/-- ... in particular an entity that is PUBLIC and PROTECTED is exported whatever the default
    accessibility of its module and wherever PROTECTED stands (`integer, public, protected :: x`,
    `integer, protected, public :: x`, `public :: x` + `protected :: x` in either order). -/
theorem public_protected_exported (m : Scope) (d : Decl) (hp : Perm.pub ∈ d.accs) (hn : Perm.priv ∉ d.accs) :
    declExported m d = true := by
  have ha : declAccessible m d = true := by simp [declAccessible, hp]
  rw [declExported_eq_accessible m d (fun h => hn h.2) (fun h => by have h2 := h.2; rw [ha] at h2; cases h2), ha]

/-- The export filter of the model *is* the filter of the working tree: `_cleanup` keeps the entities whose
    `permission` is in `exportedPermissions`, the slot holds the word of the keyword met last (`declPerm`),
    and at every place where the reader meets an access keyword - attribute list and access statement of a
    variable, access statements about types, functions, subroutines, generic and abstract interfaces and
    bodies of generic interfaces - exactly PUBLIC, PRIVATE and PROTECTED are written into the slot, alone
    and over any earlier keyword (so each of the three overwrites the others).  Both tables are OBSERVED on
    every run (translate/c06.py reads a stub source file with every keyword and every ordered pair of
    keywords through the real `FortranSourceFile`), not read off the spelling of the source. -/
theorem export_filter_is_source_table :
    (∀ m d, declExported m d = Generated.C06.exportedPermissions.contains (declPerm m d).word) ∧
    (∀ l ∈ Generated.C06.slotKeywordLists, l = [Perm.pub.word, Perm.priv.word, Perm.prot.word]) ∧
    Generated.C06.slotKeywordLists ≠ [] := by
  refine ⟨?_, by decide, by decide⟩
  intro m d
  unfold declExported
  cases declPerm m d <;> decide

/-- With ONLY, the local name FORD chooses is the standard's: `used_names` against
    `Admits`, for every only-list without a repeated remote name. -/
theorem only_list_admits (u : UseA) (r l : Str) (ho : u.only = true)
    (hn : (u.items.map UItem.remote).Nodup) : AdmitsCode u r l ↔ Admits u r l :=
  ⟨admits_of_code u r l (by simp [ho]), code_of_admits u r l (by simp [ho]) (fun _ => hn)⟩

/-- After `fixes/C06-rename-without-only.diff` (model variant `renAll = true`, selected at run
    time when the working tree honours the witness) a rename list without ONLY is read exactly
    as the standard says, for every rename list without a repeated remote name. -/
theorem bare_rename_admits_repaired (u : UseA) (r l : Str) (ho : u.only = false) (hf : u.renAll = true)
    (hn : (u.items.map UItem.remote).Nodup) (hall : ∀ it ∈ u.items, ∃ a b, it = UItem.ren a b) :
    AdmitsCode u r l ↔ Admits u r l :=
  code_iff_admits_repaired u r l ho hf hn hall

/-! ### One identifier, entities of several kinds (a derived type and its constructor)

  F2018 15.4.3.4.1: "A generic name may be the same as a derived type name".  FORD keeps such a pair as an
  entry of `pub_procs` (the generic interface) and an entry of `pub_types` (the type) under one key;
  `getUsedAll u [pub_procs, pub_absints, pub_types, pub_vars]` is the tuple `get_used_entities` returns. -/

/-- **A USE statement treats every kind of entity alike and separately**: each of the tables
    `get_used_entities` returns is `getUsed` of the export table at the same position.  Whether an
    identifier is imported as a type does not depend on whether a procedure, an abstract interface or a
    variable of that name exists (the driver command `c06.used4` runs `getUsedAll` against the real
    function with export tables that share identifiers). -/
theorem import_tables_are_kindwise (u : UseA) (pubs : List Table) (i : Nat) :
    (getUsedAll u pubs)[i]? = (pubs[i]?).map (getUsed u) :=
  getUsedAll_get u pubs i

/-- **An identifier named in an only-list (or admitted by a USE without ONLY) arrives in EVERY table in
    which the module exports it**, under the one local name the standard gives it (`Admits`: F2018 14.2.2),
    and nothing arrives in a table that is not an export of the same kind.  So `use m, only: t` and
    `use m, only: d => t` import the derived type `t` *and* its constructor.  For every number of kinds,
    every content of the other tables, every only-list without a repeated remote name. -/
theorem shared_identifier_imported_in_every_kind (u : UseA) (pubs : List Table)
    (hb : u.only = false → u.items = []) (hn : u.only = true → (u.items.map UItem.remote).Nodup) :
    (∀ r l, Admits u r l → ∀ (i : Nat) (pub : Table) (e : Ent), pubs[i]? = some pub → (r, e) ∈ pub →
        ∃ t, (getUsedAll u pubs)[i]? = some t ∧ hasKey t l) ∧
    (∀ (i : Nat) (t : Table), (getUsedAll u pubs)[i]? = some t → ∀ p : Str × Ent, p ∈ t →
        ∃ pub, pubs[i]? = some pub ∧ ∃ r, (r, p.2) ∈ pub ∧ Admits u r p.1) := by
  constructor
  · intro r l ha i pub e hi hm
    exact getUsedAll_complete u pubs r l (code_of_admits u r l hb hn ha) i pub e hi hm
  · intro i t ht p hp
    obtain ⟨pub, hpub, r, hr, hc⟩ := getUsedAll_sound u pubs i t ht p hp
    exact ⟨pub, hpub, r, hr, admits_of_code u r p.1 hb hc⟩

/-- **End to end**: if module `n` exports the identifier `r` both as a procedure (`c`, the constructor) and
    as a type (`t`), every scope with a USE statement of `n` that admits `r` under the local name `l`
    has `l ↦ c` in `all_procs` and `l ↦ t` in `all_types` after the ranklist loop - across any chain of
    re-exporting modules behind `n`, for any topological order; same hypotheses as `use_exact_partial`,
    for the two kinds. -/
theorem type_and_constructor_imported_together_partial (g : List Scope) (order : List Str)
    (hu : UniqueNames g) (hb : NoBareRename g) (hr : NoRepeatedRemote g) (hp : NoEffectivePrivate g)
    (hs0 : NoShadow g 0) (hs2 : NoShadow g 2) (hl : LegalAccess g) (hq : NoProtectedOverPrivate g)
    (ht : isTopo g [] order = true) (m : Scope) (hm : m ∈ g) (hin : m.name ∈ order)
    (hamb0 : ∀ l e e', Sees g 0 m l e → Sees g 0 m l e' → e = e')
    (hamb2 : ∀ l e e', Sees g 2 m l e → Sees g 2 m l e' → e = e')
    (u : UseA) (huse : u ∈ m.uses) (n : Scope) (hn : n ∈ g) (hmod : n.isMod = true) (hname : n.name = u.mod)
    (r l : Str) (ha : Admits u r l) (c t : Ent) (hc : Exports g 0 n r c) (htp : Exports g 2 n r t) :
    aget (getTabs (run 0 g order) m.name).all l = some c ∧
    aget (getTabs (run 2 g order) m.name).all l = some t :=
  ⟨(use_exact_partial g 0 order hu hb hr hp hs0 hl hq ht m hm hin hamb0 l c).2
      (Sees.imp (Imports.mk hm huse hn hmod hname hc ha)),
   (use_exact_partial g 2 order hu hb hr hp hs2 hl hq ht m hm hin hamb2 l t).2
      (Sees.imp (Imports.mk hm huse hn hmod hname htp ha))⟩

private def cM0 : Scope :=
  { name := ['m', '0'], isMod := true, defPub := false, pubNames := [], privNames := [],
    decls := [{ name := ['t'], kind := 2, accs := [.pub] }, { name := ['t'], kind := 0, accs := [.pub] },
              { name := ['s'], kind := 0, accs := [] }],
    uses := [] }
private def cProg (rest : Str) : Scope :=
  { name := ['p'], isMod := false, defPub := true, pubNames := [], privNames := [], decls := [],
    uses := [mkUse ['m', '0'] rest] }

/-- Kernel-evaluated instance: the default-private module `m0` declares `type t`, `interface t` (both
    made public by `public :: t`) and a private procedure `s`.  `use m0, only: t`, `use m0, only: d => t`
    and plain `use m0` give the program the type and the constructor under the same local name; the
    private `s` never arrives; and on bare tables: an identifier shared by the procedure and the type
    table comes out of both, one that only the variable table holds only of that one. -/
theorem type_and_constructor_witness :
    (∀ k ∈ [0, 2],
      aget (getTabs (run k [cM0, cProg [',', ' ', 'o', 'n', 'l', 'y', ':', ' ', 't']] [['m', '0'], ['p']]) ['p']).all ['t']
        = some (['m', '0'], ['t']) ∧
      aget (getTabs (run k [cM0, cProg [',', ' ', 'o', 'n', 'l', 'y', ':', ' ', 'd', '=', '>', 't']] [['m', '0'], ['p']]) ['p']).all ['d']
        = some (['m', '0'], ['t']) ∧
      aget (getTabs (run k [cM0, cProg [',', ' ', 'o', 'n', 'l', 'y', ':', ' ', 'd', '=', '>', 't']] [['m', '0'], ['p']]) ['p']).all ['t']
        = none ∧
      (getTabs (run k [cM0, cProg []] [['m', '0'], ['p']]) ['p']).all = [(['t'], (['m', '0'], ['t']))]) ∧
    getUsedAll (mkUse ['m'] [',', ' ', 'o', 'n', 'l', 'y', ':', ' ', 'd', '=', '>', 't', ',', 'v'])
        [[(['t'], (['m'], ['t'])), (['s'], (['m'], ['s']))], [], [(['t'], (['m'], ['t']))], [(['v'], (['m'], ['v']))]]
      = [[(['d'], (['m'], ['t']))], [], [(['d'], (['m'], ['t']))], [(['v'], (['m'], ['v']))]] := by
  decide

/-! ### USE association inside contained procedures (host association, F2018 19.5.1.4)

  `runN` is the ranklist loop including the recursion into module procedures and internal
  procedures (`Nested`); `correlateNested g st k hostAll p` is `correlate` of the contained
  procedure `p` at the moment the project state is `st` and its host's table is `hostAll`. -/

/-- Contained procedures never disturb the tables of modules and programs: every theorem above
    about `run` holds verbatim for the tables `runN` gives the scopes of `g`. -/
theorem contained_procedures_leave_hosts_alone (g : List Scope) (ns : List Nested) (k : Nat)
    (order : List Str) (hd : NestedDisjoint g ns) (m : Scope) (hm : m ∈ g) :
    getTabs (runN k g ns order) m.name = getTabs (run k g order) m.name :=
  runN_agree g ns k hd order m hm

/-- **A name obtained by USE inside a procedure denotes the exporting module's entity, whatever
    the host knows under that name** (use association hides host association): for every host
    table, every state in which the `pub_*` tables of the used modules are sound (`hsd`) and
    complete (`hcp`) - what `tables_sound_partial` / `tables_complete_partial` establish once
    those modules are correlated -, every USE form without the defect classes. -/
theorem use_association_hides_host_partial (g : List Scope) (k : Nat) (st : State) (hostAll : Table)
    (p : Scope) (hun : UniqueNames g)
    (hb : ∀ u ∈ p.uses, u.only = false → u.items = [])
    (hr : ∀ u ∈ p.uses, u.only = true → (u.items.map UItem.remote).Nodup)
    (hsd : ∀ u ∈ p.uses, ∀ n, findMod g u.mod = some n → ∀ q ∈ (getTabs st n.name).pub, Exports g k n q.1 q.2)
    (hcp : ∀ u ∈ p.uses, ∀ n, findMod g u.mod = some n → ∀ r e, Exports g k n r e → hasKey (getTabs st n.name).pub r)
    (hamb : ∀ l e e', ImportsU g k p.uses l e → ImportsU g k p.uses l e' → e = e')
    (l : Str) (e : Ent) (hi : ImportsU g k p.uses l e) :
    aget (correlateNested g st k hostAll p).all l = some e :=
  nested_import_wins g k st hostAll p hun hb hr hsd hcp hamb l e hi

/-- **Exactly the accessible names in a contained procedure**: its table is the standard's
    relation `SeesIn` over its host's table - own declarations, names obtained by USE (under the
    local name, resolved to the exporting module's entity), and those host identifiers that are
    neither redeclared nor use-associated in the procedure.  Excluded classes, explicit: the
    USE defect classes, a use-associated identifier redeclared locally (`hs`, illegal Fortran),
    ambiguous imports (`hamb`, illegal when referenced) and hiding across kinds
    (`SameKindHiding`: FORD keeps one table per kind). -/
theorem nested_use_exact_partial (g : List Scope) (k : Nat) (st : State) (hostAll : Table) (p : Scope)
    (hun : UniqueNames g)
    (hb : ∀ u ∈ p.uses, u.only = false → u.items = [])
    (hr : ∀ u ∈ p.uses, u.only = true → (u.items.map UItem.remote).Nodup)
    (hsd : ∀ u ∈ p.uses, ∀ n, findMod g u.mod = some n → ∀ q ∈ (getTabs st n.name).pub, Exports g k n q.1 q.2)
    (hcp : ∀ u ∈ p.uses, ∀ n, findMod g u.mod = some n → ∀ r e, Exports g k n r e → hasKey (getTabs st n.name).pub r)
    (hs : ∀ l e, ImportsU g k p.uses l e → ∀ d ∈ p.decls, d.name ≠ l)
    (hamb : ∀ l e e', ImportsU g k p.uses l e → ImportsU g k p.uses l e' → e = e')
    (hx : SameKindHiding g k hostAll p) (l : Str) (e : Ent) :
    aget (correlateNested g st k hostAll p).all l = some e ↔
      SeesIn g k (fun l e => aget hostAll l = some e) p l e :=
  nested_exact g k st hostAll p hun hb hr hsd hcp hs hamb hx l e

/-- **End to end, any nesting depth, any chain of re-exporting modules behind the USE**: after
    the whole ranklist loop, in any order that is topological for the USE graph *including the
    USE statements of contained procedures* (`isTopoN`; what `get_deps`' recursion provides,
    checked on the real order in every run), the table of a contained procedure `x` is exactly
    the standard's `SeesIn` over the final table of its host: names obtained by USE resolve to
    the exporting module's entity under the local name and hide the host's, the rest of the host's
    identifiers stay accessible.  `hostsFirst`: hosts are correlated before their children. -/
theorem nested_tables_exact_partial (g : List Scope) (ns : List Nested) (k : Nat) (order : List Str)
    (hu : UniqueNames g) (hb : NoBareRename g) (hr : NoRepeatedRemote g) (hp : NoEffectivePrivate g)
    (hs : NoShadow g k) (hl : LegalAccess g) (hq : NoProtectedOverPrivate g)
    (hd : NestedDisjoint g ns) (hpw : NestedNamesDistinct ns)
    (ht : isTopoN g ns [] order = true)
    (x : Nested) (hx : x ∈ ns) (m : Scope) (hm : m ∈ g) (hroot : m.name = x.root) (hin : x.root ∈ order)
    (hhf : hostsFirst [x.root] (ns.filter (fun y => y.root == x.root)))
    (hb' : ∀ u ∈ x.scope.uses, u.only = false → u.items = [])
    (hr' : ∀ u ∈ x.scope.uses, u.only = true → (u.items.map UItem.remote).Nodup)
    (hs' : ∀ l e, ImportsU g k x.scope.uses l e → ∀ d ∈ x.scope.decls, d.name ≠ l)
    (hamb : ∀ l e e', ImportsU g k x.scope.uses l e → ImportsU g k x.scope.uses l e' → e = e')
    (hk : SameKindHiding g k (getTabs (runN k g ns order) x.host).all x.scope) (l : Str) (e : Ent) :
    aget (getTabs (runN k g ns order) x.scope.name).all l = some e ↔
      SeesIn g k (fun l e => aget (getTabs (runN k g ns order) x.host).all l = some e) x.scope l e :=
  nested_run_exact g ns k order hu hb hr hp hs hl hq hd hpw ht x hx m hm hroot hin hhf hb' hr' hs' hamb hk l e

private def hM0 : Scope :=
  { name := "m0".toList, isMod := true, defPub := true, pubNames := [], privNames := [],
    decls := [{ name := ['v'], kind := 3, accs := [] }, { name := ['u'], kind := 3, accs := [] }], uses := [] }
private def hM1 : Scope :=
  { name := "m1".toList, isMod := true, defPub := true, pubNames := [], privNames := [],
    decls := [{ name := ['v'], kind := 3, accs := [] }, { name := ['w'], kind := 3, accs := [] }], uses := [] }
private def hProc (rest : Str) : Nested :=
  { root := "m1".toList, host := "m1".toList,
    scope := { name := ['n'], isMod := false, defPub := true, pubNames := [], privNames := [], decls := [],
               uses := [mkUse "m0".toList rest] } }

/-- non-vacuity / worked instance: module `m1` declares `v` and `w` and contains procedure `n`;
    with `use m0, only: v` (and with `use m0, only: v => u`, and with plain `use m0`) the
    procedure's `v` is `m0`'s entity, the host's `w` stays visible, the host's own table is
    untouched - for both file orders. -/
theorem use_hides_host_witness :
    (∀ order ∈ [["m0".toList, "m1".toList], ["m1".toList, "m0".toList]],
      aget (getTabs (runN 3 [hM0, hM1] [hProc ", only: v".toList] order) ['n']).all ['v'] = some ("m0".toList, ['v']) ∧
      aget (getTabs (runN 3 [hM0, hM1] [hProc ", only: v".toList] order) ['n']).all ['w'] = some ("m1".toList, ['w']) ∧
      aget (getTabs (runN 3 [hM0, hM1] [hProc ", only: v".toList] order) "m1".toList).all ['v'] = some ("m1".toList, ['v'])) ∧
    aget (getTabs (runN 3 [hM0, hM1] [hProc ", only: v => u".toList] ["m0".toList, "m1".toList]) ['n']).all ['v']
      = some ("m0".toList, ['u']) ∧
    aget (getTabs (runN 3 [hM0, hM1] [hProc []] ["m0".toList, "m1".toList]) ['n']).all ['v'] = some ("m0".toList, ['v']) := by
  decide

/-- the order hypothesis of `nested_tables_exact_partial` is satisfiable and is strictly stronger
    than `isTopo`: with the USE only inside the procedure, `m1` before `m0` is a topological order
    of the module-level USE graph but not of the graph that counts contained procedures -/
example :
    isTopoN [hM0, hM1] [hProc ", only: v".toList] [] ["m0".toList, "m1".toList] = true ∧
    isTopo [hM0, hM1] [] ["m1".toList, "m0".toList] = true ∧
    isTopoN [hM0, hM1] [hProc ", only: v".toList] [] ["m1".toList, "m0".toList] = false := by
  decide

/-! ### Witnesses of the defect classes (the replay inputs of known_findings/C06.json) -/

private def wM0 : Scope :=
  { name := "m0".toList, isMod := true, defPub := true, pubNames := [], privNames := [],
    decls := [{ name := ['v'], kind := 3, accs := [] }], uses := [] }
private def wProg (u : UseA) : Scope :=
  { name := ['p'], isMod := false, defPub := true, pubNames := [], privNames := [], decls := [], uses := [u] }
private def wOrder : List Str := ["m0".toList, ['p']]

/-- `use m0, w => v` (no ONLY): the standard makes `w` denote `m0.v` in `p`, FORD's table has
    no `w` (and has `v` instead). -/
theorem rename_without_only_witness :
    let u : UseA := mkUse "m0".toList ", w => v".toList
    let g := [wM0, wProg u]
    Sees g 3 (wProg u) ['w'] ("m0".toList, ['v']) ∧
    aget (getTabs (run 3 g wOrder) ['p']).all ['w'] = none ∧
    aget (getTabs (run 3 g wOrder) ['p']).all ['v'] = some ("m0".toList, ['v']) := by
  refine ⟨?_, by decide, by decide⟩
  refine Sees.imp (Imports.mk (n := wM0) (u := mkUse "m0".toList ", w => v".toList) (r := ['v'])
    (by simp) (by simp [wProg]) (by simp) rfl (by decide) ?_ (Or.inl (by decide)))
  exact Exports.decl (d := { name := ['v'], kind := 3, accs := [] }) (by simp) rfl (by simp [wM0]) rfl (by decide)

/-- the same input under the repaired variant: `w` is there, `v` is not -/
theorem rename_without_only_repaired_witness :
    let g := [wM0, wProg (mkUse "m0".toList ", w => v".toList true)]
    aget (getTabs (run 3 g wOrder) ['p']).all ['w'] = some ("m0".toList, ['v']) ∧
    aget (getTabs (run 3 g wOrder) ['p']).all ['v'] = none := by
  decide

/-- `use m0, only:` — ONLY_RE does not match an empty only-list, the statement is read as a
    USE without ONLY whose "rename list" is junk, and everything is imported. -/
theorem empty_only_witness :
    parseRest ", only:".toList = (false, [UItem.plain [], UItem.plain "only:".toList]) ∧
    parseRest ", only: v".toList = (true, [UItem.plain ['v']]) ∧
    aget (getTabs (run 3 [wM0, wProg (mkUse "m0".toList ", only:".toList)] wOrder) ['p']).all ['v']
      = some ("m0".toList, ['v']) := by
  decide

/-- `only: v, w => v` : the standard gives both names, `used_names` (keyed by the remote
    name) keeps the last. -/
theorem only_remote_twice_witness :
    let u : UseA := mkUse "m0".toList ", only: v, w => v".toList
    let g := [wM0, wProg u]
    Sees g 3 (wProg u) ['v'] ("m0".toList, ['v']) ∧
    aget (getTabs (run 3 g wOrder) ['p']).all ['v'] = none ∧
    aget (getTabs (run 3 g wOrder) ['p']).all ['w'] = some ("m0".toList, ['v']) := by
  refine ⟨?_, by decide, by decide⟩
  refine Sees.imp (Imports.mk (n := wM0) (u := mkUse "m0".toList ", only: v, w => v".toList) (r := ['v'])
    (by simp) (by simp [wProg]) (by simp) rfl (by decide) ?_ (Or.inr ⟨rfl, by rw [if_pos (by decide)]; decide⟩))
  exact Exports.decl (d := { name := ['v'], kind := 3, accs := [] }) (by simp) rfl (by simp [wM0]) rfl (by decide)

private def wM1 : Scope :=
  { name := "m1".toList, isMod := true, defPub := true, pubNames := [], privNames := [['v']],
    decls := [], uses := [mkUse "m0".toList []] }

/-- `private :: v` for an imported `v` in a default-public module: not exported by the
    standard, still in FORD's `pub_vars`. -/
theorem private_imported_witness :
    (¬ Exports [wM0, wM1] 3 wM1 ['v'] ("m0".toList, ['v'])) ∧
    aget (getTabs (run 3 [wM0, wM1] ["m0".toList, "m1".toList]) "m1".toList).pub ['v']
      = some ("m0".toList, ['v']) := by
  refine ⟨?_, by decide⟩
  intro h
  rcases exports_not_private h with ⟨d, hd, _⟩ | h
  · simp [wM1] at hd
  · exact h (by simp [wM1])

private def wM0p (accs : List Perm) : Scope :=
  { name := "m0".toList, isMod := true, defPub := false, pubNames := [], privNames := [],
    decls := [{ name := ['v'], kind := 3, accs := accs }], uses := [] }

/-- `integer, protected :: v` under a bare `private` statement (and `integer, private, protected
    :: v`): private by the standard, exported by FORD and imported by `use m0`; with PRIVATE met
    last (`protected, private`) it is not.  And the legal forms of the same module:
    `public, protected` / `protected, public` are exported and imported. -/
theorem protected_over_private_witness :
    (∀ accs ∈ [[Perm.prot], [Perm.priv, Perm.prot]],
      (¬ Exports [wM0p accs, wProg (mkUse "m0".toList [])] 3 (wM0p accs) ['v'] ("m0".toList, ['v'])) ∧
      ProtectedOverPrivate (wM0p accs) { name := ['v'], kind := 3, accs := accs } ∧
      aget (getTabs (run 3 [wM0p accs, wProg (mkUse "m0".toList [])] wOrder) ['p']).all ['v']
        = some ("m0".toList, ['v'])) ∧
    aget (getTabs (run 3 [wM0p [.prot, .priv], wProg (mkUse "m0".toList [])] wOrder) ['p']).all ['v'] = none ∧
    (∀ accs ∈ [[Perm.pub, Perm.prot], [Perm.prot, Perm.pub]],
      declAccessible (wM0p accs) { name := ['v'], kind := 3, accs := accs } = true ∧
      aget (getTabs (run 3 [wM0p accs, wProg (mkUse "m0".toList [])] wOrder) ['p']).all ['v']
        = some ("m0".toList, ['v'])) := by
  refine ⟨?_, by decide, by decide⟩
  intro accs haccs
  refine ⟨?_, ?_, ?_⟩
  · intro h
    rcases exports_inv h with ⟨d, _, _, hd, _, hacc, _, _⟩ | ⟨_, hi, _, _⟩
    · simp only [wM0p, List.mem_singleton] at hd
      subst hd
      simp only [List.mem_cons, List.not_mem_nil, or_false] at haccs
      rcases haccs with rfl | rfl <;> revert hacc <;> decide
    · obtain ⟨n, u, r, _, hu2, _⟩ := imports_inv hi
      simp [wM0p] at hu2
  · simp only [List.mem_cons, List.not_mem_nil, or_false] at haccs
    rcases haccs with rfl | rfl <;> decide
  · simp only [List.mem_cons, List.not_mem_nil, or_false] at haccs
    rcases haccs with rfl | rfl <;> decide

/-- the hypotheses of the theorems above are satisfiable by a non-trivial project
    (re-export through a default-private module with a rename) -/
example :
    let a : Scope := wM0
    let b : Scope := { name := "m1".toList, isMod := true, defPub := false, pubNames := [['w']], privNames := [],
                       decls := [], uses := [mkUse "m0".toList ", only: w => v".toList] }
    let c : Scope := wProg (mkUse "m1".toList [])
    isTopo [a, b, c] [] ["m0".toList, "m1".toList, ['p']] = true ∧
    aget (getTabs (run 3 [a, b, c] ["m0".toList, "m1".toList, ['p']]) ['p']).all ['w'] = some ("m0".toList, ['v']) := by
  decide

/-! ### Which module a USE statement refers to (`find_used_modules`)

  `bindName g exts n` is the scan `for candidate in chain(modules, external_modules): if
  n.lower() == candidate.name.lower(): bind; break`; `exts` are the `ExternalModule` stubs of
  `settings.extra_mods` (iso_fortran_env, omp_lib, mpi, ... and the project's own entries);
  `bindG` / `bindNs` is the project after that pass, which the driver then runs. -/

/-- **A module of the project is never shadowed by an external entry of the same name**: if the
    project defines a module whose name is the one in the USE statement (compared
    case-insensitively), the statement is bound to that module (the first such one) - for EVERY
    list of external modules, whatever names it contains, in whatever order and however often.
    (F2018 14.2.2: without module nature, a name that denotes both an intrinsic and a
    nonintrinsic module refers to the nonintrinsic one.) -/
theorem use_binds_project_module_first (g : List Scope) (exts : List ExtMod) (n : Str) (p : Scope)
    (h : g.find? (fun m => m.isMod && lower m.name == lower n) = some p) :
    bindName g exts n = .project p :=
  bindName_of_projMatch g exts n p h

/-- ... and conversely an external entry is used only when no module of the project has that name:
    then it is the first external entry of that name, and without one the name stays unbound
    (`correlate` skips it). -/
theorem use_binds_external_only_without_project_module (g : List Scope) (exts : List ExtMod) (n : Str) :
    (∀ e, bindName g exts n = .external e →
        (∀ m ∈ g, m.isMod = true → lower m.name ≠ lower n) ∧
        exts.find? (fun x => lower x.name == lower n) = some e) ∧
    (bindName g exts n = .unbound →
        (∀ m ∈ g, m.isMod = true → lower m.name ≠ lower n) ∧ ∀ e ∈ exts, lower e.name ≠ lower n) := by
  cases hp : projMatch g n with
  | some p =>
    rw [bindName_of_projMatch g exts n p hp]
    constructor
    · intro e h; cases h
    · intro h; cases h
  | none =>
    rw [bindName_of_noproj g exts n hp]
    cases he : exts.find? (fun x => lower x.name == lower n) with
    | some e0 =>
      constructor
      · intro e h
        cases h
        exact ⟨projMatch_none g n hp, rfl⟩
      · intro h; cases h
    | none =>
      constructor
      · intro e h; cases h
      · intro _
        refine ⟨projMatch_none g n hp, fun e hm => ?_⟩
        have := List.find?_eq_none.mp he e hm
        simpa using this

/-- **After binding every remaining USE names a module of the project by its declared name**, so
    the exact look-up of the correlation loop (`Use.findMod`) cannot miss it because of the case
    of either spelling; statements bound to an external stub or left unbound import nothing. -/
theorem bound_uses_name_project_modules (g : List Scope) (exts : List ExtMod) (s : Scope)
    (hs : s ∈ bindG g exts) (u : UseA) (hu : u ∈ s.uses) :
    ∃ p ∈ g, p.isMod = true ∧ u.mod = p.name := by
  unfold bindG at hs
  obtain ⟨s0, _, rfl⟩ := List.mem_map.mp hs
  exact bindUses_resolved g exts s0.uses u hu

/-- **The external stubs have no influence on any name table**: for a project whose module names
    are spelled in one case (`LowerNames`), running the correlation on the project as bound by
    `find_used_modules` - with ANY list of external entries - gives exactly the state of the
    plain model `runN`, about which all theorems above speak (modules, programs and contained
    procedures alike; any order).  In particular a project module called like an entry of
    `extra_mods` exports to its users exactly as any other module. -/
theorem external_stubs_leave_tables_alone (g : List Scope) (exts : List ExtMod) (ns : List Nested)
    (h : LowerNames g ns) (k : Nat) (order : List Str) :
    runN k (bindG g exts) (bindNs g exts ns) order = runN k g ns order :=
  runN_bound g exts ns h k order

/-- The scopes `find_used_modules` does not reach obtain nothing from their USE statements (the tree
    as it is: bodies of ABSTRACT interfaces, finding C06-abstract-interface-body-use-unbound): their
    table stays the table they start from, for every state, kind and host table. -/
theorem unreached_scope_imports_nothing (g : List Scope) (exts : List ExtMod) (unreached : List Str)
    (ns : List Nested) (y : Nested) (hy : y ∈ bindNsU g exts unreached ns)
    (hu : unreached.contains y.scope.name = true) (g' : List Scope) (st : State) (k : Nat) (hostAll : Table) :
    correlateNested g' st k hostAll y.scope = nestedStart k hostAll y.scope := by
  unfold bindNsU at hy
  obtain ⟨x, _, rfl⟩ := List.mem_map.mp hy
  by_cases hc : unreached.contains x.scope.name = true
  · simp only [hc, if_true]
    rfl
  · simp only [hc] at hu ⊢
    exact absurd hu hc

/-- ... and once every interface body is reached (after fixes/C06-interface-body-uses.diff the harness
    passes no unreached scope) the bound project is `bindNs`, i.e. the one
    `external_stubs_leave_tables_alone` speaks about. -/
theorem every_scope_reached_repaired (g : List Scope) (exts : List ExtMod) (ns : List Nested) :
    bindNsU g exts [] ns = bindNs g exts ns :=
  bindNsU_nil g exts ns

/-- Kernel-evaluated instance of the finding and of its repair: module `m0` declares the public
    variable `v`; the body `s` of an abstract interface of module `m1` says `use m0`.  As the code
    is (`s` unreached) the body's variable table stays empty; once reached it holds `v`. -/
theorem abstract_body_use_unbound_witness :
    let m0 : Scope := { name := ['m', '0'], isMod := true, defPub := true, pubNames := [], privNames := [],
                        decls := [{ name := ['v'], kind := 3, accs := [] }], uses := [] }
    let m1 : Scope := { name := ['m', '1'], isMod := true, defPub := true, pubNames := [], privNames := [],
                        decls := [{ name := ['s'], kind := 1, accs := [] }], uses := [] }
    let s : Scope := { name := ['s'], isMod := false, defPub := true, pubNames := [], privNames := [],
                       decls := [], uses := [mkUse ['M', '0'] []] }
    let ns : List Nested := [{ root := ['m', '1'], host := [], scope := s }]
    let order : List Str := [['m', '1'], ['m', '0']]
    (getTabs (runN 3 (bindG [m0, m1] []) (bindNsU [m0, m1] [] [['s']] ns) order) ['s']).all = [] ∧
    (getTabs (runN 3 (bindG [m0, m1] []) (bindNsU [m0, m1] [] [] ns) order) ['s']).all
      = [(['v'], (['m', '0'], ['v']))] := by
  decide

/-- Kernel-evaluated instance of finding C06-generic-interface-body-use-not-a-dependency: `m0`
    declares the type `t`, `m1` re-exports it (`use m0`), the body `s` of a generic interface of `m2`
    says `use m1`.  `get_deps` does not follow the bodies of generic interfaces, so FORD correlates
    `m2` in the first layer, before `m1`: that order is not `isTopoN` (the hypothesis of
    `nested_tables_exact_partial`) and the body's type table stays empty; in an order that counts
    the body's USE statement it holds `t`. -/
theorem generic_body_use_not_a_dependency_witness :
    let m0 : Scope := { name := ['m', '0'], isMod := true, defPub := true, pubNames := [], privNames := [],
                        decls := [{ name := ['t'], kind := 2, accs := [] }], uses := [] }
    let m1 : Scope := { name := ['m', '1'], isMod := true, defPub := true, pubNames := [], privNames := [],
                        decls := [], uses := [mkUse ['m', '0'] []] }
    let m2 : Scope := { name := ['m', '2'], isMod := true, defPub := true, pubNames := [], privNames := [],
                        decls := [{ name := ['g'], kind := 0, accs := [] }], uses := [] }
    let s : Scope := { name := ['s'], isMod := false, defPub := true, pubNames := [], privNames := [],
                       decls := [], uses := [mkUse ['m', '1'] []] }
    let g := [m0, m1, m2]
    let ns : List Nested := [{ root := ['m', '2'], host := ['m', '2'], scope := s }]
    let asFord : List Str := [['m', '0'], ['m', '2'], ['m', '1']]
    let topo : List Str := [['m', '0'], ['m', '1'], ['m', '2']]
    isTopo g [] asFord = true ∧ isTopoN g ns [] asFord = false ∧ isTopoN g ns [] topo = true ∧
    (getTabs (runN 2 (bindG g []) (bindNs g [] ns) asFord) ['s']).all = [] ∧
    (getTabs (runN 2 (bindG g []) (bindNs g [] ns) topo) ['s']).all = [(['t'], (['m', '0'], ['t']))] := by
  decide

/-- The scan the model mirrors is the one of the working tree, OBSERVED on every run (translate/c06.py calls
    the real `find_used_modules` on stand-in objects and watches what the real `Project.correlate` hands to
    it on a stub project): the project's `modules` are tried before its `extModules`, and of several
    candidates of one name the first is taken. -/
theorem binding_scan_is_source_scan :
    Generated.C06.bindingChain = chainOrder ∧
    Generated.C06.bindingChainArgs =
      [['m', 'o', 'd', 'u', 'l', 'e', 's'], ['e', 'x', 't', 'M', 'o', 'd', 'u', 'l', 'e', 's']] ∧
    Generated.C06.bindingFirstMatch = true := by
  decide

/-- No entry of the built-in table `ford.settings.INTRINSIC_MODS` (regenerated from the working
    tree) can take a USE statement away from a project module of that name. -/
theorem builtin_stubs_never_hide_project_module (g : List Scope) (n : Str) (p : Scope)
    (h : g.find? (fun m => m.isMod && lower m.name == lower n) = some p) :
    bindName g (Generated.C06.intrinsicModNames.map (fun x => { name := x })) n = .project p :=
  bindName_of_projMatch g _ n p h

/-- Kernel-evaluated instance: the project's own `omp_lib` (spelled `Omp_Lib`) next to the stub of
    the same name - a plain USE and one in another case are bound to the project's module, whose
    public variable arrives in the program; a name only the stub list knows is external, any
    other unbound. -/
theorem project_module_beats_stub_witness :
    let m : Scope := { name := ['O', 'm', 'p', '_', 'L', 'i', 'b'], isMod := true, defPub := true, pubNames := [],
                       privNames := [], decls := [{ name := ['v'], kind := 3, accs := [] }], uses := [] }
    let p : Scope := { name := ['p'], isMod := false, defPub := true, pubNames := [], privNames := [], decls := [],
                       uses := [mkUse ['O', 'M', 'P', '_', 'l', 'i', 'b'] []] }
    let exts : List ExtMod := [{ name := ['m', 'p', 'i'] }, { name := ['o', 'm', 'p', '_', 'l', 'i', 'b'] }]
    (bindG [m, p] exts).map (fun s => s.uses.map (·.mod)) = [[], [['O', 'm', 'p', '_', 'L', 'i', 'b']]] ∧
    aget (getTabs (run 3 (bindG [m, p] exts) [['O', 'm', 'p', '_', 'L', 'i', 'b'], ['p']]) ['p']).all ['v']
      = some (['O', 'm', 'p', '_', 'L', 'i', 'b'], ['v']) ∧
    (bindName [m, p] exts ['M', 'P', 'I']).tag = ['e', ':', 'm', 'p', 'i'] ∧
    (bindName [m, p] exts ['x']).tag = ['u'] := by
  decide

/-- Counter-example kept by the code as it is (finding C06-intrinsic-nature-binds-project-module):
    USE_RE drops the module nature, so `use, intrinsic :: iso_fortran_env` reaches
    `find_used_modules` exactly like `use iso_fortran_env` and is bound to a project module of
    that name, although F2018 14.2.2 makes it refer to the intrinsic module. -/
theorem intrinsic_nature_ignored_witness :
    parseUseStmt ['u', 's', 'e', ',', ' ', 'i', 'n', 't', 'r', 'i', 'n', 's', 'i', 'c', ' ', ':', ':', ' ', 'm', '1']
      = parseUseStmt ['u', 's', 'e', ' ', 'm', '1'] ∧
    parseUseStmt ['u', 's', 'e', ',', ' ', 'n', 'o', 'n', '_', 'i', 'n', 't', 'r', 'i', 'n', 's', 'i', 'c', ' ', ':', ':', ' ', 'm', '1']
      = parseUseStmt ['u', 's', 'e', ' ', 'm', '1'] ∧
    parseUseStmt ['u', 's', 'e', ' ', 'm', '1'] = some (['m', '1'], []) := by
  decide

/-! ### Tie of the scanners to the regular expressions in the source -/

/-- The three regular expressions the scanners `parseUseStmt`, `onlyMatch`, `renameSearch` mirror are, in
    the working tree, the ones they were written for.  Pinned by MEANING: the generated constants are the
    normal form of the *parsed* pattern (`re._parser`; translate/c06.py re-derives them from the compiled
    objects on every run, re-compiles the normal form and compares it with the real object on every string
    over a small alphabet) - so the layout of the source (re.VERBOSE, comments, redundant non-capturing
    groups, `[\\s]` for `\\s`, the case of literals under IGNORECASE, how the flags are spelled) does not
    matter, while any change of an alternative, repeat, class, assertion, anchor, flag or of the
    capturing groups breaks this obligation in the same run (flags 34 = IGNORECASE | UNICODE). -/
theorem regex_sources_pinned :
    Generated.C06.useReSrc = "^use(?:\\s*(?:,\\s*(?:non_)?intrinsic\\s*)?::\\s*|\\s+)(\\w+)\\s*($|,.*)" ∧
    Generated.C06.onlyReSrc = "^\\s*,\\s*only\\s*:\\s*(?=[^,])" ∧
    Generated.C06.renameReSrc = "(\\w+)\\s*=>\\s*(\\w+)" ∧
    Generated.C06.useReFlags = 34 ∧ Generated.C06.onlyReFlags = 34 ∧ Generated.C06.renameReFlags = 34 ∧
    Generated.C06.useReGroups = 2 ∧ Generated.C06.onlyReGroups = 0 ∧ Generated.C06.renameReGroups = 2 := by
  decide

/-! ### Round 6: USE association through the export tables of an external FORD project

  Project A is documented with `externalize: true` (`dump_modules` / `obj2dict`), project B lists it under
  `external:` (`load_external_modules` / `dict2obj`) and uses A's modules.  Model: FordModel/UseExt.lean
  (`dumpTable`, `loadTable`, `externalize`, `loadModules`, `bindUseX`, `runX`, `twoStep`); the driver command
  `c06.runx` runs `twoStep` against the real two projects. -/

/-- **What a consumer loads from modules.json is the export table the exporting project computed**, minus the
    entities that are external in the exporting project itself (`obj2dict` writes `null` for them, `dict2obj`
    skips the entry): same keys (the LOCAL names under which the module exports, renamed re-exports
    included), same entities, same order - for every table. -/
theorem external_table_roundtrip_partial (ext : List Ent) (t : Table) :
    loadTable (dumpTable ext t) = t.filter (fun p => !ext.contains p.2) := by
  induction t with
  | nil => rfl
  | cons p t ih =>
    show loadTable ((p.1, if ext.contains p.2 then none else some p.2) :: dumpTable ext t) = _
    by_cases h : ext.contains p.2 = true
    · rw [if_pos h]
      show loadTable (dumpTable ext t) = _
      rw [ih]; simp [List.filter_cons]; simpa using h
    · rw [if_neg h]
      show (p.1, p.2) :: loadTable (dumpTable ext t) = _
      rw [ih]; simp [List.filter_cons]; simpa using h

/-- **The export table a consumer loads is the export table the exporting project computed** when none of
    its entities is external in the exporting project (one project boundary): nothing lost, nothing added,
    nothing moved to another key. -/
theorem external_table_roundtrip (t : Table) : loadTable (dumpTable [] t) = t := by
  rw [external_table_roundtrip_partial]; simp

/-- **Under a local name the loaded module holds the entity the exporting project put under that name** -
    whatever the entity's own name is, and whatever other entities of that name the module owns: the
    clause "resolve to the exporting module's entity under the local name" at the project boundary. -/
theorem external_entry_follows_local_name (t : Table) (l : Str) :
    aget (loadTable (dumpTable [] t)) l = aget t l := by
  rw [external_table_roundtrip]

/-- **Nothing inaccessible arrives through an external module**: whatever a USE statement `u` of the
    consuming project obtains from the loaded module `m` of project `gA` (correlated in ANY order) is an
    entity `m` exports by the standard's rules - across any chain of re-exporting modules inside `gA` -
    under a local name the standard admits.  Same excluded classes as `tables_sound_partial`. -/
theorem names_through_external_module_sound_partial (gA : List Scope) (k : Nat) (oA : List Str)
    (hu : UniqueNames gA) (hb : NoBareRename gA) (hp : NoEffectivePrivate gA) (hs : NoShadow gA k)
    (hq : NoProtectedOverPrivate gA) (m : Scope) (hm : m ∈ gA) (u : UseA)
    (hbu : u.only = false → u.items = []) (p : Str × Ent)
    (h : p ∈ getUsed u (loadTable (dumpTable [] (getTabs (run k gA oA) m.name).pub))) :
    ∃ r, Admits u r p.1 ∧ Exports gA k m r p.2 := by
  rw [external_table_roundtrip] at h
  obtain ⟨r, hr, hc⟩ := mem_getUsed u _ p h
  exact ⟨r, admits_of_code u r p.1 hbu hc, (sound_run gA k hu hb hp hs hq oA m hm).1 (r, p.2) hr⟩

/-- **Everything accessible arrives through an external module**: an identifier `r` that module `m` of `gA`
    exports by the standard's rules (directly or through any chain / diamond of re-export, `gA` correlated in
    any topological order) and that the USE statement admits under `l` is a key of what the consumer
    imports.  Same excluded classes as `tables_complete_partial`. -/
theorem names_through_external_module_complete_partial (gA : List Scope) (k : Nat) (oA : List Str)
    (hu : UniqueNames gA) (hb : NoBareRename gA) (hr : NoRepeatedRemote gA) (hl : LegalAccess gA)
    (ht : isTopo gA [] oA = true) (m : Scope) (hm : m ∈ gA) (hin : m.name ∈ oA) (u : UseA)
    (hbu : u.only = false → u.items = []) (hnu : u.only = true → (u.items.map UItem.remote).Nodup)
    (r l : Str) (e : Ent) (he : Exports gA k m r e) (ha : Admits u r l) :
    hasKey (getUsed u (loadTable (dumpTable [] (getTabs (run k gA oA) m.name).pub))) l := by
  rw [external_table_roundtrip]
  obtain ⟨e', hm', _⟩ := hasKey_mem _ _ ((complete_run gA k hu hb hr hl oA ht m hm hin).1 r e he)
  exact hasKey_getUsed u _ r l e' hm' (code_of_admits u r l hbu hnu ha)

/-- **A loaded module is never touched by the consuming project's correlation**: after the whole ranklist
    loop of B (any order, contained procedures included) the entry of a loaded module `z` still holds the
    export table it was loaded with, so every scope of B imports from exactly that table. -/
theorem external_modules_are_frozen (k : Nat) (g : List Scope) (stubs : List ExtMod) (xs : List Loaded)
    (ns : List Nested) (order : List Str) (z : Str) (x : Loaded)
    (hx : xs.find? (fun y => y.name == z) = some x) (ho : z ∉ order)
    (hn : ∀ y ∈ ns, y.scope.name ≠ z) :
    getTabs (runX k g stubs xs ns order) z = { pub := x.pub, all := [] } := by
  unfold runX runFrom
  rw [getTabs_stepNFold_other _ _ k order _ z (Or.inl ho) (fun y hy _ => by
    unfold bindNsX at hy
    obtain ⟨y0, hy0, rfl⟩ := List.mem_map.1 hy
    exact hn y0 hy0)]
  generalize init k (bindGX g stubs xs) = st
  induction xs with
  | nil => simp at hx
  | cons a xs ih =>
    simp only [seed, List.foldr_cons]
    rw [getTabs_aset]
    by_cases ha : a.name = z
    · simp [ha] at hx
      subst hx; simp [ha]
    · have : (a.name == z) = false := by simpa using ha
      simp only [List.find?_cons, this] at hx
      simp only [ha, if_false]
      exact ih hx

/-- Kernel-evaluated instance (the shape of a compatibility wrapper): module `o` owns the procedure `s`;
    module `w` owns a procedure `s` of its own and passes `o`'s on as `x` (`use o, only: x => s`).  A program of
    another project that loads both through modules.json and says `use w` gets `x ↦ o's s` and `s ↦ w's s`;
    `use w, only: y => x` gets `y ↦ o's s`; the loaded table of `w` is the table `w` had. -/
theorem renamed_reexport_through_external_project_witness :
    let o : Scope := { name := ['o'], isMod := true, defPub := true, pubNames := [], privNames := [],
                       decls := [{ name := ['s'], kind := 0, accs := [] }], uses := [] }
    let w : Scope := { name := ['w'], isMod := true, defPub := true, pubNames := [], privNames := [],
                       decls := [{ name := ['s'], kind := 0, accs := [] }],
                       uses := [{ mod := ['o'], only := true, items := [.ren ['x'] ['s']] }] }
    let p : Scope := { name := ['p'], isMod := false, defPub := true, pubNames := [], privNames := [], decls := [],
                       uses := [{ mod := ['w'], only := false, items := [] }] }
    let q : Scope := { name := ['q'], isMod := false, defPub := true, pubNames := [], privNames := [], decls := [],
                       uses := [{ mod := ['W'], only := true, items := [.ren ['y'] ['x']] }] }
    let st := twoStep 0 [o, w] [['o'], ['w']] [p, q] [{ name := ['m', 'p', 'i'] }] [['p'], ['q']]
    (getTabs st ['p']).all = [(['s'], (['w'], ['s'])), (['x'], (['o'], ['s']))] ∧
    (getTabs st ['q']).all = [(['y'], (['o'], ['s']))] ∧
    (getTabs st ['w']).pub = (getTabs (run 0 [o, w] [['o'], ['w']]) ['w']).pub := by
  decide

/-- The parts of `external_project` the model mirrors are, in the working tree, the ones it was written for
    (observed by translate/c06.py on stand-in objects through the real `obj2dict` / `dict2obj`): the four
    export tables are the dict-valued attributes of a module that are written and read back; an entry is
    stored under its key and built from its own item (also when the module owns an entity with the item's
    name); an entity that is external in the exporting project is written as `null` and skipped. -/
theorem external_tables_are_source_tables :
    Generated.C06.externalExportTables =
      [['p', 'u', 'b', '_', 'a', 'b', 's', 'i', 'n', 't', 's'], ['p', 'u', 'b', '_', 'p', 'r', 'o', 'c', 's'],
       ['p', 'u', 'b', '_', 't', 'y', 'p', 'e', 's'], ['p', 'u', 'b', '_', 'v', 'a', 'r', 's']] ∧
    Generated.C06.externalEntryFromItsItem = true ∧
    Generated.C06.externalOfExternalDropped = true := by
  decide

end Ford.C06
