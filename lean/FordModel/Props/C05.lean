/-
  C05 - the site documents exactly the entities selected by the display options.
  Property theorems only; the model is FordModel/Display.lean (prune driven by the tables
  regenerated from the source), the specification FordModel/DisplaySpec.lean, helper lemmas
  FordModel/Lemmas/Display.lean.
-/
import FordModel.Display
import FordModel.DisplaySpec
import FordModel.Lemmas.Display
import FordModel.DisplayLinks
import FordModel.Lemmas.DisplayLinks
namespace Ford.C05
open Ford Ford.Display Ford.Display.Spec Ford.Generated

/-- Tie to the source (regenerated on every run): the three `prune()` methods have exactly the
    shape the model interprets - one early-return guard (`proc` with `proc_internals` off) in
    `FortranCodeUnit.prune`, none in the others, no statement outside the recognised shapes, the
    submodule-only filters under `isinstance(self, FortranSubmodule)`, every `ranklist` member
    pruned - and the hand-modelled functions `_set_display`, `_should_display`, `filter_display`,
    `FortranBase.__str__` are the ones the model was written against. -/
theorem source_shape_pinned :
    C05.codeUnitGuard = "self.obj == 'proc' and (not self.meta.proc_internals)"
    ∧ C05.dtypeGuard = "" ∧ C05.blockDataGuard = ""
    ∧ C05.codeUnitOther = [] ∧ C05.dtypeOther = [] ∧ C05.blockDataOther = []
    ∧ C05.codeUnitCondFiltered.map (·.1) = ["isinstance(self, FortranSubmodule)", "isinstance(self, FortranSubmodule)", "isinstance(self, FortranSubmodule)"]
    ∧ C05.hasPrune = ["FortranBlockData", "FortranCodeUnit", "FortranType"]
    ∧ C05.pruneLoop = "if not isinstance(container, str):\n    container.prune()"
    ∧ C05.setDisplayPin = "366dfa0e55ad3a51" ∧ C05.shouldDisplayPin = "657947f9634c6cb8"
    ∧ C05.filterDisplayPin = "255395ecf21e15e7" ∧ C05.strPin = "8828a39a0deba104" := by decide

/-- Every child list that holds entities with an accessibility is passed through
    `filter_display` by the `prune()` of every class that can contain it (and the lists of
    dummy arguments / final procedures are not): for all well-formed (parent kind, child kind)
    pairs except enumerations.  Removing one list from a `prune` in the source changes the
    regenerated table and this obligation fails. -/
theorem prune_lists_cover (pk ck : Kind) (h : kidOk pk ck = true) (he : ck ≠ .enum) (hc : classOf pk ≠ .none) :
    filteredIn (classOf pk) (listOf ck) = !alwaysShown ck :=
  tbl_filtered pk ck h he hc

/-- With `proc_internals` off, exactly the lists of filterable kinds are emptied (dummy arguments
    stay), for every kind a procedure can contain. -/
theorem internals_lists_cover (pk ck : Kind) (h : kidOk pk ck = true) (he : ck ≠ .enum) (hp : isProc pk = true) :
    emptiedIn (classOf pk) (listOf ck) = !alwaysShown ck :=
  tbl_emptied pk ck h he hp

/-- `prune` recurses into exactly the child kinds that have a `prune` of their own (procedures
    and derived types), so options set deeper in the tree are honoured at every depth. -/
theorem prune_recursion_cover (pk ck : Kind) (h : kidOk pk ck = true) (he : ck ≠ .enum) (hc : classOf pk ≠ .none) :
    recurseIn (classOf pk) (listOf ck) = (classOf ck != .none) :=
  tbl_recurse pk ck h he hc

/-- The genuine gap in the tables: no `prune` filters or empties the `enums` list. -/
theorem enums_list_unfiltered_witness :
    filteredIn .codeUnit (listOf .enum) = false ∧ filteredIn .submodule (listOf .enum) = false
    ∧ emptiedIn .codeUnit (listOf .enum) = false := by decide

/-- `_set_display` (inherit the parent's list at construction, override from own metadata,
    `none`, unknown words, `none` ignored for files) computes the display set the user guide
    describes, for every parent list and every metadata list: the list an entity ends up with
    denotes `inForce` of what was in force around it. -/
theorem setDisplay_denotes_inForce (isFile : Bool) (d md : List Word) (D : Word → Bool)
    (h : ∀ p, isPerm p = true → d.contains p = D p) (p : Word) (hp : isPerm p = true) :
    (setDisplay isFile d md).contains p = inForce isFile D md p :=
  agree_setDisplay isFile d D md h p hp

/-- **Selection, full strength** (holds for the code once the contents of a file inherit the
    file's `display`): for every project-wide display list (not mixing `none` with permission
    words), both values of `proc_internals` and `hide_undoc`, and every well-formed project
    without enumerations - any nesting depth, any metadata at file / module / type / procedure
    level - what the pages render after `prune` is exactly the selected set, in the same order.
    This is no-leak and completeness in one equation. -/
theorem site_eq_selected (cfg : Cfg) (p : List Ent) (hv : cfg.fileInherits = true)
    (hc : cfgOk cfg = true) (hw : wfProject p = true) :
    renderedOf (pruneProject cfg p) = selProject cfg p :=
  rendered_pruneProject cfg hc p hw (Or.inl hv)

/-- **Selection, the code as it is**: the same equation when no source file carries `display`
    metadata that says something (the excluded class is exactly known finding
    `C05-file-display-not-inherited`). -/
theorem site_eq_selected_partial (cfg : Cfg) (p : List Ent) (hv : cfg.fileInherits = false)
    (hc : cfgOk cfg = true) (hw : wfProject p = true) (hf : noFileDisplay p = true) :
    renderedOf (pruneProject cfg p) = selProject cfg p :=
  rendered_pruneProject cfg hc p hw (Or.inr hf)

/-- No leak: nothing that is rendered anywhere is unselected. -/
theorem no_leak_partial (cfg : Cfg) (p : List Ent) (hc : cfgOk cfg = true) (hw : wfProject p = true)
    (hf : cfg.fileInherits = true ∨ noFileDisplay p = true) (x : Nat)
    (hx : x ∈ renderedOf (pruneProject cfg p)) : x ∈ selProject cfg p := by
  rw [← rendered_pruneProject cfg hc p hw hf]; exact hx

/-- Complete: every selected entity is rendered. -/
theorem complete_partial (cfg : Cfg) (p : List Ent) (hc : cfgOk cfg = true) (hw : wfProject p = true)
    (hf : cfg.fileInherits = true ∨ noFileDisplay p = true) (x : Nat)
    (hx : x ∈ selProject cfg p) : x ∈ renderedOf (pruneProject cfg p) := by
  rw [rendered_pruneProject cfg hc p hw hf]; exact hx

/-- Own pages: the entities that get a page (project page lists filled through `CONTAINERS`
    from the pruned code units, plus files and program units) are exactly the files, the
    program units and the *selected* procedures / interfaces / types of modules and programs -
    a selected entity of a page kind has its page, an unselected one has none. -/
theorem pages_exact_partial (cfg : Cfg) (p : List Ent) (hc : cfgOk cfg = true) (hw : wfProject p = true)
    (hf : cfg.fileInherits = true ∨ noFileDisplay p = true) :
    pageIds (pruneProject cfg p) = selPages cfg p :=
  pageIds_pruneProject cfg hc p hw hf

/-- Links: every entity that has a page carries `visible = True` after `prune` (so
    `FortranBase.__str__` emits links to it), for every project and configuration.  Together
    with `pages_exact_partial`: the targets of emitted page links are selected entities. -/
theorem pages_are_linkable (cfg : Cfg) (p : List Ent) (hw : wfProject p = true) (x : Nat)
    (hx : x ∈ pageIds (pruneProject cfg p)) : x ∈ visibleIdsOf (pruneProject cfg p) :=
  pageIds_visible cfg x p hw hx

/-! ### `[[name]]` links in doc comments -/

/-- Tie to the source (regenerated on every run): a `[[name]]` is resolved by exactly the code the
    model was written against - `FordLinkProcessor.convert_link`, `FortranBase.find_child` over
    `FortranBase.children`, `_find_in_list`, `Project.find`, `get_url` / `get_dir` - and **no class
    overrides** `find_child`, `children`, `iterator`, `get_url`, `find` or `convert_link` (an override
    would be a lookup the model does not have); `get_dir` is defined in the four known classes.
    `convert_link` is one of the two versions the model has a switch for: the code as it is, or
    the candidate repair with its helper `_has_written_page` (`LinkEnv.checksPage`). -/
theorem link_lookup_pinned :
    C05.findChildDefinedIn = ["sourceform:FortranBase"]
    ∧ C05.childrenDefinedIn = ["sourceform:FortranBase"]
    ∧ C05.iteratorDefinedIn = ["sourceform:FortranBase"]
    ∧ C05.getUrlDefinedIn = ["sourceform:FortranBase"]
    ∧ C05.getDirDefinedIn = ["sourceform:FortranBase", "sourceform:FortranInterface", "sourceform:FortranProcedure", "sourceform:FortranSubmodule"]
    ∧ C05.findDefinedIn = ["fortran_project:Project"]
    ∧ C05.convertLinkDefinedIn = ["_markdown:FordLinkProcessor"]
    ∧ C05.nonListChildren = ["constructor", "procedure", "retvar"]
    ∧ C05.findChildPin = "1b45a2978fe933ee" ∧ C05.findInListPin = "c8d0d02a7c62fd9a"
    ∧ C05.projectFindPin = "8712be48379dbb74"
    ∧ C05.getUrlPin = "78b107b183a1e8a4" ∧ C05.getDirPin = "3fad1df189b346bf"
    ∧ ((C05.convertLinkPin = "8626d3df74768258" ∧ C05.hasWrittenPagePin = "")
       ∨ (C05.convertLinkPin = "36e31de78f46ca73" ∧ C05.hasWrittenPagePin = "18774cbfbb1007ee")) := by decide

/-- Every list attribute `find_child` searches is one of the child lists of the entity tree
    (those are what `prune()` filters: `prune_lists_cover`) - the only exceptions are `bindings`
    (the model's `viaRef`), and `common` / `namelists`, which are not generated.  Adding a list
    to `FortranBase.children` that no `prune()` knows changes this obligation. -/
theorem link_lookup_lists_are_tree_lists :
    ∀ l ∈ C05.childrenLists, l = "bindings" ∨ l = "namelists" ∨
      (listOf .file :: listOf .module :: listOf .submodule :: listOf .program :: listOf .blockdata
        :: listOf .subroutine :: listOf .function :: listOf .modproc :: listOf .type :: listOf .variable
        :: listOf .boundproc :: listOf .finalproc :: listOf .generic :: listOf .absint :: listOf .enum
        :: listOf .common :: listOf .arg :: []).contains l = true := by decide

/-- Every project list `Project.find` searches (`LINK_TYPES`) is a list of entities that get a
    page (`Documentation`'s page map, filled from pruned lists: `pages_exact_partial`), the list of
    all files, or a list of external entities. -/
theorem link_lookup_project_lists_are_page_lists :
    ∀ l ∈ C05.linkTypes.map (·.2),
      (C05.pageMap.map (·.1)).contains l = true ∨ l = "allfiles"
      ∨ (["extModules", "extTypes", "extProcedures", "extInterfaces"].contains l = true) := by decide

/-- **Links point at pages that exist** (any project, pruned or not; any names; any links): the
    page a resolved `[[name]]` points at is the page of an entity in the project's page lists -
    unless the name was found through a procedure object that a type-bound / final procedure
    keeps (`viaRef`; excluded class = known finding `C05-link-to-unselected-bound-procedure`).
    Covers the comments of all surviving entities, all three lookups of `convert_link`. -/
theorem doc_links_point_at_written_pages_partial (E : LinkEnv) (q : List Ent) (l : Link)
    (hl : l ∈ linksOf E q) (h : Hit) (hh : l.hit = some h) (hv : h.viaRef = false) :
    h.page ∈ pageIds q :=
  linksOf_pages E q l hl h hh hv

/-- **Links never point at pages of unselected entities** (the code as it is): after `prune`, for
    every configuration and every well-formed project, a `[[name]]` in the comment of a surviving
    entity that resolves directly points at the page of a *selected* entity. -/
theorem doc_links_point_at_selected_pages_partial (cfg : Cfg) (p : List Ent) (hc : cfgOk cfg = true)
    (hw : wfProject p = true) (hf : cfg.fileInherits = true ∨ noFileDisplay p = true)
    (E : LinkEnv) (l : Link) (hl : l ∈ linksOf E (pruneProject cfg p))
    (h : Hit) (hh : l.hit = some h) (hv : h.viaRef = false) :
    h.page ∈ selPages cfg p := by
  rw [← pageIds_pruneProject cfg hc p hw hf]
  exact linksOf_pages E _ l hl h hh hv

/-- The same at full strength once the link extension tests that the page is written (candidate
    repair `fixes/C05-doc-link-hidden-page.diff`, model switch `checksPage`): every resolved link,
    references included. -/
theorem doc_links_point_at_selected_pages (cfg : Cfg) (p : List Ent) (hc : cfgOk cfg = true)
    (hw : wfProject p = true) (hf : cfg.fileInherits = true ∨ noFileDisplay p = true)
    (E : LinkEnv) (hk : E.checksPage = true) (l : Link) (hl : l ∈ linksOf E (pruneProject cfg p))
    (h : Hit) (hh : l.hit = some h) : h.page ∈ selPages cfg p := by
  rw [← pageIds_pruneProject cfg hc p hw hf]
  exact linksOf_pages_checked E _ hk l hl h hh

/-! ### witnesses of the genuine violations -/

/-- Known finding `C05-link-to-unselected-bound-procedure`: the comment of the public binding 4
    names the private procedure 5 it binds; the link is resolved through `bindings` and points at
    the page of 5, which is not among the pages; with the page test the link is not made. -/
theorem link_via_binding_witness :
    linksOf (LinkWitness.eBinding false) (pruneProject LinkWitness.cfg LinkWitness.pBinding)
      = [⟨4, 5, some ⟨5, 5, true⟩⟩]
    ∧ pageIds (pruneProject LinkWitness.cfg LinkWitness.pBinding) = [1, 2, 3]
    ∧ selPages LinkWitness.cfg LinkWitness.pBinding = [1, 2, 3]
    ∧ linksOf (LinkWitness.eBinding true) (pruneProject LinkWitness.cfg LinkWitness.pBinding)
      = [⟨4, 5, none⟩] := by decide

/-- Known finding `C05-link-inside-unselected-referenced-procedure`: the private procedure 4 is
    displayed under the public generic 3; when its comment is converted the context is the
    unpruned object, `[[a5]]` is found among its own children and points at the page of 4,
    which is not among the pages; with the page test the link is not made. -/
theorem link_in_referenced_procedure_witness :
    LinkWitness.referencedHit false = some ⟨5, 4, false⟩
    ∧ pageIds (pruneProject LinkWitness.cfg LinkWitness.pReferenced) = [1, 2, 3]
    ∧ selPages LinkWitness.cfg LinkWitness.pReferenced = [1, 2, 3]
    ∧ LinkWitness.referencedHit true = none := by decide

/-! ### non-vacuity -/

/-- links that satisfy the hypotheses of the link theorems: to a type (own page), to its component
    (the type's page), to a private function (not linked), to the module; from a component to
    itself and to its type -/
example :
    linksOf LinkWitness.ePlain (pruneProject LinkWitness.cfg LinkWitness.pPlain)
      = [⟨4, 4, some ⟨4, 3, false⟩⟩, ⟨4, 3, some ⟨3, 3, false⟩⟩,
         ⟨5, 3, some ⟨3, 3, false⟩⟩, ⟨5, 4, none⟩, ⟨5, 6, none⟩, ⟨5, 2, some ⟨2, 2, false⟩⟩]
    ∧ wfProject LinkWitness.pPlain = true ∧ cfgOk LinkWitness.cfg = true := by decide

end Ford.C05
