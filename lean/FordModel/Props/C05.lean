/-
  C05 - the site documents exactly the entities selected by the display options.
  Property theorems only; the model is FordModel/Display.lean (prune driven by the tables
  regenerated from the source), the specification FordModel/DisplaySpec.lean, helper lemmas
  FordModel/Lemmas/Display.lean.
-/
import FordModel.Display
import FordModel.DisplaySpec
import FordModel.Lemmas.Display
import FordModel.DisplayLinks
import FordModel.Lemmas.DisplayLinks
namespace Ford.C05
open Ford Ford.Display Ford.Display.Spec Ford.Generated

/-- Tie to the source (re-probed on every run): the real `prune()` of every concrete class - run on an object of
    the probe project whose child lists hold a member to keep, a private and an undocumented one, with
    `proc_internals` off and on - does to *every* child list exactly what the model's `pruneKids` does with the
    tables: the early return of a procedure (`subroutine`, `function`, `module procedure` implementation - and of
    nothing else) with `proc_internals` off, the lists emptied there, the lists filtered, the three lists filtered
    for submodules only, what is only marked `visible` and what is marked and pruned in turn.  The tables themselves
    are read off these rows, so this also says that all classes sharing a `prune()` behave alike. -/
theorem prune_probe_matches_model : C05.pruneProbe.all pruneRowOk = true := by decide +kernel

/-- The probe covered every class that has a `prune()` (both settings of `proc_internals`), the three known
    definitions are the only ones, and nothing the probes saw was left unexplained. -/
theorem source_shape_pinned :
    C05.pruneProbe.map (fun r => (r.1, r.2.1)) =
      [("FortranBlockData", false), ("FortranBlockData", true), ("FortranFunction", false), ("FortranFunction", true),
       ("FortranModule", false), ("FortranModule", true),
       ("FortranModuleProcedureImplementation", false), ("FortranModuleProcedureImplementation", true),
       ("FortranProgram", false), ("FortranProgram", true), ("FortranSubmodule", false), ("FortranSubmodule", true),
       ("FortranSubroutine", false), ("FortranSubroutine", true), ("FortranType", false), ("FortranType", true)]
    ∧ C05.pruneClasses.map (·.1) =
      ["FortranBlockData", "FortranCodeUnit", "FortranFunction", "FortranModule", "FortranModuleProcedureImplementation",
       "FortranProcedure", "FortranProgram", "FortranSubmodule", "FortranSubroutine", "FortranType"]
    ∧ C05.probeAnomalies = []
    ∧ C05.codeUnitCondFiltered.map (·.1) = ["FortranSubmodule", "FortranSubmodule", "FortranSubmodule"]
    ∧ C05.hasPrune = ["FortranBlockData", "FortranCodeUnit", "FortranType"]
    ∧ C05.setDisplayDefinedIn = ["FortranBase"] ∧ C05.shouldDisplayDefinedIn = ["FortranBase"]
    ∧ C05.filterDisplayDefinedIn = ["FortranBase"] ∧ C05.strDefinedIn = ["FortranBase"]
    ∧ C05.pruneLoopProbe = [("modules", "1"), ("submodules", "1"), ("functions", "1"), ("subroutines", "1"),
        ("programs", "1"), ("blockdata", "1")]
    ∧ C05.pruneAfterCorrelate = true := by decide

/-- Tie to the source (re-probed on every run): the real `_set_display`, run on an entity and on a source file of
    the probe project for every metadata list of up to two words (three for `protected` / `none` / unknown) in
    either letter case and three inherited lists, leaves exactly the list `setDisplay` computes - and it is the
    inherited list *object* exactly when the model says the entity inherits (`setDisplayInherits`).
    Round 6: the table is the *set* of outcomes over one real object of every class of the probe project
    (`setDisplaySubjects`: procedures, types, bindings, units, the file, ...) with `meta.proc_internals` off and on; that
    it still has the 348 rows of one class says that `display` depends on neither - `display` and `proc_internals` are
    independent options of the property statement (a procedure whose `proc_internals` is off does *not* get an empty
    display list that its own `display:` metadata could then replace). -/
theorem set_display_probe_matches_model :
    C05.setDisplayProbe.all setDisplayRowOk = true ∧ C05.setDisplayProbe.length = 348
    ∧ (["FortranSubroutine", "FortranFunction", "FortranModuleProcedureImplementation", "FortranVariable",
        "FortranType", "FortranBoundProcedure", "FortranInterface", "FortranModule", "FortranSubmodule",
        "FortranProgram", "FortranBlockData", "FortranSourceFile"].all fun c =>
          C05.setDisplaySubjects.contains (c, false) && C05.setDisplaySubjects.contains (c, true)) = true := by
  decide +kernel

/-- Tie to the source (re-probed on every run): all classes share one `_should_display` / `filter_display`, and its
    truth table over `hide_undoc` x documented x permission x every subset of {public, protected, private} is
    `shouldDisplay`. -/
theorem should_display_probe_matches_model :
    C05.shouldDisplayProbe.length = 1
    ∧ C05.shouldDisplayProbe.all (fun g => g.2.length == 128 && g.2.all shouldDisplayRowOk) = true := by decide +kernel

/-- Tie to the source (re-probed on every run): `str(entity)` is a link exactly when the entity has a URL and its
    `visible` flag is not false - the only gate between an unselected entity and a link to its page. -/
theorem str_probe_links_only_visible :
    C05.strProbe.all strRowOk = true ∧ C05.strProbe.length = 12 := by decide

/-- Tie to the source for the entity kinds of round 3 (re-probed on every run): where namelists get
    their pages (`Project(...)` on the probe project: directly from top-level procedures and programs, through
    `routines` from modules, submodules and programs; never from block data), what `routines` iterates,
    which page templates render an entity's namelists, which classes are `visible` from their construction
    on, which members an extending type carries after `correlate` (= the model's `inheritable`; its own members
    last), that common-block members leave the parent's `variables` and namelist variables are the objects of the
    scope, and what `correlate` alone makes `visible` (block data: its types; or nothing - candidate repair
    `fixes/C05-blockdata-types-visible.diff`). -/
theorem source_shape_pinned_round3 :
    C05.namelistCollect = [("modules", false, true), ("submodules", false, true), ("functions", true, false),
      ("subroutines", true, false), ("programs", true, true), ("blockdata", false, false)]
    ∧ C05.routinesLists = ["functions", "subroutines", "modprocedures"]
    ∧ C05.namelistSections = ["proc_page.html", "prog_page.html"]
    ∧ C05.visibleAtInit = ["FortranBlockData", "FortranCommon", "FortranModule", "FortranNamelist", "FortranProgram",
        "FortranSourceFile", "FortranSubmodule"]
    ∧ C05.inheritProbe.all inheritRowOk = true ∧ C05.inheritProbe.length = 4 ∧ C05.inheritOwnLast = true
    ∧ C05.commonMovesMembers = true ∧ C05.namelistResolves = true
    ∧ (C05.visibleInCorrelate = [("FortranBlockData", "FortranType")] ∨ C05.visibleInCorrelate = []) := by decide

/-- Every child list that holds entities with an accessibility is passed through
    `filter_display` by the `prune()` of every class that can contain it (and the lists of what
    belongs to the parent's own description - dummy arguments, function results, final procedures,
    the interface bodies of a generic interface - are not): for all well-formed (parent kind, child
    kind) pairs - block data units, their types and variables included - except enumerations,
    namelists and common blocks (known findings).  Removing one list from a `prune` in the source
    changes the regenerated table and this obligation fails. -/
theorem prune_lists_cover (pk ck : Kind) (h : kidOk pk ck = true) (he : gapKind ck = false) (hc : classOf pk ≠ .none) :
    filteredIn (classOf pk) (listOf ck) = !ownDescr pk ck :=
  tbl_filtered pk ck h he hc

/-- With `proc_internals` off, exactly the lists of filterable kinds are emptied (dummy arguments
    and the result stay), for every kind a procedure can contain. -/
theorem internals_lists_cover (pk ck : Kind) (h : kidOk pk ck = true) (he : gapKind ck = false) (hp : isProc pk = true) :
    emptiedIn (classOf pk) (listOf ck) = !ownDescr pk ck :=
  tbl_emptied pk ck h he hp

/-- `prune` recurses into exactly the child kinds that have a `prune` of their own (procedures
    and derived types - also the types of a block data unit), so options set deeper in the tree
    are honoured at every depth. -/
theorem prune_recursion_cover (pk ck : Kind) (h : kidOk pk ck = true) (he : gapKind ck = false) (hc : classOf pk ≠ .none) :
    recurseIn (classOf pk) (listOf ck) = (classOf ck != .none) :=
  tbl_recurse pk ck h he hc

/-- `FortranBlockData.prune`: of what a block data unit can contain, variables and derived types are
    filtered, derived types are made linkable and pruned in turn, variables are not marked. -/
theorem blockdata_prune_cover (ck : Kind) (h : kidOk .blockdata ck = true) (he : gapKind ck = false) :
    filteredIn .blockData (listOf ck) = true ∧ recurseIn .blockData (listOf ck) = (ck == .type)
    ∧ visibleOnlyIn .blockData (listOf ck) = false := by
  cases ck <;> revert h he <;> decide

/-- The genuine gap in the tables: no `prune` filters or empties the `enums` list. -/
theorem enums_list_unfiltered_witness :
    filteredIn .codeUnit (listOf .enum) = false ∧ filteredIn .submodule (listOf .enum) = false
    ∧ emptiedIn .codeUnit (listOf .enum) = false := by decide

/-- The same gap for namelists and common blocks: whatever can contain one (module, submodule,
    program, procedure, block data), its `prune()` neither filters nor empties the list, nor marks
    or descends into its members. -/
theorem namelists_commons_unfiltered_witness (pk ck : Kind) (h : kidOk pk ck = true) (hg : gapKind ck = true) :
    filteredIn (classOf pk) (listOf ck) = false ∧ emptiedIn (classOf pk) (listOf ck) = false
    ∧ recurseIn (classOf pk) (listOf ck) = false ∧ visibleOnlyIn (classOf pk) (listOf ck) = false :=
  tbl_gap_untouched pk ck h hg

/-- `_set_display` (inherit the parent's list at construction, override from own metadata,
    `none`, unknown words, `none` ignored for files) computes the display set the user guide
    describes, for every parent list and every metadata list: the list an entity ends up with
    denotes `inForce` of what was in force around it. -/
theorem setDisplay_denotes_inForce (isFile : Bool) (d md : List Word) (D : Word → Bool)
    (h : ∀ p, isPerm p = true → d.contains p = D p) (p : Word) (hp : isPerm p = true) :
    (setDisplay isFile d md).contains p = inForce isFile D md p :=
  agree_setDisplay isFile d D md h p hp

/-- **Selection, full strength except for the never-filtered positions** (holds for the code now that
    the contents of a file inherit the file's `display`): for every project-wide display list (not
    mixing `none` with permission words), both values of `proc_internals` and `hide_undoc`, and every
    well-formed project - any nesting depth; any metadata at file / module / type / procedure / block
    data level; block data units, common blocks, namelists, enumerations, interface bodies in generic
    interfaces, function results, extended types included - that meets none of the positions no
    `prune()` reaches with an unselected entity (`outsideFindings`: the excluded class is exactly the
    union of the known findings `C05-enum-never-filtered`, `C05-namelist-never-filtered`,
    `C05-module-namelist-not-described`, `C05-common-never-filtered`), what the pages render after
    `prune` is exactly the selected set, in the same order.  No-leak and completeness in one equation. -/
theorem site_eq_selected_partial_gaps (cfg : Cfg) (p : List Ent) (hv : cfg.fileInherits = true)
    (hc : cfgOk cfg = true) (hw : wfProject p = true) (ho : outsideFindings cfg p = true) :
    renderedOf (pruneProject cfg p) = selProject cfg p :=
  rendered_pruneProject cfg hc p hw ho (Or.inl hv)

/-- The hypothesis `outsideFindings` costs nothing for a project without enumerations, namelists and
    common blocks (the universe of rounds 1 and 2, plus block data, interface bodies, function results
    and extended types): it holds for every configuration. -/
theorem outside_findings_trivial (cfg : Cfg) (p : List Ent) (hw : wfProject p = true)
    (hn : noGapKinds p = true) : outsideFindings cfg p = true :=
  outsideFindings_of_noGapKinds cfg p hw hn

/-- **Selection, full strength** on the projects without enumerations, namelists and common blocks:
    no hypothesis beyond well-formedness. -/
theorem site_eq_selected (cfg : Cfg) (p : List Ent) (hv : cfg.fileInherits = true)
    (hc : cfgOk cfg = true) (hw : wfProject p = true) (hn : noGapKinds p = true) :
    renderedOf (pruneProject cfg p) = selProject cfg p :=
  rendered_pruneProject cfg hc p hw (outsideFindings_of_noGapKinds cfg p hw hn) (Or.inl hv)

/-- **Selection, the code as it was** (before a001e63): the same equation when no source file
    carries `display` metadata that says something (the excluded class is exactly known finding
    `C05-file-display-not-inherited`). -/
theorem site_eq_selected_partial (cfg : Cfg) (p : List Ent) (hv : cfg.fileInherits = false)
    (hc : cfgOk cfg = true) (hw : wfProject p = true) (ho : outsideFindings cfg p = true)
    (hf : noFileDisplay p = true) :
    renderedOf (pruneProject cfg p) = selProject cfg p :=
  rendered_pruneProject cfg hc p hw ho (Or.inr hf)

/-- No leak: nothing that is rendered anywhere is unselected. -/
theorem no_leak_partial (cfg : Cfg) (p : List Ent) (hc : cfgOk cfg = true) (hw : wfProject p = true)
    (ho : outsideFindings cfg p = true)
    (hf : cfg.fileInherits = true ∨ noFileDisplay p = true) (x : Nat)
    (hx : x ∈ renderedOf (pruneProject cfg p)) : x ∈ selProject cfg p := by
  rw [← rendered_pruneProject cfg hc p hw ho hf]; exact hx

/-- Complete: every selected entity is rendered. -/
theorem complete_partial (cfg : Cfg) (p : List Ent) (hc : cfgOk cfg = true) (hw : wfProject p = true)
    (ho : outsideFindings cfg p = true)
    (hf : cfg.fileInherits = true ∨ noFileDisplay p = true) (x : Nat)
    (hx : x ∈ selProject cfg p) : x ∈ renderedOf (pruneProject cfg p) := by
  rw [rendered_pruneProject cfg hc p hw ho hf]; exact hx

/-- **Type extension**: the tree `correlate` hands to `prune` - every extending type carries, in front
    of its own members, the public components and the non-private bindings of the type it extends (with
    what that type inherited itself; `inherit_type_members`) - is again a well-formed project, for every
    project and every length of extension chain; so all theorems of this file apply to it. -/
theorem inherited_members_well_formed (p : List Ent) (hw : wfProject p = true) (fuel : Nat) :
    wfProject (inheritProject p fuel) = true ∧ noFileDisplay (inheritProject p fuel) = noFileDisplay p :=
  ⟨wfProject_inheritProject p hw fuel, noFileDisplay_inheritList p fuel p⟩

/-- the members of an extending type after `correlate` -/
theorem inherit_type_members (p : List Ent) (fuel : Nat) (i : Info) (cs : Ents) (m : Nat)
    (hk : i.kind = .type) (he : i.ext = some m) :
    (Ent.inherit p fuel (.mk i cs)).kids = ((membersOf p fuel m).inheritable).append (cs.inherit p fuel) :=
  inherit_type_kids p fuel i cs m hk he

/-- **Inherited members are shown iff the extending type's options select them**: `FortranType.prune`
    keeps an inherited component / binding - and makes it linkable - exactly when its permission is in
    the display list in force in the *extending* type and, under `hide_undoc`, it is documented. -/
theorem inherited_member_shown_iff (cfg : Cfg) (d : List Word) (c : Ent) (rest : Ents)
    (hk : (c.info.kind == .variable || c.info.kind == .boundproc) = true) :
    pruneKids cfg .dtype false d (.cons c rest) =
      if shouldDisplay cfg d c.info then .cons c.setVisible (pruneKids cfg .dtype false d rest)
      else pruneKids cfg .dtype false d rest :=
  dtype_member_kept_iff cfg d c rest hk

/-- **Names of type-bound procedures in type summaries** (partial: projects without type extension).
    Without `extends`, the inheritance step of `correlate` changes nothing: every binding a type carries is
    declared in that type, so the link `type_summary` puts on its name points at the page the type itself is
    described on - which `pages_exact_partial` / `pages_are_linkable` show written.  The excluded class
    contains known finding `C05-inherited-binding-links-to-unselected-type`
    (`inherited_binding_links_to_unselected_type_witness`). -/
theorem binding_name_links_partial (p : List Ent) (fuel : Nat) (hn : noExtension p = true) :
    inheritProject p fuel = p :=
  inheritList_noExtension p fuel p hn

/-- **`proc_internals` and `display` are independent options** (clause "given `display` (... overridden in an
    entity's metadata ...), `proc_internals` and `hide_undoc`"): what `prune()` leaves of a procedure whose internals
    are switched off does not depend on the display list in force in it - so not on the project's `display`, not on
    what it inherits, and not on the `display:` metadata of the procedure itself (any two lists `d`, `d'`).  A
    `display:` override can never switch unselected internals back on.  Tied to the code by
    `prune_probe_matches_model` (the guard and the lists it empties), `set_display_probe_matches_model`
    (`_set_display` does not look at `proc_internals`) and the prune stream. -/
theorem internals_off_ignores_display (cfg : Cfg) (i : Info) (cs : Ents) (d d' : List Word)
    (h : internalsOff cfg i = true) : prune cfg d (.mk i cs) = prune cfg d' (.mk i cs) := by
  simp only [prune, h]
  rw [pruneKids_off_display cfg (classOf i.kind) d d' cs]

/-- non-vacuity: a procedure with internals (kind, `proc_internals: false`) for which the hypothesis holds
    and the lists really are emptied -/
example : internalsOff { display := [.pub, .priv], procInternals := true, hideUndoc := false, fileInherits := true }
    { (default : Info) with kind := .subroutine, pint := some false, disp := [.pub, .priv] } = true := by decide

/-- Tie to the source (re-probed on every run, round 6): the macros `type_summary` and `bound_info` of
    `macros.html`, rendered by FORD's own Jinja2 environment on the real (correlated) types of the probe project -
    a binding the type declares and one it inherits x `tb.visible` x `visible` of the declaring type x
    `external_url` set / absent, 32 renderings - print the name of a binding exactly as `bindNameLink true` says:
    in the summary card a link iff the binding is `visible` **and** (the type that declares it is `visible` or the
    URL is external), and then to the page of the declaring type (never the carrier's, never anywhere else); on the
    type's own page never a link.  Dropping the test of the declaring type from the macro changes two rows. -/
theorem bound_declaration_probe_matches_model :
    C05.boundDeclProbe.all (boundDeclRowOk true) = true ∧ C05.boundDeclProbe.length = 32
    ∧ (C05.boundDeclProbe.filter fun r => r.2.2.2.2.2 != "name").length = 6 := by decide

/-- **Binding names in type summaries never link to the page of an unselected type** (clause "links never
    point at pages of unselected entities"; full strength: any project, type extension and block data included,
    any tree `q` that is rendered): when the name of a binding - declared or inherited - is a link in the summary
    of a type, the type that declares it (whose page the link points into) has a page among `pageIds q` and is
    `visible`. -/
theorem binding_name_links (orig q : List Ent) (t b d : Nat) (h : (t, b, d) ∈ bindLinksOf true orig q q) :
    d ∈ pageIds q ∧ d ∈ visibleIdsOf q :=
  mem_bindLinksOf orig q t b d q h

/-- ... and after `correlate` + `prune`, for every configuration and every well-formed project (inherited
    members included: `inheritProject`), that page is the page of a **selected** entity (`pages_exact_partial`). -/
theorem binding_name_links_point_at_selected_pages (cfg : Cfg) (p : List Ent) (fuel : Nat)
    (hc : cfgOk cfg = true) (hw : wfProject p = true)
    (hf : cfg.fileInherits = true ∨ noFileDisplay (inheritProject p fuel) = true) (t b d : Nat)
    (h : (t, b, d) ∈ bindLinksOf true p (pruneProject cfg (inheritProject p fuel))
           (pruneProject cfg (inheritProject p fuel))) :
    d ∈ selPages cfg (inheritProject p fuel) := by
  rw [← pageIds_pruneProject cfg hc _ (wfProject_inheritProject p hw fuel) hf]
  exact (mem_bindLinksOf p _ t b d _ h).1

/-- Why the macro needs its test (the behaviour of fixed finding
    `C05-inherited-binding-links-to-unselected-type`, and of any edit that removes the test): without it
    (`guarded := false`) the inherited binding 4 in the summary of the public type 5 links into the page of the
    private type 3, which is not written; with it there is no link - and with `display: public, private` the same
    link is made and legitimate (non-vacuity of `binding_name_links`). -/
theorem binding_name_link_unguarded_witness :
    bindLinksOf false wInheritedBinding (pruneProject wCfgInt (inheritProject wInheritedBinding 8))
      (pruneProject wCfgInt (inheritProject wInheritedBinding 8)) = [(5, 4, 3)]
    ∧ bindLinksOf true wInheritedBinding (pruneProject wCfgInt (inheritProject wInheritedBinding 8))
      (pruneProject wCfgInt (inheritProject wInheritedBinding 8)) = []
    ∧ 3 ∉ pageIds (pruneProject wCfgInt (inheritProject wInheritedBinding 8))
    ∧ bindLinksOf true wInheritedBinding
        (pruneProject { wCfgInt with display := [.pub, .priv] } (inheritProject wInheritedBinding 8))
        (pruneProject { wCfgInt with display := [.pub, .priv] } (inheritProject wInheritedBinding 8))
      = [(3, 4, 3), (5, 4, 3)] := by decide

/-- Tie to the source (re-probed on every run, round 6): `BaseNode.__init__` of `ford/graphs.py` - the constructor every
    graph node class runs first - on copies of real objects of the probe project (one with a URL and one without
    for every class that has them) x `visible` true / false / absent x the parent's `visible` true / false / absent:
    the node carries a `URL` attribute exactly when `nodeLinked` says so - the entity has a URL, its `visible` is not
    false and, for a type-bound procedure (whose URL is an anchor on the page of the declaring type), the parent's
    `visible` is not false either - and the attribute is then `parent_dir` + the entity's own URL. -/
theorem graph_node_probe_links_only_shown :
    C05.graphNodeProbe.all graphNodeRowOk = true ∧ C05.graphNodeProbe.length = 174
    ∧ (C05.graphNodeProbe.filter fun r => r.2.1).length = 9
    ∧ (C05.graphNodeProbe.filter fun r => r.2.2.2.2.2.1).length = 96 := by decide +kernel

/-- **Graph nodes never point at pages of unselected entities** (clause "links and graph nodes never point at
    pages of unselected entities"; full strength, any project, any rendered tree `q`, nodes of removed entities
    included): the page a node links to is among `pageIds q`. -/
theorem graph_node_urls (orig q es : List Ent) (x pg : Nat) (h : (x, pg) ∈ nodeUrlsOf orig q es) :
    pg ∈ pageIds q :=
  mem_nodeUrlsOf orig q x pg es h

/-- ... and after `correlate` + `prune`, for every configuration and every well-formed project (nodes are made of
    every entity of the project as `correlate` left it, pruned or not): it is the page of a **selected** entity. -/
theorem graph_node_urls_point_at_selected_pages (cfg : Cfg) (p : List Ent) (fuel : Nat)
    (hc : cfgOk cfg = true) (hw : wfProject p = true)
    (hf : cfg.fileInherits = true ∨ noFileDisplay (inheritProject p fuel) = true) (x pg : Nat)
    (h : (x, pg) ∈ nodeUrlsOf p (pruneProject cfg (inheritProject p fuel)) (inheritProject p fuel)) :
    pg ∈ selPages cfg (inheritProject p fuel) := by
  rw [← pageIds_pruneProject cfg hc _ (wfProject_inheritProject p hw fuel) hf]
  exact mem_nodeUrlsOf p _ x pg _ h

/-- non-vacuity / what the gate does: module with the private type 3 (binding 4), the public type 5 extending it
    and the private subroutine 7, `display: public`: the nodes of the file, the module and type 5 link to their
    pages; the nodes of the removed type 3, of the removed subroutine 7 and of the binding 4 (kept by type 5, but
    declared by the unshown type 3) carry no URL.  With `display: public, private` all of them do. -/
theorem graph_node_gate_witness :
    nodeUrlsOf wInheritedBinding (pruneProject wCfgInt (inheritProject wInheritedBinding 8))
      (inheritProject wInheritedBinding 8) = [(1, 1), (2, 2), (5, 5)]
    ∧ nodeUrlsOf wInheritedBinding
        (pruneProject { wCfgInt with display := [.pub, .priv] } (inheritProject wInheritedBinding 8))
        (inheritProject wInheritedBinding 8) = [(1, 1), (2, 2), (3, 3), (4, 3), (5, 5), (4, 3), (7, 7)] := by decide

/-- **`extends(...)` links** (partial: projects without block data units): the type named in the
    `extends(...)` of a type is printed as a link only if it is `visible`, and outside block data `visible` is
    set by a `prune()` on what it keeps: the linked type survived `prune()` (so, by the selection theorems, it is
    selected and described on a written page).  The excluded class is known finding
    `C05-blockdata-type-visible-before-prune` (`blockdata_extends_link_witness`). -/
theorem extends_links_partial (orig q : List Ent) (hn : noBlockDataIn orig = true) (t m : Nat)
    (h : (t, m) ∈ extLinksOf orig q q) : m ∈ visibleIdsOf q ∧ m ∈ idsOf q := by
  have hv := mem_extLinksOf orig q hn t m q h
  exact ⟨hv, mem_visibleIdsOf_idsOf m q hv⟩

/-- **Selection with type extension**: on the tree with the inherited members, what the pages render
    is exactly the selected set, where a member inherited by a selected type counts as a member of that
    type (selected iff public / non-private in the parent type - that is why it was inherited - and
    selected by the display options in force in the extending type). -/
theorem site_eq_selected_inherited (cfg : Cfg) (p : List Ent) (fuel : Nat) (hv : cfg.fileInherits = true)
    (hc : cfgOk cfg = true) (hw : wfProject p = true)
    (ho : outsideFindings cfg (inheritProject p fuel) = true) :
    renderedOf (pruneProject cfg (inheritProject p fuel)) = selProject cfg (inheritProject p fuel) :=
  rendered_pruneProject cfg hc _ (wfProject_inheritProject p hw fuel) ho (Or.inl hv)

/-- **Per page** (full strength): whatever the model says one page shows - the page of a file, module,
    submodule, program, block data unit, procedure, type, interface or namelist; the correspondence
    compares exactly these sets with the tracer words of every generated page file - is shown by the
    site-level abstraction `shownIds`: rendered somewhere in the pruned tree, named by something
    rendered there (`refs`), or grouped by a namelist that has a page. -/
theorem page_shows_within_site (cfg : Cfg) (p : List Ent) (hw : wfProject p = true) (pg : Nat) (ids : List Nat)
    (h : (pg, ids) ∈ pagesShown cfg p) (x : Nat) (hx : x ∈ ids) : x ∈ shownIds cfg p :=
  mem_pagesShown cfg p hw pg ids h x hx

/-- **No leak, per page**: on every page, every documentation text is that of a selected entity, of an
    entity that a rendered (hence selected) entity displays as its own description (the procedure a
    binding / generic interface / final procedure names with its dummy arguments and result, a variable
    a namelist groups), or of a namelist that has a page / a variable it groups (exact only outside
    `C05-namelist-never-filtered`, see `namelist_never_filtered_witness`). -/
theorem per_page_no_leak_partial (cfg : Cfg) (p : List Ent) (hc : cfgOk cfg = true) (hw : wfProject p = true)
    (ho : outsideFindings cfg p = true) (hf : cfg.fileInherits = true ∨ noFileDisplay p = true)
    (pg : Nat) (ids : List Nat) (h : (pg, ids) ∈ pagesShown cfg p) (x : Nat) (hx : x ∈ ids) :
    x ∈ selProject cfg p ∨ x ∈ refsShown p (renderedRefsOf (pruneProject cfg p)) ∨ x ∈ nmlShown (nmlEnts p) := by
  have hs := mem_pagesShown cfg p hw pg ids h x hx
  simp only [shownIds, List.mem_append] at hs
  rcases hs with (hs | hs) | hs
  · left; rw [← rendered_pruneProject cfg hc p hw ho hf]; exact hs
  · exact Or.inr (Or.inl hs)
  · exact Or.inr (Or.inr hs)

/-- **Namelist pages, completeness** (full strength): every selected namelist that stands in a
    program or in a procedure with a page of its own has its page - for every configuration and every
    well-formed project.  (The converse fails: `namelist_never_filtered_witness`.) -/
theorem namelist_pages_complete (cfg : Cfg) (p : List Ent) (hw : wfProject p = true) (x : Nat)
    (hx : x ∈ selNmlPages cfg p) : x ∈ nmlPageIds p :=
  mem_selNmlPages cfg x p hw hx

/-- Own pages: the entities that get a page through the project page lists (filled through
    `CONTAINERS` from the pruned code units, plus files and program units - block data units and
    their types included) are exactly the files, the program units and the *selected* procedures /
    interfaces / types of modules, programs and block data units - a selected entity of a page kind
    has its page, an unselected one has none.  Holds for every well-formed project, enumerations,
    namelists and common blocks included (they are not page kinds of these lists). -/
theorem pages_exact_partial (cfg : Cfg) (p : List Ent) (hc : cfgOk cfg = true) (hw : wfProject p = true)
    (hf : cfg.fileInherits = true ∨ noFileDisplay p = true) :
    pageIds (pruneProject cfg p) = selPages cfg p :=
  pageIds_pruneProject cfg hc p hw hf

/-- Links: every entity that has a page carries `visible = True` after `prune` (so
    `FortranBase.__str__` emits links to it), for every project and configuration.  Together
    with `pages_exact_partial`: the targets of emitted page links are selected entities. -/
theorem pages_are_linkable (cfg : Cfg) (p : List Ent) (hw : wfProject p = true) (x : Nat)
    (hx : x ∈ pageIds (pruneProject cfg p)) : x ∈ visibleIdsOf (pruneProject cfg p) :=
  pageIds_visible cfg x p hw hx

/-! ### `[[name]]` links in doc comments -/

/-- Tie to the source (re-probed on every run): a `[[name]]` is resolved by exactly the mechanism the
    model was written against.  **No class overrides** `find_child`, `children`, `iterator`, `get_url`, `find` or
    `convert_link` (an override would be a lookup the model does not have); `get_dir` is defined in the four known
    classes.  `_find_in_list` returns the first member whose name matches case-insensitively and skips strings.
    `FortranBase.find_child`, run on stubs: a bare name is looked up in every list of `childrenLists` and every
    attribute of `nonListChildren` (the order `children` yields them in, first list first), an entity word in the
    list `SUBLINK_TYPES` gives it; `Project.find` on a stub project: a bare name in every list of `LINK_TYPES` in
    that order, an entity word in its list, a child through the hit's `find_child`. -/
theorem link_lookup_pinned :
    C05.findChildDefinedIn = ["sourceform:FortranBase"]
    ∧ C05.childrenDefinedIn = ["sourceform:FortranBase"]
    ∧ C05.iteratorDefinedIn = ["sourceform:FortranBase"]
    ∧ C05.getUrlDefinedIn = ["sourceform:FortranBase"]
    ∧ C05.getDirDefinedIn = ["sourceform:FortranBase", "sourceform:FortranInterface", "sourceform:FortranProcedure", "sourceform:FortranSubmodule"]
    ∧ C05.findDefinedIn = ["fortran_project:Project"]
    ∧ C05.convertLinkDefinedIn = ["_markdown:FordLinkProcessor"]
    ∧ C05.nonListChildren = ["constructor", "procedure", "retvar"]
    ∧ C05.findInListProbe = [("first-of-two-equal", 2), ("case-insensitive-item", 2), ("case-insensitive-query", 2),
        ("strings-are-skipped", 0), ("not-found", 0), ("no-prefix-match", 2), ("empty", 0), ("generator", 2)]
    ∧ C05.findChildProbe.all findChildRowOk = true
    ∧ (probeRowsOf "bare-list" C05.findChildProbe).map (·.1) = C05.childrenLists
    ∧ (probeRowsOf "bare-single" C05.findChildProbe).map (·.1) = C05.nonListChildren
    ∧ probeRowsOf "entity" C05.findChildProbe = C05.sublinkTypes
    ∧ (probeRowsOf "bare-first-list-wins" C05.findChildProbe).length = 1
    ∧ C05.projectFindProbe.all projectFindRowOk = true
    ∧ (probeRowsOf "bare-list" C05.projectFindProbe).map (·.1) = (C05.linkTypes.map (·.2)).eraseDups
    ∧ probeRowsOf "entity" C05.projectFindProbe = C05.linkTypes
    ∧ (probeRowsOf "bare-first-list-wins" C05.projectFindProbe).length = 1
    ∧ (probeRowsOf "child-asks-the-hit" C05.projectFindProbe).length = 1 := by decide

/-- Tie to the source (re-probed on every run): `FordLinkProcessor.convert_link`, run through a real Markdown
    instance on scripted contexts and a scripted project, makes exactly the lookups of the model's `resolve`, in its
    order - the context's `find_child`, then the context's parent's, then `Project.find` (a `ValueError` of the
    first two counts as a miss; without a context only the project is asked); for `[[a:b]]` the hit's own
    `find_child`, whose `ValueError` is passed on, and when the child is found nowhere the page of `a` - and renders
    a link to the hit's URL (relative; an external URL as it is), the plain name when nothing is found, an error
    when the hit has no URL.  The last two cases are the model's switch `LinkEnv.checksPage`: the code as it is
    links to a hit whose page owner is not `visible`, the candidate repair
    (`fixes/C05-doc-link-hidden-page.diff`) prints the plain name. -/
theorem convert_link_probe_pinned :
    C05.convertLinkProbe.take 15 =
      [("context-hit", "ctx.find_child(hit,None) => href=../proc/hit.html text=hit"),
       ("parent-hit", "ctx.find_child(hit,None); par.find_child(hit,None) => href=../proc/hit.html text=hit"),
       ("project-hit", "ctx.find_child(hit,None); par.find_child(hit,None); project.find(hit,None,None,None) => href=../proc/hit.html text=hit"),
       ("nowhere", "ctx.find_child(hit,None); par.find_child(hit,None); project.find(hit,None,None,None) => plain text=hit"),
       ("context-raises-valueerror", "ctx.find_child(hit,type); par.find_child(hit,type) => href=../proc/hit.html text=hit"),
       ("no-parent-context-hit", "ctx.find_child(hit,None) => href=../proc/hit.html text=hit"),
       ("no-parent-project-hit", "ctx.find_child(hit,None); project.find(hit,None,None,None) => href=../proc/hit.html text=hit"),
       ("no-context", "project.find(hit,None,None,None) => href=proc/hit.html text=hit"),
       ("child-of-context-hit", "ctx.find_child(hit,None); hit.find_child(kid,None) => href=../proc/hit.html#variable-kid text=kid"),
       ("child-missing-under-context-hit", "ctx.find_child(hit,None); hit.find_child(nokid,None); project.find(hit,None,nokid,None); project.find(hit,None,None,None) => href=../proc/hit.html text=hit"),
       ("child-lookup-raises", "ctx.find_child(hit,None); hit.find_child(kid,variable) => ValueError"),
       ("child-through-project", "ctx.find_child(hit,None); par.find_child(hit,None); project.find(hit,None,kid,None) => href=../proc/hit.html#variable-kid text=kid"),
       ("child-missing-in-project", "ctx.find_child(hit,None); par.find_child(hit,None); project.find(hit,None,nokid,None); project.find(hit,None,None,None) => href=../proc/hit.html text=hit"),
       ("hit-without-url", "ctx.find_child(hit,None) => RuntimeError"),
       ("external-url-kept", "ctx.find_child(hit,None) => href=https://example.org/x.html text=hit")]
    ∧ (C05.convertLinkProbe.drop 15 =
        [("hit-page-not-visible", "ctx.find_child(hit,None) => href=../proc/hit.html text=hit"),
         ("hit-on-page-of-invisible-owner", "ctx.find_child(hit,None) => href=../proc/hp.html#variable-hit text=hit")]
       ∨ C05.convertLinkProbe.drop 15 =
        [("hit-page-not-visible", "ctx.find_child(hit,None) => plain text=hit"),
         ("hit-on-page-of-invisible-owner", "ctx.find_child(hit,None) => plain text=hit")]) := by decide +kernel

/-- Tie to the source (re-probed on every run): `get_dir` / `get_url` of the real objects of the probe project, per
    (class, class of the parent): files, modules, submodules, programs, block data units and namelists always have a
    page of their own; derived types, interfaces and procedures exactly when they stand directly in a file, module,
    submodule, program or block data unit (an interface body: in its interface's directory); everything else is an
    anchor on the page of the nearest ancestor that has one, or has no URL at all (a type inside a procedure and
    its components, the names listed in a generic interface).  This is the "page of a hit" of the link model. -/
theorem url_probe_pinned :
    C05.urlProbe =
      [
      ("FortranBlockData", "FortranSourceFile", "blockdata", "page"),
      ("FortranBoundProcedure", "FortranType", "-", "anchor:FortranType"),
      ("FortranCommon", "FortranBlockData", "-", "anchor:FortranBlockData"),
      ("FortranCommon", "FortranModule", "-", "anchor:FortranModule"),
      ("FortranEnum", "FortranModule", "-", "anchor:FortranModule"),
      ("FortranFinalProc", "FortranType", "-", "anchor:FortranType"),
      ("FortranFunction", "FortranFunction", "-", "anchor:FortranFunction"),
      ("FortranFunction", "FortranModule", "proc", "page"),
      ("FortranFunction", "FortranModuleProcedureInterface", "interface", "page"),
      ("FortranFunction", "FortranProgram", "proc", "page"),
      ("FortranFunction", "FortranSourceFile", "proc", "page"),
      ("FortranFunction", "FortranSubmodule", "proc", "page"),
      ("FortranInterface", "FortranModule", "interface", "page"),
      ("FortranInterface", "FortranProgram", "interface", "page"),
      ("FortranInterface", "FortranSubmodule", "interface", "page"),
      ("FortranModule", "FortranSourceFile", "module", "page"),
      ("FortranModuleProcedureImplementation", "FortranSubmodule", "proc", "page"),
      ("FortranModuleProcedureInterface", "FortranModule", "interface", "page"),
      ("FortranModuleProcedureInterface", "FortranProgram", "interface", "page"),
      ("FortranModuleProcedureInterface", "FortranSubmodule", "interface", "page"),
      ("FortranModuleProcedureReference", "FortranInterface", "-", "none"),
      ("FortranNamelist", "FortranFunction", "namelist", "page"),
      ("FortranNamelist", "FortranModule", "namelist", "page"),
      ("FortranNamelist", "FortranModuleProcedureImplementation", "namelist", "page"),
      ("FortranNamelist", "FortranProgram", "namelist", "page"),
      ("FortranNamelist", "FortranSubmodule", "namelist", "page"),
      ("FortranNamelist", "FortranSubroutine", "namelist", "page"),
      ("FortranProgram", "FortranSourceFile", "program", "page"),
      ("FortranSourceFile", "-", "sourcefile", "page"),
      ("FortranSubmodule", "FortranSourceFile", "module", "page"),
      ("FortranSubroutine", "FortranModule", "proc", "page"),
      ("FortranSubroutine", "FortranModuleProcedureInterface", "interface", "page"),
      ("FortranSubroutine", "FortranProgram", "proc", "page"),
      ("FortranSubroutine", "FortranSourceFile", "proc", "page"),
      ("FortranSubroutine", "FortranSubmodule", "proc", "page"),
      ("FortranSubroutine", "FortranSubroutine", "-", "anchor:FortranSubroutine"),
      ("FortranType", "FortranBlockData", "type", "page"),
      ("FortranType", "FortranModule", "type", "page"),
      ("FortranType", "FortranProgram", "type", "page"),
      ("FortranType", "FortranSubmodule", "type", "page"),
      ("FortranType", "FortranSubroutine", "-", "none"),
      ("FortranVariable", "FortranBlockData", "-", "anchor:FortranBlockData"),
      ("FortranVariable", "FortranEnum", "-", "anchor:FortranModule"),
      ("FortranVariable", "FortranFunction", "-", "anchor:FortranFunction"),
      ("FortranVariable", "FortranModule", "-", "anchor:FortranModule"),
      ("FortranVariable", "FortranModuleProcedureImplementation", "-", "anchor:FortranModuleProcedureImplementation"),
      ("FortranVariable", "FortranProgram", "-", "anchor:FortranProgram"),
      ("FortranVariable", "FortranSubmodule", "-", "anchor:FortranSubmodule"),
      ("FortranVariable", "FortranSubroutine", "-", "anchor:FortranSubroutine"),
      ("FortranVariable", "FortranType", "-", "none")] := by decide

/-- Every list attribute `find_child` searches is one of the child lists of the entity tree
    (those `prune()` filters: `prune_lists_cover`; `common`, `namelists` and `enums`, which no `prune()`
    touches: `namelists_commons_unfiltered_witness`) - the only exception is `bindings` (the model's
    `viaRef`).  Adding a list to `FortranBase.children` that the entity tree does not have changes this
    obligation. -/
theorem link_lookup_lists_are_tree_lists :
    ∀ l ∈ C05.childrenLists, l = "bindings" ∨
      (listOf .file :: listOf .module :: listOf .submodule :: listOf .program :: listOf .blockdata
        :: listOf .subroutine :: listOf .function :: listOf .modproc :: listOf .type :: listOf .variable
        :: listOf .boundproc :: listOf .finalproc :: listOf .generic :: listOf .absint :: listOf .enum
        :: listOf .common :: listOf .namelist :: listOf .arg :: []).contains l = true := by decide

/-- Every project list `Project.find` searches (`LINK_TYPES`) is a list of entities that get a
    page (`Documentation`'s page map, filled from pruned lists: `pages_exact_partial`), the list of
    all files, or a list of external entities. -/
theorem link_lookup_project_lists_are_page_lists :
    ∀ l ∈ C05.linkTypes.map (·.2),
      (C05.pageMap.map (·.1)).contains l = true ∨ l = "allfiles"
      ∨ (["extModules", "extTypes", "extProcedures", "extInterfaces"].contains l = true) := by decide

/-- **Links point at pages that exist** (any project, pruned or not; any names; any links): the
    page a resolved `[[name]]` points at is the page of an entity in the project's page lists -
    unless the name was found through a procedure object that a type-bound / final procedure
    keeps (`viaRef`; excluded class = known finding `C05-link-to-unselected-bound-procedure`).
    Covers the comments of all surviving entities, all three lookups of `convert_link`. -/
theorem doc_links_point_at_written_pages_partial (E : LinkEnv) (q : List Ent) (l : Link)
    (hl : l ∈ linksOf E q) (h : Hit) (hh : l.hit = some h) (hv : h.viaRef = false) :
    h.page ∈ pageIds q :=
  linksOf_pages E q l hl h hh hv

/-- **Links never point at pages of unselected entities** (the code as it is): after `prune`, for
    every configuration and every well-formed project, a `[[name]]` in the comment of a surviving
    entity that resolves directly points at the page of a *selected* entity. -/
theorem doc_links_point_at_selected_pages_partial (cfg : Cfg) (p : List Ent) (hc : cfgOk cfg = true)
    (hw : wfProject p = true) (hf : cfg.fileInherits = true ∨ noFileDisplay p = true)
    (E : LinkEnv) (l : Link) (hl : l ∈ linksOf E (pruneProject cfg p))
    (h : Hit) (hh : l.hit = some h) (hv : h.viaRef = false) :
    h.page ∈ selPages cfg p := by
  rw [← pageIds_pruneProject cfg hc p hw hf]
  exact linksOf_pages E _ l hl h hh hv

/-- The same at full strength once the link extension tests that the page is written (candidate
    repair `fixes/C05-doc-link-hidden-page.diff`, model switch `checksPage`): every resolved link,
    references included. -/
theorem doc_links_point_at_selected_pages (cfg : Cfg) (p : List Ent) (hc : cfgOk cfg = true)
    (hw : wfProject p = true) (hf : cfg.fileInherits = true ∨ noFileDisplay p = true)
    (E : LinkEnv) (hk : E.checksPage = true) (l : Link) (hl : l ∈ linksOf E (pruneProject cfg p))
    (h : Hit) (hh : l.hit = some h) : h.page ∈ selPages cfg p := by
  rw [← pageIds_pruneProject cfg hc p hw hf]
  exact linksOf_pages_checked E _ hk l hl h hh

/-! ### witnesses of the genuine violations -/

/-- Known finding `C05-enum-never-filtered`: a private enumeration and its enumerator are
    rendered under `display: public`. -/
theorem enum_never_filtered_witness :
    renderedOf (pruneProject (wCfg true) wEnum) = [1, 2, 3, 4]
    ∧ selProject (wCfg true) wEnum = [1, 2]
    ∧ outsideFindings (wCfg true) wEnum = false := by decide

/-- Known finding `C05-namelist-never-filtered`: the private namelist 5 of the public subroutine 3 is
    rendered on the procedure's page and gets a page of its own (which shows the private local variable
    4 it groups) under `display: public`, with `proc_internals` off as well as on. -/
theorem namelist_never_filtered_witness :
    renderedOf (pruneProject (wCfg true) wNamelist) = [1, 2, 3, 5]
    ∧ selProject (wCfg true) wNamelist = [1, 2, 3]
    ∧ nmlPageIds wNamelist = [5] ∧ selNmlPages (wCfg true) wNamelist = []
    ∧ 4 ∈ shownIds (wCfg true) wNamelist
    ∧ renderedOf (pruneProject wCfgInt wNamelist) = [1, 2, 3, 5]
    ∧ selProject wCfgInt wNamelist = [1, 2, 3]
    ∧ outsideFindings (wCfg true) wNamelist = false ∧ outsideFindings wCfgInt wNamelist = false := by decide

/-- Known finding `C05-module-namelist-not-described`: the public namelist 4 of a module is selected,
    but no template of the module page renders it and it gets no page. -/
theorem module_namelist_not_described_witness :
    renderedOf (pruneProject wCfgInt wModuleNamelist) = [1, 2, 3]
    ∧ selProject wCfgInt wModuleNamelist = [1, 2, 3, 4]
    ∧ sitePageIds wCfgInt wModuleNamelist = [1, 2]
    ∧ nmlSection .module = false ∧ nmlSection .submodule = false
    ∧ outsideFindings wCfgInt wModuleNamelist = false := by decide

/-- Known finding `C05-inherited-binding-links-to-unselected-type`: the public type 5 extends the private
    type 3 and inherits its public binding 4; under `display: public` the binding survives in 5 and is
    `visible`, so its name in the summary of 5 (module page) is a link - to its own URL, an anchor on the page
    of the type that declares it, 3, which is neither selected nor written. -/
theorem inherited_binding_links_to_unselected_type_witness :
    foreignBindingsOf wInheritedBinding (pruneProject wCfgInt (inheritProject wInheritedBinding 8)) = [(4, 3)]
    ∧ 4 ∈ visibleIdsOf (pruneProject wCfgInt (inheritProject wInheritedBinding 8))
    ∧ sitePageIds wCfgInt (inheritProject wInheritedBinding 8) = [1, 2, 5]
    ∧ selPages wCfgInt (inheritProject wInheritedBinding 8) = [1, 2, 5]
    ∧ noExtension wInheritedBinding = false := by decide

/-- Known finding `C05-blockdata-type-visible-before-prune`: the public type 5 of a block data unit extends
    the private type 3 of the same unit; `FortranBlockData.correlate` has marked 3 `visible`, `prune()` removes it
    under `display: public`, and `extends(t3)` in the summary / on the page of 5 is a link to the page of 3, which
    is neither selected nor written.  (Without the marking in `correlate` there is no link: the model reads the
    regenerated table.) -/
theorem blockdata_extends_link_witness :
    (C05.visibleInCorrelate = [("FortranBlockData", "FortranType")] →
      extLinksOf wBlockDataExtends (pruneProject wCfgInt (inheritProject wBlockDataExtends 5))
        (pruneProject wCfgInt (inheritProject wBlockDataExtends 5)) = [(5, 3)])
    ∧ idsOf (pruneProject wCfgInt (inheritProject wBlockDataExtends 5)) = [1, 2, 5, 4]
    ∧ sitePageIds wCfgInt (inheritProject wBlockDataExtends 5) = [1, 2, 5]
    ∧ selPages wCfgInt (inheritProject wBlockDataExtends 5) = [1, 2, 5]
    ∧ noBlockDataIn wBlockDataExtends = false := by decide

/-- Known finding `C05-common-never-filtered`: the private member 4 of a common block of a module is
    rendered under `display: public`. -/
theorem common_never_filtered_witness :
    renderedOf (pruneProject wCfgInt wCommon) = [1, 2, 3, 4]
    ∧ selProject wCfgInt wCommon = [1, 2, 3]
    ∧ outsideFindings wCfgInt wCommon = false := by decide

/-- Known finding `C05-link-to-unselected-bound-procedure`: the comment of the public binding 4
    names the private procedure 5 it binds; the link is resolved through `bindings` and points at
    the page of 5, which is not among the pages; with the page test the link is not made. -/
theorem link_via_binding_witness :
    linksOf (LinkWitness.eBinding false) (pruneProject LinkWitness.cfg LinkWitness.pBinding)
      = [⟨4, 5, some ⟨5, 5, true⟩⟩]
    ∧ pageIds (pruneProject LinkWitness.cfg LinkWitness.pBinding) = [1, 2, 3]
    ∧ selPages LinkWitness.cfg LinkWitness.pBinding = [1, 2, 3]
    ∧ linksOf (LinkWitness.eBinding true) (pruneProject LinkWitness.cfg LinkWitness.pBinding)
      = [⟨4, 5, none⟩] := by decide

/-- Known finding `C05-link-inside-unselected-referenced-procedure`: the private procedure 4 is
    displayed under the public generic 3; when its comment is converted the context is the
    unpruned object, `[[a5]]` is found among its own children and points at the page of 4,
    which is not among the pages; with the page test the link is not made. -/
theorem link_in_referenced_procedure_witness :
    LinkWitness.referencedHit false = some ⟨5, 4, false⟩
    ∧ pageIds (pruneProject LinkWitness.cfg LinkWitness.pReferenced) = [1, 2, 3]
    ∧ selPages LinkWitness.cfg LinkWitness.pReferenced = [1, 2, 3]
    ∧ LinkWitness.referencedHit true = none := by decide

/-! ### non-vacuity -/

/-- links that satisfy the hypotheses of the link theorems: to a type (own page), to its component
    (the type's page), to a private function (not linked), to the module; from a component to
    itself and to its type -/
example :
    linksOf LinkWitness.ePlain (pruneProject LinkWitness.cfg LinkWitness.pPlain)
      = [⟨4, 4, some ⟨4, 3, false⟩⟩, ⟨4, 3, some ⟨3, 3, false⟩⟩,
         ⟨5, 3, some ⟨3, 3, false⟩⟩, ⟨5, 4, none⟩, ⟨5, 6, none⟩, ⟨5, 2, some ⟨2, 2, false⟩⟩]
    ∧ wfProject LinkWitness.pPlain = true ∧ cfgOk LinkWitness.cfg = true := by decide

/-- a project with the kinds of round 3 - block data unit with a private variable and a type, generic
    interface with an interface body (dummy argument, result) and a module procedure, declared function
    result, a type that extends another (the public component 4 and the binding 6 are inherited, the
    private component 5 is not), a namelist in a program - satisfies every hypothesis of the selection
    theorems; the private variable 22 of the block data unit and the private component are filtered, the
    namelist has its page -/
example :
    wfProject wRound3 = true ∧ cfgOk wCfgInt = true
    ∧ outsideFindings wCfgInt (inheritProject wRound3 24) = true
    ∧ renderedOf (pruneProject wCfgInt (inheritProject wRound3 24))
        = [1, 2, 3, 4, 6, 7, 4, 6, 8, 9, 10, 11, 12, 17, 18, 19, 20, 21, 23, 24]
    ∧ sitePageIds wCfgInt (inheritProject wRound3 24) = [1, 2, 3, 7, 9, 17, 20, 23, 19]
    ∧ selNmlPages wCfgInt (inheritProject wRound3 24) = [19] := by decide

end Ford.C05
