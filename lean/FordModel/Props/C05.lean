/-
  C05 - the site documents exactly the entities selected by the display options.
  Property theorems only; the model is FordModel/Display.lean (prune driven by the tables
  regenerated from the source), the specification FordModel/DisplaySpec.lean, helper lemmas
  FordModel/Lemmas/Display.lean.
-/
import FordModel.Display
import FordModel.DisplaySpec
import FordModel.Lemmas.Display
namespace Ford.C05
open Ford Ford.Display Ford.Display.Spec Ford.Generated

/-- Tie to the source (regenerated on every run): the three `prune()` methods have exactly the
    shape the model interprets - one early-return guard (`proc` with `proc_internals` off) in
    `FortranCodeUnit.prune`, none in the others, no statement outside the recognised shapes, the
    submodule-only filters under `isinstance(self, FortranSubmodule)`, every `ranklist` member
    pruned - and the hand-modelled functions `_set_display`, `_should_display`, `filter_display`,
    `FortranBase.__str__` are the ones the model was written against. -/
theorem source_shape_pinned :
    C05.codeUnitGuard = "self.obj == 'proc' and (not self.meta.proc_internals)"
    ∧ C05.dtypeGuard = "" ∧ C05.blockDataGuard = ""
    ∧ C05.codeUnitOther = [] ∧ C05.dtypeOther = [] ∧ C05.blockDataOther = []
    ∧ C05.codeUnitCondFiltered.map (·.1) = ["isinstance(self, FortranSubmodule)", "isinstance(self, FortranSubmodule)", "isinstance(self, FortranSubmodule)"]
    ∧ C05.hasPrune = ["FortranBlockData", "FortranCodeUnit", "FortranType"]
    ∧ C05.pruneLoop = "if not isinstance(container, str):\n    container.prune()"
    ∧ C05.setDisplayPin = "366dfa0e55ad3a51" ∧ C05.shouldDisplayPin = "657947f9634c6cb8"
    ∧ C05.filterDisplayPin = "255395ecf21e15e7" ∧ C05.strPin = "8828a39a0deba104" := by decide

/-- Every child list that holds entities with an accessibility is passed through
    `filter_display` by the `prune()` of every class that can contain it (and the lists of
    dummy arguments / final procedures are not): for all well-formed (parent kind, child kind)
    pairs except enumerations.  Removing one list from a `prune` in the source changes the
    regenerated table and this obligation fails. -/
theorem prune_lists_cover (pk ck : Kind) (h : kidOk pk ck = true) (he : ck ≠ .enum) (hc : classOf pk ≠ .none) :
    filteredIn (classOf pk) (listOf ck) = !alwaysShown ck :=
  tbl_filtered pk ck h he hc

/-- With `proc_internals` off, exactly the lists of filterable kinds are emptied (dummy arguments
    stay), for every kind a procedure can contain. -/
theorem internals_lists_cover (pk ck : Kind) (h : kidOk pk ck = true) (he : ck ≠ .enum) (hp : isProc pk = true) :
    emptiedIn (classOf pk) (listOf ck) = !alwaysShown ck :=
  tbl_emptied pk ck h he hp

/-- `prune` recurses into exactly the child kinds that have a `prune` of their own (procedures
    and derived types), so options set deeper in the tree are honoured at every depth. -/
theorem prune_recursion_cover (pk ck : Kind) (h : kidOk pk ck = true) (he : ck ≠ .enum) (hc : classOf pk ≠ .none) :
    recurseIn (classOf pk) (listOf ck) = (classOf ck != .none) :=
  tbl_recurse pk ck h he hc

/-- The genuine gap in the tables: no `prune` filters or empties the `enums` list. -/
theorem enums_list_unfiltered_witness :
    filteredIn .codeUnit (listOf .enum) = false ∧ filteredIn .submodule (listOf .enum) = false
    ∧ emptiedIn .codeUnit (listOf .enum) = false := by decide

/-- `_set_display` (inherit the parent's list at construction, override from own metadata,
    `none`, unknown words, `none` ignored for files) computes the display set the user guide
    describes, for every parent list and every metadata list: the list an entity ends up with
    denotes `inForce` of what was in force around it. -/
theorem setDisplay_denotes_inForce (isFile : Bool) (d md : List Word) (D : Word → Bool)
    (h : ∀ p, isPerm p = true → d.contains p = D p) (p : Word) (hp : isPerm p = true) :
    (setDisplay isFile d md).contains p = inForce isFile D md p :=
  agree_setDisplay isFile d D md h p hp

/-- **Selection, full strength** (holds for the code once the contents of a file inherit the
    file's `display`): for every project-wide display list (not mixing `none` with permission
    words), both values of `proc_internals` and `hide_undoc`, and every well-formed project
    without enumerations - any nesting depth, any metadata at file / module / type / procedure
    level - what the pages render after `prune` is exactly the selected set, in the same order.
    This is no-leak and completeness in one equation. -/
theorem site_eq_selected (cfg : Cfg) (p : List Ent) (hv : cfg.fileInherits = true)
    (hc : cfgOk cfg = true) (hw : wfProject p = true) :
    renderedOf (pruneProject cfg p) = selProject cfg p :=
  rendered_pruneProject cfg hc p hw (Or.inl hv)

/-- **Selection, the code as it is**: the same equation when no source file carries `display`
    metadata that says something (the excluded class is exactly known finding
    `C05-file-display-not-inherited`). -/
theorem site_eq_selected_partial (cfg : Cfg) (p : List Ent) (hv : cfg.fileInherits = false)
    (hc : cfgOk cfg = true) (hw : wfProject p = true) (hf : noFileDisplay p = true) :
    renderedOf (pruneProject cfg p) = selProject cfg p :=
  rendered_pruneProject cfg hc p hw (Or.inr hf)

/-- No leak: nothing that is rendered anywhere is unselected. -/
theorem no_leak_partial (cfg : Cfg) (p : List Ent) (hc : cfgOk cfg = true) (hw : wfProject p = true)
    (hf : cfg.fileInherits = true ∨ noFileDisplay p = true) (x : Nat)
    (hx : x ∈ renderedOf (pruneProject cfg p)) : x ∈ selProject cfg p := by
  rw [← rendered_pruneProject cfg hc p hw hf]; exact hx

/-- Complete: every selected entity is rendered. -/
theorem complete_partial (cfg : Cfg) (p : List Ent) (hc : cfgOk cfg = true) (hw : wfProject p = true)
    (hf : cfg.fileInherits = true ∨ noFileDisplay p = true) (x : Nat)
    (hx : x ∈ selProject cfg p) : x ∈ renderedOf (pruneProject cfg p) := by
  rw [rendered_pruneProject cfg hc p hw hf]; exact hx

/-- Own pages: the entities that get a page (project page lists filled through `CONTAINERS`
    from the pruned code units, plus files and program units) are exactly the files, the
    program units and the *selected* procedures / interfaces / types of modules and programs -
    a selected entity of a page kind has its page, an unselected one has none. -/
theorem pages_exact_partial (cfg : Cfg) (p : List Ent) (hc : cfgOk cfg = true) (hw : wfProject p = true)
    (hf : cfg.fileInherits = true ∨ noFileDisplay p = true) :
    pageIds (pruneProject cfg p) = selPages cfg p :=
  pageIds_pruneProject cfg hc p hw hf

/-- Links: every entity that has a page carries `visible = True` after `prune` (so
    `FortranBase.__str__` emits links to it), for every project and configuration.  Together
    with `pages_exact_partial`: the targets of emitted page links are selected entities. -/
theorem pages_are_linkable (cfg : Cfg) (p : List Ent) (hw : wfProject p = true) (x : Nat)
    (hx : x ∈ pageIds (pruneProject cfg p)) : x ∈ visibleIdsOf (pruneProject cfg p) :=
  pageIds_visible cfg x p hw hx

/-! ### witnesses of the genuine violations -/

/-- Known finding `C05-file-display-not-inherited`: with the code as it is the public variable
    (4) is rendered and the private one (3) is not, although the file's metadata selects the
    opposite; with inheritance repaired the two sides agree. -/
theorem file_display_not_inherited_witness :
    renderedOf (pruneProject (wCfg false) wFile) = [1, 2, 4]
    ∧ selProject (wCfg false) wFile = [1, 2, 3]
    ∧ renderedOf (pruneProject (wCfg true) wFile) = [1, 2, 3] := by decide

/-- Known finding `C05-enum-never-filtered`: a private enumeration and its enumerator are
    rendered under `display: public` (both variants of the model). -/
theorem enum_never_filtered_witness :
    renderedOf (pruneProject (wCfg false) wEnum) = [1, 2, 3, 4]
    ∧ selProject (wCfg false) wEnum = [1, 2]
    ∧ renderedOf (pruneProject (wCfg true) wEnum) = [1, 2, 3, 4] := by decide

/-! ### non-vacuity -/

example : wfProject wFile = true ∧ cfgOk (wCfg false) = true ∧ noFileDisplay wFile = false := by decide
/-- a project with options at module, type and procedure level that satisfies every hypothesis -/
example :
    let p : List Ent :=
      [.mk { id := 1, kind := .file, perm := .pub, doc := true, disp := [], pint := none, refs := [], visible := false }
        (.cons (.mk { id := 2, kind := .module, perm := .pub, doc := true, disp := [.priv, .pub], pint := none, refs := [], visible := false }
          (.cons (.mk { id := 3, kind := .type, perm := .priv, doc := true, disp := [.none], pint := none, refs := [], visible := false }
            (.cons (.mk { id := 4, kind := .variable, perm := .pub, doc := true, disp := [], pint := none, refs := [], visible := false } .nil) .nil))
          (.cons (.mk { id := 5, kind := .subroutine, perm := .pub, doc := true, disp := [], pint := some true, refs := [], visible := false }
            (.cons (.mk { id := 6, kind := .arg, perm := .pub, doc := false, disp := [], pint := none, refs := [], visible := false } .nil)
            (.cons (.mk { id := 7, kind := .variable, perm := .prot, doc := true, disp := [], pint := none, refs := [], visible := false } .nil) .nil)))
           .nil))) .nil)]
    wfProject p = true ∧ noFileDisplay p = true
      ∧ renderedOf (pruneProject (wCfg false) p) = [1, 2, 3, 5, 6] ∧ selPages (wCfg false) p = [1, 2, 3, 5] := by decide

end Ford.C05
