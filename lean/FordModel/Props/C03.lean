/-
  C03 — each doc comment lands on its entity, complete, once and in order.
  Property theorems only; helper lemmas live in FordModel/Lemmas.
-/
import FordModel.Admonition
import FordModel.Meta
import FordModel.Attach
import FordModel.Reader
import FordModel.MdState
import FordModel.Lemmas.MdState
import FordModel.Lemmas.Admonition
import FordModel.Lemmas.Meta
import FordModel.Lemmas.Attach
import FordModel.Lemmas.ReaderDoc
import FordModel.Lemmas.ReaderInline
import FordModel.DocConvert
import FordModel.Lemmas.DocConvert
import FordModel.AttachIface
import FordModel.Lemmas.AttachIface
import FordModel.Lemmas.ReaderQuote
import FordModel.IncludeMarks
import FordModel.Summary
import FordModel.Lemmas.Summary
import FordModel.Lemmas.IncludeMarks
namespace Ford.C03
open Ford

/-! ## Admonition pre-processing (`ford/md_admonition.py`) -/

/-- What `ADMONITION_RE.search` can match, for every line and every table of note types: the
    line splits as `pre ++ indent ++ "@" ++ type ++ posttxt` with a blank `indent` and a type
    that is (case-insensitively) in the table — a start marker is never invented and the
    text after it is handed on verbatim. -/
theorem admRe_decomposes (types : List Str) (l : Str) (m : AdmMatch) (h : admRe types l = some m) :
    l = m.pre ++ m.indent ++ '@' :: (m.ty ++ m.post) ∧ isBlank m.indent = true ∧ lower m.ty ∈ types :=
  admRe_spec types l m h

/-- Text without any `@` passes the admonition pre-processor unchanged (no line is inserted,
    deleted, indented or rewritten), whatever its length. -/
theorem admRun_no_marker_id (types : List Str) (ls : List Str) (h : ∀ l ∈ ls, '@' ∉ l) :
    admRun types ls = .ok ls := by
  simp [admRun, findAdm, findFrom_no_at types ls 0 h, processAdm, procAll]

/-- Indenting the body of a box (any range, any text) keeps the word sequence. -/
theorem indent_keeps_words (ls : List Str) (lo hi : Nat) : W (indentFrom ls 0 lo hi) = W ls :=
  indentFrom_words ls 0 lo hi

/-- One iteration of `_process_admonitions` on a box closed by an `@end…` line, anywhere in
    any text (`A`, `M`, `B` are arbitrary line lists, `s` the start line, `x` the end line):
    the result is the text before, the header `@note <Type>`, the text after the start
    marker, the body, the text before and after the end marker, the text after — every word
    once and in order; the only part of the input that does not reappear is `m.pre`, the
    text before the start marker on its own line (see `…_witness`). -/
theorem procOne_closed_words (types : List Str) (A M B : List Str) (s x ty : Str)
    (m : AdmMatch) (e : EndMatch) (hs : admRe types s = some m) (he : endRe types x = some e) :
    ∃ ls', procOne types (A ++ s :: (M ++ x :: B)) ⟨ty, A.length, some (A.length + 1 + M.length)⟩ = .ok ls' ∧
      W ls' = W A ++ words (['@', 'n', 'o', 't', 'e', ' '] ++ capitalize ty) ++ words m.post ++ W M
                ++ words e.pre ++ words e.post ++ W B := by
  have hP : (A ++ s :: M).length = A.length + 1 + M.length := by simp; omega
  have hL : A ++ s :: (M ++ x :: B) = (A ++ s :: M) ++ x :: B := by simp
  obtain ⟨R, hR, hW⟩ := endStep_shape types (A ++ s :: M) x B e he
  unfold procOne
  simp only [Option.getD_some]
  rw [hL, ← hP]
  generalize hres : endStep types ((A ++ s :: M) ++ x :: B) (A ++ s :: M).length = res at hR
  obtain ⟨ls1, stop'⟩ := res
  simp only at hR
  subst hR
  have hlen : ¬ ((A ++ s :: M).length ≥ ((A ++ s :: M) ++ x :: B).length) := by simp
  simp only [hlen, ↓reduceIte]
  have e1 : (A ++ s :: M) ++ R = A ++ s :: (M ++ R) := by simp
  rw [e1, indentFrom_prefix A _ 0 _ _ (by omega), Nat.zero_add, indentFrom_head _ _ _ _ _ (by omega)]
  have hlen2 : ¬ (A.length ≥ (A ++ s :: indentFrom (M ++ R) (A.length + 1) (A.length + 1)
      (min (A ++ s :: (M ++ R)).length (stop' + 1))).length) := by simp
  simp only [hlen2, ↓reduceIte]
  obtain ⟨ls', h1, h2⟩ := startStep_mid types A s
    (indentFrom (M ++ R) (A.length + 1) (A.length + 1) (min (A ++ s :: (M ++ R)).length (stop' + 1))) ty m hs
  refine ⟨ls', h1, ?_⟩
  rw [h2, indentFrom_words, W_append, hW]
  simp [List.append_assoc]

/-- The same for a box that has no `@end…` line at its recorded end (ended by a blank line,
    by the next box or by the end of the text): nothing but the header rewrite and
    indentation happens, and no word of the surrounding or contained text is lost. -/
theorem procOne_open_words (types : List Str) (A R : List Str) (s ty : Str) (stop : Nat)
    (m : AdmMatch) (hs : admRe types s = some m) (hstop : stop < (A ++ s :: R).length)
    (he : endRe types ((A ++ s :: R).getD stop []) = none) :
    ∃ ls', procOne types (A ++ s :: R) ⟨ty, A.length, some stop⟩ = .ok ls' ∧
      W ls' = W A ++ words (['@', 'n', 'o', 't', 'e', ' '] ++ capitalize ty) ++ words m.post ++ W R := by
  unfold procOne
  simp only [Option.getD_some]
  have hlen : ¬ (stop ≥ (A ++ s :: R).length) := by omega
  rw [endStep_none types _ _ he]
  simp only [hlen, ↓reduceIte]
  rw [indentFrom_prefix A _ 0 _ _ (by omega), Nat.zero_add, indentFrom_head _ _ _ _ _ (by omega)]
  have hlen2 : ¬ (A.length ≥ (A ++ s :: indentFrom R (A.length + 1) (A.length + 1)
      (min (A ++ s :: R).length (stop + 1))).length) := by simp
  simp only [hlen2, ↓reduceIte]
  obtain ⟨ls', h1, h2⟩ := startStep_mid types A s
    (indentFrom R (A.length + 1) (A.length + 1) (min (A ++ s :: R).length (stop + 1))) ty m hs
  exact ⟨ls', h1, by rw [h2, indentFrom_words]⟩

/-- Pre-finding 3, as the code is: text before the start marker on the same line is dropped
    (`t1q0` disappears), while everything else is kept. -/
theorem startStep_drops_text_before_marker_witness :
    (admRun admTypes ["t1q0 @note t1q1".toList, "t1q2".toList, "@endnote".toList]).toOption.map W
      = some ["@note".toList, "Note".toList, "t1q1".toList, "t1q2".toList] := by decide

/-- non-vacuity: a closed box with text on the start line, after the end marker, and text around -/
example : (admRun admTypes ["a".toList, "@Warning b".toList, "c".toList, "d @endwarning e".toList, "f".toList]).toOption.map W
    = some (["a", "@note", "Warning", "b", "c", "d", "e", "f"].map String.toList) := by decide


/-! ## Metadata (`ford.utils.meta_preprocessor`, `FortranBase.read_metadata`) -/

/-- Leading metadata lines set the metadata and are not shown: for every dictionary `kvs`
    in the documented form (distinct lower-case word keys, each with one or more non-empty
    values without surrounding blanks, continuation values on lines indented by four
    blanks) and every body, splitting `header ++ [blank line] ++ body` gives back exactly
    `(kvs, body)` — no header line leaks into the body, no body line is eaten, and the
    keys keep their order. -/
theorem metaSplit_header (kvs : List (Str × List Str)) (hok : kvs.all entryOK = true)
    (hnd : (kvs.map (·.1)).Nodup) (body : List Str) :
    metaSplit (headerLines kvs ++ [] :: body) = (kvs, body) := by
  obtain ⟨key', h⟩ := metaLoop_header kvs hok hnd [] (by simp) ([] :: body) none
  have hloop : metaSplit (headerLines kvs ++ [] :: body) = metaLoop (headerLines kvs ++ [] :: body) none [] := by
    cases kvs with
    | nil => simp [headerLines, metaSplit, beginRe, startsWith]
    | cons kv rest =>
      obtain ⟨k, vs⟩ := kv
      simp only [List.all_cons, Bool.and_eq_true, entryOK, Bool.not_eq_true'] at hok
      cases vs with
      | nil => simp at hok
      | cons v vs' =>
        simp only [List.all_cons, Bool.and_eq_true] at hok
        obtain ⟨_, _, b3, _⟩ := key_line k v hok.1.1.1 hok.1.2.1
        simp [headerLines, metaSplit, b3]
  rw [hloop, h]
  simp [metaLoop, isBlank]

/-- The same without the separating blank line, for a body whose first line cannot be read
    as metadata (the explicit guard: not blank, not a `---`/`...` line, neither a
    `key: value` nor a four-blank continuation line). -/
theorem metaSplit_header_partial (kvs : List (Str × List Str)) (hok : kvs.all entryOK = true)
    (hnd : (kvs.map (·.1)).Nodup) (b : Str) (body : List Str)
    (h1 : isBlank b = false) (h2 : metaEndRe b = false) (h3 : metaRe b = none) (h4 : metaMoreRe b = none) :
    metaSplit (headerLines kvs ++ b :: body) = (kvs, b :: body) := by
  obtain ⟨key', h⟩ := metaLoop_header kvs hok hnd [] (by simp) (b :: body) none
  have hb : beginRe b = false := by
    simp only [metaEndRe, Bool.or_eq_false_iff] at h2; exact h2.1
  have hloop : metaSplit (headerLines kvs ++ b :: body) = metaLoop (headerLines kvs ++ b :: body) none [] := by
    cases kvs with
    | nil => simp [headerLines, metaSplit, hb]
    | cons kv rest =>
      obtain ⟨k, vs⟩ := kv
      simp only [List.all_cons, Bool.and_eq_true, entryOK, Bool.not_eq_true'] at hok
      cases vs with
      | nil => simp at hok
      | cons v vs' =>
        simp only [List.all_cons, Bool.and_eq_true] at hok
        obtain ⟨_, _, b3, _⟩ := key_line k v hok.1.1.1 hok.1.2.1
        simp [headerLines, metaSplit, b3]
  rw [hloop, h]
  simp [metaLoop, h1, h2, h3, h4]

/-- What the guard excludes, as the code is: a first body line of the form `word: text`
    directly after the header is swallowed as one more (unknown) metadata key. -/
theorem metaSplit_colon_line_witness :
    metaSplit ["author: A".toList, "Remark: shown nowhere".toList, "text".toList]
      = ([("author".toList, ["A".toList]), ("remark".toList, ["shown nowhere".toList])], ["text".toList]) := by
  decide

/-- `read_metadata`'s one-line rule: a doc comment consisting of a single line that
    contains a colon but does not start with the name of an entity setting is body text,
    not metadata (both variants of the rule). -/
theorem single_line_with_colon_is_text (tb : Bool) (fields : List Str) (l : Str) (hc : l.contains ':' = true)
    (hf : fields.contains (lower (strip (l.takeWhile (· != ':')))) = false) :
    readMetadata tb fields [l] = ([], [l]) := by
  have hc' : ':' ∈ l := by simpa using hc
  have hf' : ¬ (lower (strip (l.takeWhile (· != ':'))) ∈ fields) := by simpa using hf
  have hfix : readMetaFix tb fields [l] = [[], l] := by
    simp [readMetaFix, isOneLine, hc', hf']
  simp [readMetadata, hfix, metaSplit, beginRe, startsWith, metaLoop, isBlank]

/-- The other half of the one-line rule: a doc comment consisting of the single line
    `Key: value` whose key is the name of an entity setting **written in any case** sets that
    (lower-cased) metadata key and shows nothing — for every table of settings, every word
    `k` with `lower k` in the table and every value.  (A key test that is case-sensitive, or
    that accepts names outside the table, is a different function: see the examples below.) -/
theorem single_line_known_key_is_metadata (tb : Bool) (fields : List Str) (k v : Str) (hne : k ≠ [])
    (hw : k.all isWord = true) (hv : valOK v = true) (hf : lower k ∈ fields) :
    readMetadata tb fields [k ++ ':' :: ' ' :: v] = ([(lower k, [v])], []) := by
  obtain ⟨b1, b2, b3, v', b4, b5⟩ := key_line_any k v hne hw hv
  have hfix : readMetaFix tb fields [k ++ ':' :: ' ' :: v] = [k ++ ':' :: ' ' :: v] := by
    simp [readMetaFix, isOneLine, takeWhile_colon k _ hw, strip_word k hw, hf]
  simp [readMetadata, hfix, metaSplit, b3, metaLoop, b1, b2, b4, b5, addMeta]

/-- One comment, two shapes: the one-line form `Key: value` and the header form
    (`Key: value`, blank line, body) give the same metadata for a known key in any case. -/
theorem single_line_agrees_with_header (tb : Bool) (fields : List Str) (k v : Str) (body : List Str) (hne : k ≠ [])
    (hw : k.all isWord = true) (hv : valOK v = true) (hf : lower k ∈ fields) :
    (readMetadata tb fields [k ++ ':' :: ' ' :: v]).1 = (metaSplit ((k ++ ':' :: ' ' :: v) :: [] :: body)).1 := by
  obtain ⟨b1, b2, b3, v', b4, b5⟩ := key_line_any k v hne hw hv
  rw [single_line_known_key_is_metadata tb fields k v hne hw hv hf]
  have hb0 : isBlank ([] : Str) = true := rfl
  simp [metaSplit, b3, metaLoop, b1, b2, b4, b5, addMeta, hb0]

/-- Finding C03-oneline-text-with-colon-lost-before-blank-line, as the code is (`tb = false`):
    the empty doc line that the reader emits for a blank line after the comment defeats the
    one-line rule and the comment is swallowed as an unknown key; with the repair it is text. -/
theorem single_line_then_blank_witness :
    readMetadata false Gen.entityFields ["Note: must be positive".toList, []]
        = ([("note".toList, ["must be positive".toList])], []) ∧
    readMetadata true Gen.entityFields ["Note: must be positive".toList, []]
        = ([], ["Note: must be positive".toList, []]) := by
  decide

/-- A comment **without** leading metadata is shown whole: when the first doc line is not blank,
    not a `---`/`...` line and not a `key:` line (`META_RE`: at most three blanks, a word, a
    colon), `read_metadata` — one-line rule included, both variants, any table of settings —
    sets no metadata and hands every line on, the first one included.  No hypothesis on
    `META_MORE_RE`: a first line indented by four or more blanks looks like a continuation
    line, but there is no key to continue, so it ends the scan and is pushed back. -/
theorem comment_without_header_is_body (tb : Bool) (fields : List Str) (l : Str) (rest : List Str)
    (h1 : isBlank l = false) (h2 : metaEndRe l = false) (h3 : metaRe l = none) :
    readMetadata tb fields (l :: rest) = ([], l :: rest) :=
  readMetadata_first_not_meta tb fields l rest h1 h2 h3

/-- The two layouts that start with such a line — a consistently wide-indented comment
    (`!!    text`, which `textwrap.dedent` exists to support) and a comment that starts with an
    indented code block: a first line of `n ≥ 4` blanks followed by a non-blank character is
    never metadata, whatever follows; the comment reaches the converter complete. -/
theorem wide_indented_comment_is_body (tb : Bool) (fields : List Str) (n : Nat) (hn : 4 ≤ n) (c : Char) (cs : Str)
    (hc : isSpace c = false) (rest : List Str) :
    readMetadata tb fields ((List.replicate n ' ' ++ c :: cs) :: rest)
      = ([], (List.replicate n ' ' ++ c :: cs) :: rest) := by
  obtain ⟨h1, h2, h3⟩ := wide_line n hn c cs hc
  exact comment_without_header_is_body tb fields _ rest h1 h2 h3

/-- worked instances on the generated table: a comment starting with a code block and a
    wide-indented paragraph (also one that contains a colon) -/
example :
    readMetadata false Gen.entityFields ["     call foo(x)".toList, ([] : Str), "explanation".toList]
      = ([], ["     call foo(x)".toList, ([] : Str), "explanation".toList]) ∧
    readMetadata false Gen.entityFields ["    wide text".toList, "    more: text".toList]
      = ([], ["    wide text".toList, "    more: text".toList]) := by
  decide

/-- … a wide-indented one-liner with a known key, and — the contrast — the same kind of wide
    line *after* a key, where it is a continuation value -/
example :
    readMetadata false Gen.entityFields ["    author: nobody".toList] = ([], ["    author: nobody".toList]) ∧
    readMetadata false Gen.entityFields ["author: A".toList, "    B".toList, ([] : Str), "    code".toList]
      = ([("author".toList, ["A".toList, "B".toList])], ["    code".toList]) := by
  decide

/-- non-vacuity of the one-line theorems on the generated table: capitalised known key,
    unknown key, and a name that is an attribute but not a field of the settings class -/
example : readMetadata false Gen.entityFields ["Author: Jane".toList] = ([("author".toList, ["Jane".toList])], []) ∧
    readMetadata false Gen.entityFields ["Note: text".toList] = ([], ["Note: text".toList]) ∧
    readMetadata false Gen.entityFields ["update: text".toList] = ([], ["update: text".toList]) := by
  decide

/-- non-vacuity of `metaSplit_header`: a two-key header with a continuation value -/
example : metaSplit (headerLines [("author".toList, ["A B".toList, "C".toList]), ("version".toList, ["1.0".toList])]
            ++ [] :: ["body".toList])
    = ([("author".toList, ["A B".toList, "C".toList]), ("version".toList, ["1.0".toList])], ["body".toList]) := by
  decide


/-! ## Attaching doc lines to entities (`read_docstring`, container loop) -/

/-- A declaration statement (any parser state `s`, any names it declares) followed by the doc
    lines `ds` and then anything (`rest`): the new entities get exactly `ds`, in order, as
    their docstring, every entity that existed before is unchanged, and processing
    continues with `rest`. -/
theorem attach_leaf_docstring (c : Char) (s : ASt) (it : Str) (ns : List Str) (sp : Bool)
    (ds rest : List Str) (hnd : it.take 2 ≠ ['!', c]) (hcl : classify it = .leafAll ns sp) (hne : ns ≠ []) :
    attachFrom [c] s (it :: (ds.map (fun d => '!' :: c :: d) ++ rest)) =
      attachFrom [c] { stack := s.stack, reading := ns.length,
                       ents := s.ents ++ ns.map (fun n => ⟨n, sp, ds, []⟩) } rest := by
  simp only [attachFrom]
  rw [attachStep_stmt c s it hnd, hcl]
  have hr : ns.length > 0 := by cases ns with | nil => exact absurd rfl hne | cons _ _ => simp
  rw [attach_doc_run c ds rest _ hr]
  have hl : (mkEnts ns sp).length = ns.length := by simp [mkEnts]
  simp only
  rw [← hl, modifyLast_append]
  simp [mkEnts, Function.comp_def]

/-- The same for a container statement (module, procedure, type …): it gets exactly the doc
    lines that follow it, and becomes the innermost open container. -/
theorem attach_container_docstring (c : Char) (s : ASt) (it : Str) (n : Str)
    (ds rest : List Str) (hnd : it.take 2 ≠ ['!', c]) (hcl : classify it = .openE n) :
    attachFrom [c] s (it :: (ds.map (fun d => '!' :: c :: d) ++ rest)) =
      attachFrom [c] { stack := s.ents.length :: s.stack, reading := 1,
                       ents := s.ents ++ [⟨n, true, ds, []⟩] } rest := by
  simp only [attachFrom]
  rw [attachStep_stmt c s it hnd, hcl]
  rw [attach_doc_run c ds rest _ (by simp)]
  have hl : (mkEnts [n] true).length = 1 := by simp [mkEnts]
  simp only
  rw [← hl, modifyLast_append]
  simp [mkEnts]

/-- Nobody else's: once an entity's docstring has been read (`reading` only covers entities
    created later), no later item of the file — doc lines of neighbours, stray container
    docs, statements — changes it. -/
theorem attach_docstring_frozen (mark : Str) (items : List Str) (s : ASt) (n : Nat)
    (h : s.reading + n ≤ s.ents.length) :
    ((attachFrom mark s items).ents.take n).map (·.init) = (s.ents.take n).map (·.init) :=
  attach_frozen mark items s n h

/-- non-vacuity / worked instance: two declarations with docs, a stray doc after a plain
    statement goes to the container -/
example : (attach ['!'] ["module m".toList, "!! dm".toList, "integer :: a, b".toList, "!! dab".toList,
                         "real :: c".toList, "x = 1".toList, "!! stray".toList, "end module".toList]).map
            (fun e => (e.name, e.init, e.extra))
    = [("<file>".toList, [], []), ("m".toList, [" dm".toList], [" stray".toList]),
       ("a".toList, [" dab".toList], []), ("b".toList, [" dab".toList], []), ("c".toList, [], [])] := by
  decide


/-! ## Interface blocks with procedure bodies (`FortranInterface._cleanup`,
    `FortranModuleProcedureInterface`) -/

/-- The bookkeeping for interface blocks runs next to the attach model and never changes it:
    every theorem above about `attach` holds unchanged for files that contain `interface` /
    `abstract interface` blocks with procedure bodies. -/
theorem interface_bookkeeping_preserves_attach (mark : Str) (items : List Str) :
    (attachW mark items).a.ents = attach mark items :=
  attachW_ents mark items

/-- The comment of an `interface` / `abstract interface` block documents each interface the
    block declares, complete: when what the block's own `read_metadata` left (`l :: rest`) does
    not start with a line that can be read as metadata, every wrapper — any number of them, in
    both variants of the code — gets exactly that text, and the shared list is what it was;
    running `read_metadata` once more per wrapper loses nothing. -/
theorem interface_wrappers_get_block_comment (wfix tb : Bool) (fields : List Str) (bm : MetaDict) (names : List Str)
    (l : Str) (rest : List Str) (h1 : isBlank l = false) (h2 : metaEndRe l = false) (h3 : metaRe l = none) :
    (wrapFold wfix tb fields bm names (l :: rest)).2 = l :: rest ∧
      (wrapFold wfix tb fields bm names (l :: rest)).1.map (·.1) = names := by
  induction names with
  | nil => exact ⟨rfl, rfl⟩
  | cons n ns ih =>
    cases wfix with
    | true => simpa [wrapFold] using ih
    | false =>
      have hr := readMetadata_first_not_meta tb fields l rest h1 h2 h3
      simp only [wrapFold, Bool.false_eq_true, ↓reduceIte, hr]
      exact ⟨ih.1, by simp [ih.2]⟩

/-- Leading metadata lines of the block's comment set the metadata of each interface it
    declares: with fixes/C03-interface-block-metadata.diff every wrapper carries the block's
    metadata and the text is not searched for metadata a second time (any text). -/
theorem interface_wrappers_get_block_metadata_when_fixed (tb : Bool) (fields : List Str) (bm : MetaDict)
    (names L : List Str) :
    wrapFold true tb fields bm names L = (names.map (fun n => (n, bm)), L) :=
  wrapFold_fixed tb fields bm names L

/-- Finding C03-interface-block-metadata-not-applied, as the code is: the block's comment
    `author: Jane` / blank / `Note: read this` / `text` gives the block the metadata and the
    three… two text lines, but the wrapper of its procedure `f` gets no `author`, and its second
    `read_metadata` swallows the body line `Note: read this` from the list all of them share. -/
theorem interface_wrapper_metadata_witness :
    let c := readMetadata false Gen.entityFields
      ["author: Jane".toList, ([] : Str), "Note: read this".toList, "text".toList]
    c = ([("author".toList, ["Jane".toList])], ["Note: read this".toList, "text".toList]) ∧
    wrapFold false false Gen.entityFields c.1 ["f".toList] c.2
      = ([("f".toList, [("note".toList, ["read this".toList])])], ["text".toList]) ∧
    wrapFold true false Gen.entityFields c.1 ["f".toList] c.2
      = ([("f".toList, [("author".toList, ["Jane".toList])])], ["Note: read this".toList, "text".toList]) :=
  ⟨by decide, by decide, by decide⟩

/-- worked instance: an `abstract interface` block with a comment and two procedure bodies
    (function `f`, subroutine `s`, both documented): registration order and docs — the block's own
    entity is dropped, the wrappers follow the block's contents, functions first -/
example :
    (entDocsW false false Gen.entityFields false (attachW ['!'] ["module m".toList, "abstract interface".toList,
        "!! block".toList, "subroutine s(a)".toList, "!! ds".toList, "integer :: a".toList, "!! da".toList,
        "end subroutine".toList, "function f() result(r)".toList, "!! df".toList, "real :: r".toList,
        "end function".toList, "end interface".toList, "integer :: v".toList, "!! dv".toList,
        "end module".toList])).map (fun e => (e.1, e.2.2))
    = [("<file>".toList, []), ("m".toList, []), ("s".toList, [" ds".toList]), ("a".toList, [" da".toList]),
       ("f".toList, [" df".toList]), ("r".toList, []), ("f".toList, [" block".toList]),
       ("s".toList, [" block".toList]), ("v".toList, [" dv".toList])] := by
  decide +kernel

/-! ## The four doc styles at the reader (worked instance; the general statement is covered by
    the differential correspondence of `readAll` with `FortranReader`, see notes/C03.md) -/

/-- following / preceding `!>` / alt block `!*` / pre-alt block `!|`, with non-default marker
    characters (`doc = ^`, `pre = <`, `alt = ~`, `preAlt = $`): the same items reach the parser -/
example :
    let m : Marks := { doc := ['^'], pre := ['<'], alt := ['~'], preAlt := ['$'] }
    let want := some ["integer :: x".toList, "!^ a".toList, "!^ b".toList]
    (readAll m ["integer :: x".toList, "!^ a".toList, "!^ b".toList]).toOption = want ∧
    (readAll m ["integer :: x !^ a".toList, "  !^ b".toList]).toOption = want ∧
    (readAll m ["!< a".toList, "!< b".toList, "integer :: x".toList]).toOption = want ∧
    (readAll m ["integer :: x".toList, "!~ a".toList, "! b".toList]).toOption = want ∧
    (readAll m ["!$ a".toList, "! b".toList, "integer :: x".toList]).toOption = want := by
  decide

/-! ## Preceding documentation: a `!>` block whose later lines use `!>` or the plain doc marker
    ("In the first line of your preceding documentation, use `!>` rather than the usual `!!`.  This
    can be used on all lines of the preceding documentation if desired, but this is not necessary") -/

/-- The reader on a preceding doc block, for every marker configuration, every indentation and
    every text: a pre-marker line, then any mixture of pre-marker lines, **plain doc-marker
    lines**, ordinary comments and blank lines (`blk`, each line well-formed: the text after
    its `!` cannot be read as one of the other markers), then a statement line `l` (no doc
    comment on it, code part `x :: r`, neither continued nor continuing) — read from any state
    between two logical lines: nothing is emitted before the statement; then the statement(s)
    of `l`, then every doc line of the block exactly once and in order, rewritten to the plain
    doc marker; then the reading of `rest` from a state between logical lines.  In particular
    a plain doc-marker line does not end the block, and whether a later line is written with
    the pre-marker or the doc marker makes no difference (`DLine.docs`). -/
theorem predoc_block_lands_after_statement (m : Marks) (pd : Bool) (ind0 t0 : Str) (blk : List DLine)
    (l : Str) (x : Char) (r : Str) (rest : List Str)
    (h0 : (DLine.pre ind0 t0).wf m) (hb : ∀ b ∈ blk, b.wf m)
    (hn : NoDoc m false l) (hc : codeOf false l = x :: r) (hx : x ≠ '&')
    (hl : (x :: r).getLast? ≠ some '&') (hJ : itemsOf (' ' :: x :: r) ≠ []) :
    readFrom m (fresh pd) ((DLine.pre ind0 t0 :: blk).map (DLine.render m) ++ l :: rest) =
      match readFrom m (fresh true) rest with
      | .error e => .error e
      | .ok more =>
        .ok (itemsOf (' ' :: x :: r) ++ (DLine.pre ind0 t0 :: blk).flatMap (DLine.docs m) ++ more) :=
  readFrom_predoc_block m pd ind0 t0 blk l x r rest h0 hb hn hc hx hl hJ

/-- Reader and parser together: such a block in front of a declaration statement `it` (any
    parser state, any names it declares) becomes the docstring of exactly the entities that
    statement declares — all texts of the block, in order, nothing else — while every entity
    that existed before (in particular the one declared just above the block) is unchanged. -/
theorem predoc_block_documents_next_declaration (c : Char) (m : Marks) (hd : m.doc = [c]) (pd : Bool)
    (ind0 t0 : Str) (blk : List DLine) (l : Str) (x : Char) (r : Str) (rest more : List Str)
    (s : ASt) (it : Str) (ns : List Str) (sp : Bool)
    (h0 : (DLine.pre ind0 t0).wf m) (hb : ∀ b ∈ blk, b.wf m)
    (hn : NoDoc m false l) (hc : codeOf false l = x :: r) (hx : x ≠ '&')
    (hl : (x :: r).getLast? ≠ some '&') (hJ : itemsOf (' ' :: x :: r) = [it])
    (hnd : it.take 2 ≠ ['!', c]) (hcl : classify it = .leafAll ns sp) (hne : ns ≠ [])
    (hrest : readFrom m (fresh true) rest = .ok more) :
    ∃ items, readFrom m (fresh pd) ((DLine.pre ind0 t0 :: blk).map (DLine.render m) ++ l :: rest) = .ok items ∧
      attachFrom [c] s items =
        attachFrom [c] { stack := s.stack, reading := ns.length,
                         ents := s.ents ++ ns.map (fun n => ⟨n, sp, (DLine.pre ind0 t0 :: blk).flatMap DLine.texts, []⟩) }
          more := by
  refine ⟨it :: (((DLine.pre ind0 t0 :: blk).flatMap DLine.texts).map (fun d => '!' :: c :: d) ++ more), ?_, ?_⟩
  · rw [readFrom_predoc_block m pd ind0 t0 blk l x r rest h0 hb hn hc hx hl (by simp [hJ]), hrest, hJ,
      docs_eq_texts m c hd]
    simp
  · exact attach_leaf_docstring c s it ns sp _ more hnd hcl hne

/-- worked instance (non-default markers `doc = ^`, `pre = <`): the Doxygen-like layout
    `!< first` / `!^ continuation`, with an ordinary comment and a blank line inside the block,
    between a documented declaration and the one the block is written for -/
example :
    let m : Marks := { doc := ['^'], pre := ['<'], alt := ['~'], preAlt := ['$'] }
    (readAll m ["integer :: a".toList, "!^ da".toList, "!< b1".toList, "  !^ b2".toList, "! plain".toList, [],
                "!< b3".toList, "!^ b4".toList, "integer :: b".toList]).toOption
      = some ["integer :: a".toList, "!^ da".toList, "integer :: b".toList, "!^ b1".toList, "!^ b2".toList,
              "!^ b3".toList, "!^ b4".toList] := by
  decide

/-- non-vacuity of the two theorems above: the lines of that instance satisfy the hypotheses -/
example :
    let m : Marks := { doc := ['^'], pre := ['<'], alt := ['~'], preAlt := ['$'] }
    (DLine.pre [] " b1".toList).wf m ∧ (DLine.doc "  ".toList " b2".toList).wf m ∧
    (DLine.plain [] " plain".toList).wf m ∧ (DLine.blank []).wf m ∧
    NoDoc m false "integer :: b".toList ∧ codeOf false "integer :: b".toList = "integer :: b".toList ∧
    itemsOf (' ' :: "integer :: b".toList) = ["integer :: b".toList] ∧
    classify "integer :: b".toList = .leafAll ["b".toList] true := by
  simp only [DLine.wf, NoDoc]
  decide

/-! ## Several statements on one source line (`;`) and the order in which buffered doc lines are handed out
    (`FortranReader.__next__`: `pending` first, then `docbuffer`) -/

/-- A source line `<code>!<doc-marker><t>` whose code part (outside comments; closed character
    literals allowed) holds **any number of `;`-separated statements**, read from a state between
    two logical lines, for every marker configuration: every statement of the line is emitted
    first, the inline doc line after the last of them, then the reading of the rest continues from
    a state between logical lines.  So a doc comment at the end of `a; b` follows `b`. -/
theorem inline_doc_lands_after_every_statement_of_its_line (m : Marks) (pd : Bool) (p t : Str) (x : Char)
    (r : Str) (rest : List Str) (hp : Atoms p) (hne : m.doc ≠ [])
    (h0 : firstStripped (p ++ '!' :: (m.doc ++ t)) ≠ some '#')
    (h1 : startsWith (m.doc ++ t) m.pre = false) (h2 : startsWith (m.doc ++ t) m.preAlt = false)
    (h3 : startsWith (m.doc ++ t) m.alt = false)
    (hc : strip p = x :: r) (hx : x ≠ '&') (hl : (x :: r).getLast? ≠ some '&')
    (hJ : itemsOf (' ' :: x :: r) ≠ []) :
    readFrom m (fresh pd) ((p ++ '!' :: (m.doc ++ t)) :: rest) =
      match readFrom m (fresh true) rest with
      | .error e => .error e
      | .ok more => .ok (itemsOf (' ' :: x :: r) ++ ['!' :: (m.doc ++ t)] ++ more) := by
  have hf : feed m (fresh pd) (p ++ '!' :: (m.doc ++ t)) =
      .ok (fresh true, itemsOf (' ' :: x :: r) ++ ['!' :: (m.doc ++ t)]) := by
    have := feed_stmt_inline m [] pd false p t x r hp hne h0 h1 h2 h3 hc hx hl hJ
    simpa [fresh] using this
  rw [readFrom_step m (fresh pd) (fresh true) _ rest _ hf]
  cases readFrom m (fresh true) rest <;> rfl

/-- The "docbuffer ordering" of the property: a preceding block (as in
    `predoc_block_lands_after_statement`), then a statement line that ends in an inline doc comment:
    the statement(s), then the whole preceding block in order, then the inline doc line — the
    entity's documentation is its comment in source order, the preceding lines before the trailing
    ones, whatever the markers are. -/
theorem predoc_block_then_inline_doc_in_source_order (m : Marks) (pd : Bool) (ind0 t0 : Str) (blk : List DLine)
    (p t : Str) (x : Char) (r : Str) (rest : List Str)
    (hw0 : (DLine.pre ind0 t0).wf m) (hb : ∀ b ∈ blk, b.wf m)
    (hp : Atoms p) (hne : m.doc ≠ [])
    (h0 : firstStripped (p ++ '!' :: (m.doc ++ t)) ≠ some '#')
    (h1 : startsWith (m.doc ++ t) m.pre = false) (h2 : startsWith (m.doc ++ t) m.preAlt = false)
    (h3 : startsWith (m.doc ++ t) m.alt = false)
    (hc : strip p = x :: r) (hx : x ≠ '&') (hl : (x :: r).getLast? ≠ some '&')
    (hJ : itemsOf (' ' :: x :: r) ≠ []) :
    readFrom m (fresh pd) ((DLine.pre ind0 t0 :: blk).map (DLine.render m) ++ (p ++ '!' :: (m.doc ++ t)) :: rest) =
      match readFrom m (fresh true) rest with
      | .error e => .error e
      | .ok more =>
        .ok (itemsOf (' ' :: x :: r) ++ (DLine.pre ind0 t0 :: blk).flatMap (DLine.docs m)
              ++ ['!' :: (m.doc ++ t)] ++ more) :=
  readFrom_predoc_block_inline m pd ind0 t0 blk p t x r rest hw0 hb hp hne h0 h1 h2 h3 hc hx hl hJ

/-- Reader and parser together: the line holds the statements `A ++ [it]` (`A` arbitrary, `it` a
    declaration of the names `ns`).  Whatever the statements `A` do to the parser state (`sA`), the
    inline comment becomes the docstring `[t]` of exactly the entities declared by the **last**
    statement; the entities that exist after `A` — those declared by the earlier statements of the
    same line among them — are taken over unchanged. -/
theorem inline_doc_documents_last_statement_of_its_line (c : Char) (m : Marks) (hd : m.doc = [c]) (pd : Bool)
    (p t : Str) (x : Char) (r : Str) (rest more : List Str) (s : ASt) (A : List Str) (it : Str)
    (ns : List Str) (sp : Bool) (hp : Atoms p)
    (h0 : firstStripped (p ++ '!' :: (m.doc ++ t)) ≠ some '#')
    (h1 : startsWith (m.doc ++ t) m.pre = false) (h2 : startsWith (m.doc ++ t) m.preAlt = false)
    (h3 : startsWith (m.doc ++ t) m.alt = false)
    (hc : strip p = x :: r) (hx : x ≠ '&') (hl : (x :: r).getLast? ≠ some '&')
    (hJ : itemsOf (' ' :: x :: r) = A ++ [it])
    (hnd : it.take 2 ≠ ['!', c]) (hcl : classify it = .leafAll ns sp) (hne : ns ≠ [])
    (hrest : readFrom m (fresh true) rest = .ok more) :
    ∃ items, readFrom m (fresh pd) ((p ++ '!' :: (m.doc ++ t)) :: rest) = .ok items ∧
      attachFrom [c] s items =
        attachFrom [c] { stack := (attachFrom [c] s A).stack, reading := ns.length,
                         ents := (attachFrom [c] s A).ents ++ ns.map (fun n => ⟨n, sp, [t], []⟩) } more := by
  refine ⟨A ++ it :: ([t].map (fun d => '!' :: c :: d) ++ more), ?_, ?_⟩
  · rw [inline_doc_lands_after_every_statement_of_its_line m pd p t x r rest hp (by simp [hd]) h0 h1 h2 h3 hc hx hl
      (by simp [hJ]), hrest, hJ, hd]
    simp
  · rw [attachFrom_append]
    exact attach_leaf_docstring c _ it ns sp [t] more hnd hcl hne

/-- The two-declaration case spelled out: `d1; d2 !<doc>t` — the entities of `d1` have an empty
    docstring, the entities of `d2` have `[t]`, every earlier entity is unchanged. -/
theorem inline_doc_after_two_declarations_documents_the_second (c : Char) (m : Marks) (hd : m.doc = [c])
    (pd : Bool) (p t : Str) (x : Char) (r : Str) (rest more : List Str) (s : ASt) (d1 d2 : Str)
    (ns1 ns2 : List Str) (sp1 sp2 : Bool) (hp : Atoms p)
    (h0 : firstStripped (p ++ '!' :: (m.doc ++ t)) ≠ some '#')
    (h1 : startsWith (m.doc ++ t) m.pre = false) (h2 : startsWith (m.doc ++ t) m.preAlt = false)
    (h3 : startsWith (m.doc ++ t) m.alt = false)
    (hc : strip p = x :: r) (hx : x ≠ '&') (hl : (x :: r).getLast? ≠ some '&')
    (hJ : itemsOf (' ' :: x :: r) = [d1, d2])
    (hn1 : d1.take 2 ≠ ['!', c]) (hc1 : classify d1 = .leafAll ns1 sp1)
    (hn2 : d2.take 2 ≠ ['!', c]) (hc2 : classify d2 = .leafAll ns2 sp2) (hne : ns2 ≠ [])
    (hrest : readFrom m (fresh true) rest = .ok more) :
    ∃ items, readFrom m (fresh pd) ((p ++ '!' :: (m.doc ++ t)) :: rest) = .ok items ∧
      attachFrom [c] s items =
        attachFrom [c] { stack := s.stack, reading := ns2.length,
                         ents := s.ents ++ ns1.map (fun n => ⟨n, sp1, [], []⟩)
                                  ++ ns2.map (fun n => ⟨n, sp2, [t], []⟩) } more := by
  obtain ⟨items, hr, ha⟩ := inline_doc_documents_last_statement_of_its_line c m hd pd p t x r rest more s [d1] d2
    ns2 sp2 hp h0 h1 h2 h3 hc hx hl (by simp [hJ]) hn2 hc2 hne hrest
  refine ⟨items, hr, ?_⟩
  rw [ha]
  simp [attachFrom, attachStep_stmt c s d1 hn1, hc1, mkEnts]

/-- worked instance (non-default markers `doc = ^`, `pre = <`): three statements on one line with a
    literal that holds `;` and `!^`, a preceding line for the next declaration, a trailing `;` -/
example :
    let m : Marks := { doc := ['^'], pre := ['<'], alt := ['~'], preAlt := ['$'] }
    ((readAll m ["integer :: a; character(3) :: s = ';!^' ; integer :: b !^ db".toList,
                 "real :: c; real :: d;".toList, "!^ dd".toList]).toOption.map (attach ['^'])).map
        (fun es => es.map (fun e => (e.name, e.init)))
      = some [("<file>".toList, []), ("a".toList, []), ("s".toList, []), ("b".toList, [" db".toList]),
              ("c".toList, []), ("d".toList, [" dd".toList])] := by
  decide

/-- non-vacuity of the four theorems above: the hypotheses hold for `integer :: a; integer :: b !^ db` -/
example :
    let m : Marks := { doc := ['^'], pre := ['<'], alt := ['~'], preAlt := ['$'] }
    Atoms "integer :: a; integer :: b ".toList ∧
    firstStripped ("integer :: a; integer :: b ".toList ++ '!' :: (m.doc ++ " db".toList)) ≠ some '#' ∧
    startsWith (m.doc ++ " db".toList) m.pre = false ∧ startsWith (m.doc ++ " db".toList) m.preAlt = false ∧
    startsWith (m.doc ++ " db".toList) m.alt = false ∧
    strip "integer :: a; integer :: b ".toList = "integer :: a; integer :: b".toList ∧
    itemsOf (' ' :: "integer :: a; integer :: b".toList) = ["integer :: a".toList, "integer :: b".toList] ∧
    classify "integer :: a".toList = .leafAll ["a".toList] true ∧
    classify "integer :: b".toList = .leafAll ["b".toList] true := by
  refine ⟨?_, by decide, by decide, by decide, by decide, by decide, by decide, by decide, by decide⟩
  repeat (first | exact Atoms.nil | refine Atoms.plain _ _ (by decide) (by decide) ?_)


/-! ## Which entities are converted (`_to_be_markdowned`, `markdownable_items`, `FortranType.correlate`,
    `Project.markdown`) -/

/-- The filter that decides which registered entities `Project.markdown` converts looks at no
    attribute that a `correlate` method puts on another object (both lists regenerated from the
    source on every run): what `correlate` does — e.g. the `Inherited from [[base]]` placeholder
    `doc` that `FortranType.correlate` gives the base type's public components — cannot take an
    entity out of the conversion. -/
theorem conversion_filter_disjoint_from_correlate :
    ∀ a ∈ Gen.correlateSetAttrs, a ∉ Gen.markdownSkipAttrs := by decide

/-- Every registered entity that has none of the skip attributes (is not external) ends up
    with the conversion of **its own** `doc_list` as `doc`, at its own position, whatever
    stands before (`A`) and after (`B`) it in the file's registration list and however many
    extending types put an inheritance placeholder on it during `correlate` (`phs`, any
    texts): a placeholder never survives and never keeps the comment out. -/
theorem registered_entity_gets_its_own_doc (fix : Bool) (conv : List Str → List Str) (A B : List CEnt) (e : CEnt)
    (phs : List (List Str)) (hk : ∀ a ∈ Gen.markdownSkipAttrs, a ∉ e.attrs) :
    ((convertAll Gen.markdownSkipAttrs conv (A ++ inheritSteps fix phs e :: B))[A.length]?).map (·.doc)
        = some (some (conv e.docList)) ∧
      A.length ∈ convIdx Gen.markdownSkipAttrs (A ++ inheritSteps fix phs e :: B) := by
  have hs : docAttr ∉ Gen.markdownSkipAttrs := by decide
  obtain ⟨ha, hd⟩ := inheritSteps_attrs_docList fix phs e
  have hkeep : (inheritSteps fix phs e).keeps Gen.markdownSkipAttrs = true :=
    keeps_of_no_skip_attr _ hs _ (by rw [ha]; exact hk)
  refine ⟨?_, ?_⟩
  · rw [convertAll_getElem?]
    simp [hkeep, hd]
  · rw [convIdx, convIdxFrom_mem]
    exact ⟨inheritSteps fix phs e, Nat.zero_le _, by simp, hkeep⟩

/-- Leading metadata lines set that entity's metadata — and it stays set: with
    fixes/C03-inherited-component-metadata.diff no number of extending types changes the
    metadata an entity got from its own comment, and the conversion does not touch it. -/
theorem inherited_component_keeps_metadata_when_fixed (conv : List Str → List Str) (A B : List CEnt) (e : CEnt)
    (phs : List (List Str)) :
    ((convertAll Gen.markdownSkipAttrs conv (A ++ inheritSteps true phs e :: B)).map (·.md))[A.length]?
      = some e.md := by
  rw [convertAll_meta]
  simp [inheritSteps_meta_fixed]

/-- Finding C03-inherited-component-metadata-reset, as the code is: the first extending type
    replaces the metadata of the base type's public component (`author: Jane` from its own
    comment) by empty metadata; the comment text itself is still converted. -/
theorem inherited_component_metadata_reset_witness :
    (convertAll Gen.markdownSkipAttrs id [inheritStep false ["Inherited from [[base]]".toList]
        (CEnt.mk [] ["text of a".toList] none [("author".toList, ["Jane".toList])])]).map (fun e => (e.doc, e.md))
      = [(some ["text of a".toList], [])] ∧
    (convertAll Gen.markdownSkipAttrs id [inheritStep true ["Inherited from [[base]]".toList]
        (CEnt.mk [] ["text of a".toList] none [("author".toList, ["Jane".toList])])]).map (fun e => (e.doc, e.md))
      = [(some ["text of a".toList], [("author".toList, ["Jane".toList])])] :=
  ⟨by decide, by decide⟩

/-- Finding C03-inherited-generic-binding-undocumented, as the code is: the copy of the base
    type's generic binding `g` that the extending type lists is made before the conversion and
    registered nowhere, so it has no `doc` although the binding itself (registered) gets
    `doc g`; with fixes/C03-inherited-generic-binding-doc.diff the copy is converted as well. -/
theorem inherited_generic_copy_undocumented_witness :
    (convertAll Gen.markdownSkipAttrs id (registerCopy false [CEnt.mk [] ["doc g".toList] none []]
        (CEnt.mk [] ["doc g".toList] none []))).map (·.doc) = [some ["doc g".toList]] ∧
    copyDoc false Gen.markdownSkipAttrs id [CEnt.mk [] ["doc g".toList] none []] (CEnt.mk [] ["doc g".toList] none [])
      = none ∧
    copyDoc true Gen.markdownSkipAttrs id [CEnt.mk [] ["doc g".toList] none []] (CEnt.mk [] ["doc g".toList] none [])
      = some ["doc g".toList] :=
  ⟨by decide, by decide, by decide⟩

/-- non-vacuity / contrast: the model follows the filter it is given — with `doc` among the
    skip attributes the base type's component keeps the placeholder and loses its comment -/
example :
    let e : CEnt := ⟨[], ["words".toList], none, []⟩
    (convertAll ["doc".toList] id [inheritStep false ["Inherited from [[base]]".toList] e]).map (·.doc)
        = [some ["Inherited from [[base]]".toList]] ∧
    (convertAll Gen.markdownSkipAttrs id [inheritStep false ["Inherited from [[base]]".toList] e]).map (·.doc)
        = [some ["words".toList]] ∧
    "doc".toList ∈ Gen.correlateSetAttrs := by
  decide

/-! ## One Markdown instance for all entities (`Project.markdown`, `FortranBase.markdown`) -/

/-- Neighbours' documentation never becomes part of an entity's: whatever the shared Markdown
    instance held before (`st`) and however many comments with whatever definitions were
    converted earlier, the link targets and the footnotes rendered for each comment are
    exactly those of that comment converted alone by an unused instance — because `reset`
    precedes every `convert`.  Holds in both variants of the abbreviation handling. -/
theorem markdown_links_footnotes_isolated (fix : Bool) (st : MdState) (docs : List (List Str)) :
    (markdownAll fix st docs).map (fun o => (o.links, o.foots)) =
      docs.map (fun d => ((mdAlone d).links, (mdAlone d).foots)) := by
  induction docs generalizing st with
  | nil => rfl
  | cons d ds ih =>
    obtain ⟨h1, h2⟩ := mdConvert_reset_links_foots fix st d
    simp only [markdownAll, List.map_cons, h1, h2, ih]

/-- With `reset` also removing the registered abbreviation patterns
    (fixes/C03-abbr-reset.diff) the whole table-dependent output of every comment is that of
    the comment alone. -/
theorem markdown_isolated_when_abbr_reset (st : MdState) (docs : List (List Str)) :
    markdownAll true st docs = docs.map mdAlone := by
  induction docs generalizing st with
  | nil => rfl
  | cons d ds ih => simp only [markdownAll, List.map_cons, mdConvert_reset_fixed, ih]

/-- Finding C03-abbreviation-leaks-to-later-entities, as the code is: the second comment only
    mentions `ABX`, and gets the title words of the first comment. -/
theorem markdown_abbr_leak_witness :
    (markdownAll false mdEmpty [["ABX one".toList, [], "*[ABX]: words of a".toList], ["ABX two".toList]]).map (·.titles)
      = [["words of a".toList], ["words of a".toList]] ∧
    (mdAlone ["ABX two".toList]).titles = [] := by
  decide

/-- non-vacuity: isolation is a property of the loop (the `reset`), not of `convert` — an
    instance that still holds another comment's footnote and link definition renders them -/
example : (mdConvert ⟨[("r1".toList, "http://x/other".toList)], [("1".toList, "other words".toList)], []⟩
            ["see [this][R1]".toList]).2
    = ⟨["http://x/other".toList], ["other words".toList], []⟩ := by decide

/-- non-vacuity: own definitions are used, undefined labels stay text -/
example : mdAlone ["a[^1] [b][r1] [c][r2] ABX".toList, [], "[^1]: foot words".toList, [],
                   "[r1]: http://x/u1".toList, "*[ABX]: title words".toList]
    = ⟨["http://x/u1".toList], ["foot words".toList], ["title words".toList]⟩ := by decide

/-! ## Text of character literals is never documentation (`_contains_unterminated_string`, `in_quote`) -/

/-- When is the statement collected so far inside a character literal: cut it into closed literals - each
    runs from a quote character to the next occurrence of the *same* character, whatever lies between, the
    other quote character in particular - and other characters (`Lits P`).  If nothing is left over, it is
    not inside a literal ... -/
theorem closed_literals_are_not_open (P : Str) (h : Lits P) : unterminated P = false :=
  unterminated_lits P h

/-- ... and if a quote character without a partner follows, it is - however many quote characters of
    either kind `P` and `body` contain (the counts of `'` and `"` may both be even, as in
    `'say "' // "hello`). -/
theorem open_literal_after_closed_ones (P : Str) (q : Char) (body : Str) (h : Lits P)
    (hq : isQuote q = true) (hb : q ∉ body) : unterminated (P ++ q :: body) = true :=
  unterminated_lits_open P q body h hq hb

/-- **A `!` + marker inside a literal that is continued on the next line is text, for every marker
    configuration.**  First physical line `l0`: no doc comment on it, code part `x r &` where `x r` is closed
    literals and other text `P` followed by a literal opened with `q` and not closed.  Second line `ln`:
    ANY text (not a preprocessor line) whose stripped form is `& b` - `b` may contain `!` followed by the doc
    marker, the pre-marker, either alternate marker, or nothing.  Read between two logical lines, the two
    lines give the statement(s) of the joined text `x r b` and nothing else: no part of `ln` becomes a doc
    item, and the reader is between logical lines again for `rest`. -/
theorem continued_literal_text_is_not_documentation (m : Marks) (l0 : Str) (x : Char) (r P : Str) (q : Char)
    (body ln b : Str) (rest : List Str)
    (h0 : NoDoc m false l0) (hc0 : codeOf false l0 = x :: r ++ ['&']) (hx : x ≠ '&')
    (hP : x :: r = P ++ q :: body) (hl : Lits P) (hq : isQuote q = true) (hbq : q ∉ body)
    (hfirst : firstStripped ln ≠ some '#') (hln : strip ln = '&' :: b)
    (hb : isBlank b = false) (hlast : b.getLast? ≠ some '&')
    (hJ : itemsOf (' ' :: x :: r ++ b) ≠ []) :
    readFrom m (qs [] false) (l0 :: ln :: rest) =
      match readFrom m (qs [] false) rest with
      | .error e => .error e
      | .ok more => .ok (itemsOf (' ' :: x :: r ++ b) ++ more) :=
  readFrom_open_literal m l0 x r P q body ln b rest h0 hc0 hx hP hl hq hbq hfirst hln hb hlast hJ

/-- Reader and parser together: a declaration whose literal is continued like that, followed by whatever
    reads as the doc lines `ds` and then `more`: the entities it declares get exactly `ds` - no word of the
    literal - and every entity that existed before is unchanged. -/
theorem continued_literal_declaration_keeps_its_docstring (c : Char) (m : Marks) (l0 : Str) (x : Char)
    (r P : Str) (q : Char) (body ln b : Str) (rest ds more : List Str) (s : ASt) (it : Str) (ns : List Str)
    (sp : Bool)
    (h0 : NoDoc m false l0) (hc0 : codeOf false l0 = x :: r ++ ['&']) (hx : x ≠ '&')
    (hP : x :: r = P ++ q :: body) (hl : Lits P) (hq : isQuote q = true) (hbq : q ∉ body)
    (hfirst : firstStripped ln ≠ some '#') (hln : strip ln = '&' :: b)
    (hb : isBlank b = false) (hlast : b.getLast? ≠ some '&')
    (hJ : itemsOf (' ' :: x :: r ++ b) = [it])
    (hnd : it.take 2 ≠ ['!', c]) (hcl : classify it = .leafAll ns sp) (hne : ns ≠ [])
    (hrest : readFrom m (qs [] false) rest = .ok (ds.map (fun d => '!' :: c :: d) ++ more)) :
    ∃ items, readFrom m (qs [] false) (l0 :: ln :: rest) = .ok items ∧
      attachFrom [c] s items =
        attachFrom [c] { stack := s.stack, reading := ns.length,
                         ents := s.ents ++ ns.map (fun n => ⟨n, sp, ds, []⟩) } more := by
  refine ⟨it :: (ds.map (fun d => '!' :: c :: d) ++ more), ?_, ?_⟩
  · rw [readFrom_open_literal m l0 x r P q body ln b rest h0 hc0 hx hP hl hq hbq hfirst hln hb hlast
      (by rw [hJ]; simp), hrest, hJ]
    rfl
  · exact attach_leaf_docstring c s it ns sp ds more hnd hcl hne

/-- worked instance (non-default markers `doc = ^`, `pre = <`, `alt = ~`, `preAlt = $`): both quote counts
    of the first line are even, its last literal is open; the continuation line holds `!^`, `!<`, `!~`,
    `!$` and a plain `!` - all literal text; the declaration gets its own comment only -/
example :
    let m : Marks := { doc := ['^'], pre := ['<'], alt := ['~'], preAlt := ['$'] }
    (match readAll m ["character(len=*), parameter :: g = 'say \"' // \"hello &".toList,
                      "     &world !^ zulu !< a !~ b !$ c ! d\"".toList, "  !^ alpha bravo".toList] with
     | .ok items => (attach ['^'] items).map (fun e => (e.name, e.init))
     | .error _ => [])
      = [("<file>".toList, []), ("g".toList, [" alpha bravo".toList])] := by
  decide

/-- non-vacuity of the two theorems above: the lines of that instance satisfy the hypotheses -/
example :
    let m : Marks := { doc := ['^'], pre := ['<'], alt := ['~'], preAlt := ['$'] }
    let l0 := "g = 'say \"' // \"hello &".toList
    NoDoc m false l0 ∧ codeOf false l0 = "g = 'say \"' // \"hello ".toList ++ ['&'] ∧
    Lits "g = 'say \"' // ".toList ∧ '"' ∉ "hello ".toList ∧
    strip "   &world !^ zulu\"".toList = '&' :: "world !^ zulu\"".toList ∧
    classify "g = 'say \"' // \"hello world !^ zulu\"".toList = .other ∧
    classify "character(len=3) :: g = 'a, h :: b', k = \"x => (\"".toList = .leafAll ["g".toList, "k".toList] true := by
  refine ⟨by simp only [NoDoc]; decide, by decide, ?_, by decide, by decide, by decide, by decide⟩
  exact .plain _ _ (by decide) (.plain _ _ (by decide) (.plain _ _ (by decide) (.plain _ _ (by decide)
    (.quoted '\'' "say \"".toList " // ".toList (by decide) (by decide)
      (.plain _ _ (by decide) (.plain _ _ (by decide) (.plain _ _ (by decide) (.plain _ _ (by decide) .nil))))))))


/-! ## Included files are read under the project's marker rules (`FortranReader.include`) -/

/-- The nested reader that `include()` constructs for an included file gets the enclosing reader's doc
    marker, pre-marker, alternate marker and alternate pre-marker, each in its own place (`Gen.includeMarkSrc`
    is regenerated from the code on every run by probing the constructor call). -/
theorem included_file_read_with_same_markers (m : Marks) : IncMarks.nestedMarks Gen.includeMarkSrc m = m := by
  cases m; rfl

/-- Hence reading a source file through any nesting of `include` lines is the reading in which every file
    is read under the one marker configuration (C02's `Include.readFS`): every statement about how doc
    comments are read - the four styles, the marker substitution, the hand-over order of preceding blocks -
    holds inside included files as it does in the file that includes them. -/
theorem include_reads_every_file_under_the_same_rules (c : Include.Cfg) (fs : Include.FS) (d : Nat) (m : Marks)
    (lines : List Str) :
    IncMarks.readFSM Gen.includeMarkSrc c fs d m lines = Include.readFS c m fs d lines :=
  IncMarks.readFSM_eq_readFS Gen.includeMarkSrc included_file_read_with_same_markers c fs d m lines

/-- what goes wrong when one marker is not handed over (the alternate pre-marker left at the constructor's
    default, "switched off"): the `!$` block in the included file is no documentation any more - the entity it
    was written for gets nothing -/
theorem include_marker_not_handed_over_witness :
    let m : Marks := { doc := ['^'], pre := ['<'], alt := ['~'], preAlt := ['$'] }
    let fs : Include.FS := [("p.inc".toList, ["!$ hotel".toList, "! india".toList, "integer :: v".toList])]
    let main := ["module mm".toList, "include 'p.inc'".toList, "end module".toList]
    let docs := fun tbl => match IncMarks.readFSM tbl Include.readerCfg fs 3 m main with
      | .ok items => (attach ['^'] items).map (fun e => (e.name, e.init))
      | .error _ => []
    docs Gen.includeMarkSrc = [("<file>".toList, []), ("mm".toList, []), ("v".toList, [" hotel".toList, " india".toList])] ∧
    docs [.inl 0, .inl 1, .inl 2, .inr []] = [("<file>".toList, []), ("mm".toList, []), ("v".toList, [])] := by
  decide

/-- worked instance: an included file (included from an included file) with all four styles under
    non-default markers; every entity gets its own comment (the blank line after the `!~` block gives
    `c` an empty doc line, as it does outside included files) -/
example :
    let m : Marks := { doc := ['^'], pre := ['<'], alt := ['~'], preAlt := ['$'] }
    let fs : Include.FS :=
      [("a.inc".toList, ["integer :: a".toList, "!^ da".toList, "include \"b.inc\"".toList]),
       ("b.inc".toList, ["!< db".toList, "integer :: b".toList, "integer :: c".toList, "!~ dc1".toList, "! dc2".toList,
                         "".toList, "!$ dd1".toList, "! dd2".toList, "integer :: d".toList])]
    (match IncMarks.readFSM Gen.includeMarkSrc Include.readerCfg fs 4 m
              ["module mm".toList, "INCLUDE 'a.inc'".toList, "end module".toList] with
     | .ok items => (attach ['^'] items).map (fun e => (e.name, e.init))
     | .error _ => [])
      = [("<file>".toList, []), ("mm".toList, []), ("a".toList, [" da".toList]), ("b".toList, [" db".toList]),
         ("c".toList, [" dc1".toList, " dc2".toList, []]), ("d".toList, [" dd1".toList, " dd2".toList])] := by
  decide

/-! ## From the doc lines to what is shown: `FortranBase.markdown` (dedent, conversion, summary) -/

/-- `textwrap.dedent`, which `FortranBase.markdown` applies to the joined doc lines before the
    conversion, keeps every word exactly once and in order - for every comment, whatever its
    indentation (common margin of blanks and tabs, white-space-only lines, empty lines). -/
theorem dedent_keeps_every_word (ls : List Str) : W (dedent ls) = W ls := dedent_words ls

/-- What `PARA_CAPTURE_RE.search` returns is a piece of the entity's own rendered documentation:
    `doc = pre ++ para ++ post`, `para` is `<p>` … `</p>` (any letter case), it starts at the first
    `<p>` of the documentation and ends at the first `</p>` behind it - never reaching into a later
    paragraph, never text from anywhere else. -/
theorem summary_paragraph_is_first_paragraph_of_own_doc (doc pre para post : Str)
    (h : paraCapture doc = some (pre, para, post)) :
    doc = pre ++ para ++ post ∧
    ∃ o body c, para = o ++ body ++ c ∧ lower o = pOpen ∧ lower c = pClose ∧
      (∀ k, k < pre.length → startsWithCI (doc.drop k) pOpen = false) ∧
      (∀ k, k < body.length → startsWithCI ((body ++ c ++ post).drop k) pClose = false) :=
  paraCapture_spec doc pre para post h

/-- Without a `summary:` metadata the summary (before the link) is a contiguous part of the entity's
    own rendered documentation, for every documentation and with or without URL: no word of it comes
    from anywhere else, none is duplicated or reordered. -/
theorem summary_is_part_of_own_doc (doc : Str) (url : Option Str) :
    summaryCore doc none url <:+: doc := by
  unfold summaryCore summaryCoreV
  cases h : paraCapture doc with
  | none => exact ⟨[], doc, by simp⟩
  | some r =>
    obtain ⟨pre, para, post⟩ := r
    have hd := (paraCapture_spec doc pre para post h).1
    cases url with
    | none => exact ⟨[], [], by simp⟩
    | some u => exact ⟨pre, post, by simp [hd]⟩

/-- An entity that has no place of its own in the output (`get_url()` is `None`, e.g. a derived type
    local to a procedure) shows its whole documentation as summary, unchanged and without a link -
    provided the documentation has a paragraph (see the `_witness` below). -/
theorem summary_without_url_is_whole_doc_partial (doc : Str) (h : paraCapture doc ≠ none) :
    summaryOf doc none none = doc := by
  unfold summaryOf summaryOfV summaryCoreV
  cases h' : paraCapture doc with
  | none => exact absurd h' h
  | some r => obtain ⟨pre, para, post⟩ := r; rfl

/-- With fixes/C03-summary-without-paragraph.diff the same holds for every documentation. -/
theorem summary_without_url_is_whole_doc_when_fixed (doc : Str) : summaryOfV true doc none none = doc := by
  unfold summaryOfV summaryCoreV
  cases h' : paraCapture doc with
  | none => rfl
  | some r => obtain ⟨pre, para, post⟩ := r; rfl

/-- As the code is: documentation without any paragraph (only a list, only a code block) of an
    entity without URL gives the empty summary - nothing of the comment is in it. -/
theorem summary_without_url_and_paragraph_witness :
    summaryOf "<ul>\n<li>t1q0 t1q1</li>\n</ul>".toList none none = [] := by decide

/-- A shortened summary always carries the link to the place where the complete documentation is,
    and a complete one never does: for every documentation, URL and `summary:` value the summary is
    the core followed by the "Read more" link (text probed from the code, `Gen.readMorePre/Suf`)
    exactly when the core differs from the whole documentation (blanks at the ends ignored). -/
theorem shortened_summary_links_to_full_documentation (doc u : Str) (ms : Option Str) :
    summaryOf doc ms (some u) =
      summaryCore doc ms (some u) ++
        (if strip (summaryCore doc ms (some u)) = strip doc then [] else Gen.readMorePre ++ u ++ Gen.readMoreSuf) := by
  unfold summaryOf summaryOfV
  by_cases h : strip (summaryCore doc ms (some u)) = strip doc
  · simp [summaryCore] at h; simp [h, summaryCore]
  · simp [summaryCore] at h; simp [h, readMore, summaryCore]

/-- A documentation that is one paragraph is its own summary: complete, and without link - whether
    the entity has a URL or not. -/
theorem single_paragraph_doc_is_its_own_summary (body : Str) (hb : '<' ∉ body) (url : Option Str) :
    summaryOf (pOpen ++ body ++ pClose) none url = pOpen ++ body ++ pClose := by
  unfold summaryOf summaryOfV summaryCoreV
  rw [paraCapture_single body hb]
  cases url <;> simp

/-- The `summary:` metadata of the comment, when set, is what is shown (converted), whatever the
    body says; the paragraph rule does not apply. -/
theorem summary_metadata_is_shown (doc s : Str) (url : Option Str) : summaryCore doc (some s) url = s := rfl

/-- non-vacuity / worked instances on the probed link text: a two-paragraph documentation with URL is
    cut after the first paragraph (upper-case tags, a line break inside the paragraph) and linked;
    without URL it is shown whole; an unclosed first `<p>` gives no paragraph at all -/
example :
    summaryOf "<ul><li>x</li></ul>\n<P>t1q0\nt1q1</P>\n<p>t1q2</p>".toList none (some "proc/s.html".toList)
      = "<P>t1q0\nt1q1</P><a href=\"../proc/s.html\" class=\"pull-right\"><emph>Read more&hellip;</emph></a>".toList ∧
    summaryOf "<p>t1q0</p>\n<p>t1q2</p>".toList none none = "<p>t1q0</p>\n<p>t1q2</p>".toList ∧
    paraCapture "<p>t1q0 <p>t1q1".toList = none ∧
    paraCapture "<p>a</p>".toList ≠ none := by decide

end Ford.C03
