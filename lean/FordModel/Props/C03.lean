/-
  C03 — each doc comment lands on its entity, complete, once and in order.
-/
import FordModel.Admonition
import FordModel.Meta
import FordModel.Attach
namespace Ford.C03
open Ford

/-- placeholder -/
theorem insertAt_length (l : List Str) (i : Nat) (x : Str) : (insertAt l i x).length = l.length + 1 := by
  simp [insertAt]; omega

end Ford.C03
