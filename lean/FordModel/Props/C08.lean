/-
  C08 — recorded calls are exactly the user procedures a unit invokes.
  Property theorems only; the model is FordModel/Calls.lean (instantiated with the generated
  tables in CallsTable.lean), the specification side FordModel/Spec/Calls.lean, helper lemmas
  FordModel/Lemmas/Calls.lean.
-/
import FordModel.CallsTable
import FordModel.Spec.Calls
import FordModel.Lemmas.Calls
import FordModel.CallsLine
import FordModel.Spec.CallsLine
import FordModel.Lemmas.CallsLine
import FordModel.CallsScope
import FordModel.Lemmas.CallsScope
import FordModel.Spec.CallsNames
import FordModel.Lemmas.ReaderSplit
import FordModel.Lemmas.CallsChain
import FordModel.FixedSpec
import FordModel.Lemmas.Fixed
import FordModel.Lemmas.CallsFixed
namespace Ford.C08
open Ford Ford.Calls Ford.CallsSpec

/-- **Depth lemma (nested inside argument lists / headers).**  For every balanced statement
    text (any nesting depth, any length) `strip_paren(text, d)` is exactly what the
    specification `piecesAt` says a scan of depth `d` sees: at depth 0 the text with the
    content of every parenthesis group removed; at depth `k+1` one piece `(`…`)` per group
    nested `k+1` deep, in textual order, again with inner contents removed.  Hence every
    identifier followed by `(` at nesting depth `d` appears, followed by `()`, in exactly one
    piece of depth `d`, and nothing from another depth does. -/
theorem strip_paren_depth (t : PTree) (h : t.WF) (d : Nat) :
    stripParen t.render d = t.piecesAt d :=
  stripParen_render t h d

/-- **Each recorded once.**  Whatever the statements of the unit are, no two recorded chains
    end in the same name. -/
theorem recorded_once (lines : List Str) : ((recorded lines).map lastOf).Nodup :=
  (runUnit_inv _ _ _ lines).1

/-- **Intrinsics and keywords are never recorded** (over the *generated* INTRINSICS table). -/
theorem intrinsics_never_recorded (lines : List Str) :
    ∀ c ∈ recorded lines, lastOf c ∉ intr :=
  (runUnit_inv _ _ _ lines).2

/-- Keywords that are followed by a parenthesis in executable statements (and therefore look
    like references to `CALL_RE`) are all in the generated INTRINSICS table, so by
    `intrinsics_never_recorded` none of them is ever recorded. -/
theorem keywords_filtered_partial :
    ∀ k ∈ ([chars! "if", chars! "where", chars! "case", chars! "while", chars! "concurrent", chars! "forall",
           chars! "allocate", chars! "deallocate", chars! "write", chars! "read", chars! "open", chars! "close",
           chars! "inquire", chars! "rewind", chars! "backspace", chars! "flush", chars! "wait", chars! "nullify",
           chars! "associate", chars! "is", chars! "type", chars! "class", chars! "stop", chars! "print",
           chars! "character", chars! "real", chars! "integer", chars! "logical", chars! "complex", chars! "dimension",
           chars! "select", chars! "rank", chars! "critical", chars! "lock", chars! "unlock", chars! "elseif",
           chars! "result", chars! "len", chars! "kind", chars! "format", chars! "call", chars! "then",
           chars! "do", chars! "else"] : List Str),
      k ∈ Generated.C08.intrinsics := by decide +kernel

/-- … but the image-control keyword `images` is not (the table lists the two-word entry
    `sync images`), and `sync images (n)` is recorded as a call to `images`
    (finding C08-sync-images-keyword-recorded). -/
theorem sync_images_witness :
    chars! "images" ∉ Generated.C08.intrinsics ∧ recordedOf ["sync images (n)"] = [["images"]] := by
  decide +kernel

/-- **A statement adds exactly the scanner's finds that are not filtered.**  After
    `_add_procedure_calls` a name ends a recorded chain iff it did before, or it is the last
    element of one of the chains found in the statement and is not an intrinsic. -/
theorem statement_records_iff (asc : Assocs) (line : Str) (calls : List Chain) (l : Str) :
    l ∈ (addProcedureCalls intr asc line calls).map lastOf ↔
      l ∈ calls.map lastOf ∨
        (l ∉ intr ∧ ∃ g ∈ chainStrings line, lastOf (substHead asc (chainOf g)) = l) :=
  mem_addChains_lasts _ _ _ _ _

/-- **Nothing recorded is lost or reordered** by later statements: the list after a statement
    extends the list before it. -/
theorem recorded_stable (s : St) (raw : Str) :
    s.calls <+: (step Generated.C08.guards Generated.C08.cascade intr s raw).calls :=
  step_prefix _ _ _ s raw

/-- **FORMAT statements are never scanned**, whatever their items look like: the generated
    cascade lists FORMAT_RE before the CALL branch.  (`guardTest guards "FORMAT_RE"` is the
    boolean `FORMAT_RE.match(line)` of the *generated* parse tree of the regex.) -/
theorem format_never_scanned (line : Str) (bl : Int)
    (h : Rx.guardTest Generated.C08.guards "FORMAT_RE" line = true) :
    gate Generated.C08.guards Generated.C08.cascade line bl ≠ .scan :=
  gate_not_scan _ _ "FORMAT_RE" "" line bl (by decide +kernel) (by simp [branchTakes, h])

/-- **Computed / arithmetic GOTO statements are never scanned.** -/
theorem arith_goto_never_scanned (line : Str) (bl : Int)
    (h : Rx.guardTest Generated.C08.guards "ARITH_GOTO_RE" line = true) :
    gate Generated.C08.guards Generated.C08.cascade line bl ≠ .scan :=
  gate_not_scan _ _ "ARITH_GOTO_RE" "" line bl (by decide +kernel) (by simp [branchTakes, h])

/-- **A FORMAT statement records nothing - by its shape, not by a recogniser.**  Every
    statement `label blanks FORMAT blanks ( items ) …` (keyword in any case, any items: repeat
    groups `3(f8.2)`, `f(2)`, masked literals) is matched by the regex *generated from the
    source* and decided by a branch listed before both the ASSOCIATE and the CALL branch of the
    generated cascade, so the recorded list after the statement is the list before it.
    A change of FORMAT_RE (or of the order of the cascade) that lets such a statement through
    makes this theorem fail. -/
theorem format_statement_records_nothing (s : St) (raw lab ws1 kw ws2 items rest : Str)
    (hlab : lab ≠ []) (hd : ∀ c ∈ lab, isDigit c = true)
    (h1 : ws1 ≠ []) (hw1 : ∀ c ∈ ws1, isSpace c = true)
    (hkw : lower kw = ['f', 'o', 'r', 'm', 'a', 't'])
    (h2 : ws2 ≠ []) (hw2 : ∀ c ∈ ws2, isSpace c = true)
    (hit : ∀ c ∈ items, c ≠ '\n')
    (hraw : maskQuotes raw = lab ++ (ws1 ++ (kw ++ (ws2 ++ '(' :: (items ++ ')' :: rest))))) :
    (step Generated.C08.guards Generated.C08.cascade intr s raw).calls = s.calls := by
  have ht : branchTakes Generated.C08.guards "FORMAT_RE" "" (maskQuotes raw) s.bl = true := by
    simp [branchTakes, hraw, formatGuard_takes lab ws1 kw ws2 items rest hlab hd h1 hw1 hkw h2 hw2 hit]
  obtain ⟨n, hn, hg⟩ := gate_of_precedes Generated.C08.guards ["ASSOCIATE_RE", "CALL_RE|SUBCALL_RE"]
    Generated.C08.cascade "FORMAT_RE" "" (maskQuotes raw) s.bl (by decide +kernel) ht
  have hq := branchAct_quiet n (maskQuotes raw) s.bl (by simp at hn; exact hn.2) (by simp at hn; exact hn.1)
  exact step_calls_eq _ _ _ s raw (hg ▸ hq.1) (fun it => hg ▸ hq.2 it)

/-- **A computed GO TO is never scanned wherever it stands in the statement** - at the start,
    behind a statement label, or as the action statement of a logical IF
    (`pre` = `10 if (f(x) > 0) `): any text, `go`, blanks (or none), `to`, blanks (or none),
    `(` label list `)`, any text.  Stated over the regex *and the call-site method* generated
    from the source: anchoring ARITH_GOTO_RE (or replacing `.search` by `.match`) makes this
    theorem fail.  Consequently the words `to (10, 20)` are never offered to CALL_RE. -/
theorem computed_goto_anywhere_never_scanned (pre go ws1 to_ ws2 labels rest : Str) (bl : Int)
    (hgo : lower go = ['g', 'o']) (hw1 : ∀ c ∈ ws1, isSpace c = true)
    (hto : lower to_ = ['t', 'o']) (hw2 : ∀ c ∈ ws2, isSpace c = true)
    (hne : labels ≠ []) (hl : ∀ c ∈ labels, isDigit c = true ∨ c = ',' ∨ isSpace c = true) :
    gate Generated.C08.guards Generated.C08.cascade
      (pre ++ (go ++ (ws1 ++ (to_ ++ (ws2 ++ '(' :: (labels ++ ')' :: rest)))))) bl ≠ .scan :=
  arith_goto_never_scanned _ bl (arithGotoGuard_takes pre go ws1 to_ ws2 labels rest hgo hw1 hto hw2 hne hl)

/-- … and such a statement **records nothing** (the recorded list is unchanged), provided it
    is not an ASSOCIATE statement (the ASSOCIATE branch precedes the GOTO branch in the
    cascade and does scan its header; no statement is both). -/
theorem computed_goto_statement_records_nothing_partial (s : St) (raw pre go ws1 to_ ws2 labels rest : Str)
    (hgo : lower go = ['g', 'o']) (hw1 : ∀ c ∈ ws1, isSpace c = true)
    (hto : lower to_ = ['t', 'o']) (hw2 : ∀ c ∈ ws2, isSpace c = true)
    (hne : labels ≠ []) (hl : ∀ c ∈ labels, isDigit c = true ∨ c = ',' ∨ isSpace c = true)
    (hraw : maskQuotes raw = pre ++ (go ++ (ws1 ++ (to_ ++ (ws2 ++ '(' :: (labels ++ ')' :: rest))))))
    (hassoc : associateRe (maskQuotes raw) = none) :
    (step Generated.C08.guards Generated.C08.cascade intr s raw).calls = s.calls := by
  refine step_calls_eq _ _ _ s raw ?_ ?_
  · rw [hraw]
    exact computed_goto_anywhere_never_scanned pre go ws1 to_ ws2 labels rest s.bl hgo hw1 hto hw2 hne hl
  · intro items hg
    have := gate_assoc _ _ _ _ _ hg
    rw [hassoc] at this
    exact absurd this (by simp)

/-- Non-vacuity: the logical-IF form and the labelled form, over the generated tables. -/
example : recordedOf ["if (fa(1) > 0) go to (10, 20), i", "10 GOTO(10,20) fb(2)", "x = fc(3)"] = [["fc"]] := by
  decide +kernel

/-- `format(` written without a blank: when FORMAT_RE does not match it (the regex of the
    source demands `\s+` before the parenthesis) the statement is scanned and the repeat count
    is recorded as a call to `3` (finding C08-format-without-blank-scanned); when it does
    (candidate repair `\s*`), and always with a blank, nothing is recorded. -/
theorem format_without_blank_witness :
    recordedOf ["10 format(3(f8.2, 1x), a)"]
        = (if Rx.guardTest Generated.C08.guards "FORMAT_RE" "10 format(3(f8.2, 1x), a)".toList then [] else [["3"]])
      ∧ recordedOf ["10 format (3(f8.2, 1x), a)"] = [] := by
  decide +kernel

/-- **Declarations are never scanned** — outside BLOCK constructs (`blocklevel == 0`): type
    declaration statements, attribute statements and USE statements are taken by earlier
    branches of the generated cascade. -/
theorem declarations_never_scanned_partial (line : Str)
    (h : variableRe line = true ∨ attribRe line = true ∨ useRe line = true) :
    gate Generated.C08.guards Generated.C08.cascade line 0 ≠ .scan := by
  rcases h with h | h | h
  · exact gate_not_scan _ _ "VARIABLE_RE" "blocklevel0" line 0 (by decide +kernel) (by simp [branchTakes, h])
  · exact gate_not_scan _ _ "ATTRIB_RE" "blocklevel0" line 0 (by decide +kernel) (by simp [branchTakes, h])
  · exact gate_not_scan _ _ "USE_RE" "" line 0 (by decide +kernel) (by simp [branchTakes, h])

/-- **COMMON statements are never scanned**, at any block level: an array specification in
    `common /blk/ a(100)` is no reference (the generated cascade lists COMMON_RE, unguarded,
    before the CALL branch). -/
theorem common_statement_never_scanned (line : Str) (bl : Int) (h : commonRe line = true) :
    gate Generated.C08.guards Generated.C08.cascade line bl ≠ .scan :=
  gate_not_scan _ _ "COMMON_RE" "" line bl (by decide +kernel) (by simp [branchTakes, h])

example : recordedOf ["common /blk/ w2(10,10), c2", "COMMON zz(3)", "x = fa(1)"] = [["fa"]] := by decide +kernel

/-- … inside a BLOCK construct they are: the declared array `k` is recorded
    (finding C08-block-local-array-recorded). -/
theorem block_local_array_witness :
    recordedOf ["block", "integer :: k(3)", "k(1) = 2", "end block"] = [["k"]] := by
  decide +kernel

/-- The de-duplication looks at the last chain element only: `b%init()` after `a%init()` is
    dropped although it designates another type's binding
    (finding C08-dedup-last-chain-element). -/
theorem dedup_last_element_witness :
    recordedOf ["call a%init()", "call b%init()"] = [["a", "init"]] := by
  decide +kernel

/-- A labelled CALL without argument list is not recorded
    (finding C08-labelled-call-without-arglist); without the label, or with an argument list,
    it is. -/
theorem labelled_call_witness :
    recordedOf ["10 call fa"] = [] ∧ recordedOf ["call fa"] = [["fa"]] ∧
      recordedOf ["10 call fa()"] = [["fa"]] ∧ recordedOf ["if (x > 0) call fa"] = [["fa"]] := by
  decide +kernel

/-- The selector of a computed GO TO is not scanned
    (finding C08-computed-goto-selector-not-scanned). -/
theorem computed_goto_witness : recordedOf ["go to (10, 20) fa(1)"] = [] := by
  decide +kernel

/-- **`;`-separated statements are exactly the statements.**  For every non-empty list of
    statement texts (`StmtText`: characters outside literals other than quotes and `;`, and
    literals `q body q` of either quote kind whose body is *any* text without `q` - the other
    quote character, `;`, call-like text, …) the line obtained by joining them with `;` is
    split by `quote_split` into exactly these statements: every `;` between two statements
    separates, no `;` inside a literal does, and a quote character of the other kind inside a
    literal neither ends it nor opens one.  No bound on the number or length of statements. -/
theorem semicolon_line_is_its_statements (ss : List Str) (hne : ss ≠ []) (h : ∀ s ∈ ss, StmtText s) :
    quoteSplit ';' (joinSep ';' ss) = ss :=
  quoteSplit_join_stmts ss hne h

/-- **A `;` inside a character literal never separates statements** - whatever else the
    literal holds (an apostrophe inside `"…"`, a `"` inside `'…'`, call-like text), and
    wherever the literal stands in the statement. -/
theorem semicolon_inside_literal_never_splits (pre body post : Str) (q : Char) (hq : isQuote q = true)
    (hpre : StmtText pre) (hb : q ∉ body) (hpost : StmtText post) :
    quoteSplit ';' (pre ++ q :: (body ++ q :: post)) = [pre ++ q :: (body ++ q :: post)] :=
  quoteSplit_join_stmts [_] (by simp)
    (by intro t ht; simp at ht; subst ht; exact stmtText_append _ _ hpre (.lit q body post hq hb hpost))

/-- **Calls on `;`-separated lines are recorded as if every statement stood on its own line.**
    A unit body given as logical lines, each the `;`-join of any number of statement texts,
    records exactly what the list of these statements (blank ones dropped, each stripped)
    records: nothing is lost behind a literal, and no text of a literal becomes a statement. -/
theorem semicolon_lines_record_as_statements (groups : List (List Str))
    (h : ∀ g ∈ groups, ∀ s ∈ g, StmtText s) :
    recordedLines (groups.map (joinSep ';')) =
      recorded ((groups.flatten.filter (fun f => !f.isEmpty)).map strip) := by
  simp only [recordedLines, unitStatements_join groups h]

/-- Non-vacuity over the generated tables: an apostrophe and a `;` followed by call-like text
    inside a `"…"` literal; a literal holding an apostrophe followed by a real `;` and a CALL
    without argument list; the mirrored spellings. -/
theorem semicolon_literal_lines_record_exactly :
    recordedOfLines ["call log_it(\"can't continue; call recover(x)\")"] = [["log_it"]] ∧
      recordedOfLines ["print *, \"it's over\"; call finish"] = [["finish"]] ∧
      recordedOfLines ["call sa('say \"no; x = fa(1)'); y = fb(2) ;; call sb"] = [["sa"], ["fb"], ["sb"]] := by
  decide +kernel

/-- **Text inside a character literal is inert.**  The statement the cascade and the scanner
    see is `maskQuotes raw`; for the first literal of a statement (opening quote `q`, any body
    without `q`, closing `q` not followed by another `q`) the masked statement does not depend
    on the body at all - whatever call-like text, parentheses, `%`, `!` or the other quote
    character it contains. -/
theorem literal_text_inert (pre body₁ body₂ post : Str) (q : Char) (hq : isQuote q = true)
    (hpre : ∀ c ∈ pre, isQuote c = false) (h1 : ∀ c ∈ body₁, c ≠ q) (h2 : ∀ c ∈ body₂, c ≠ q)
    (hp : post.head? ≠ some q) :
    maskQuotes (pre ++ q :: (body₁ ++ q :: post)) = maskQuotes (pre ++ q :: (body₂ ++ q :: post)) := by
  simp only [maskQuotes, maskAux_prefix _ _ _ hpre, maskAux_literal q hq _ post 0 h1 hp,
    maskAux_literal q hq _ post 0 h2 hp]

example : maskQuotes "s = 'call g(1)' // fa(2)".toList = "s = \"0\" // fa(2)".toList := by decide +kernel

/-- Non-vacuity / sanity: CALL statement, nested function references in arguments and in an
    IF header, an array-like reference, an intrinsic, a keyword, call-like text in a literal. -/
example : recordedOf ["if (fa(1) > 0) call sb(fb(arr(2)), sin(x), 'call g(1)')"]
    = [["sb"], ["fa"], ["fb"], ["arr"]] := by decide +kernel

example : recordedOf ["associate (p => a%get(1), q => a)", "x = p + q%run(2)", "end associate"]
    = [["a", "get"], ["a", "run"]] := by decide +kernel

/-! ### Round 4: which names are variables of the scope (removed at `correlate`) and which are
    user procedures (kept) - over the generated EXTERNAL filter of `_cleanup`, the generated
    merge order of `get_label_item` and the generated removed classes of `correlate` -/

/-- **An entity declared with the EXTERNAL attribute - in any spelling of upper and lower case -
    is no variable of the scope.**  If every type declaration statement that declares `n`
    carries an attribute whose lower-casing is `external` (`REAL, EXTERNAL :: F`,
    `real, External :: f`, …), `n` is not among `unit.variables` after `_cleanup`, whatever else
    the specification part holds.  (Over the *generated* filter: keyword and the normalisation
    applied to each attribute before the comparison.) -/
theorem external_attribute_never_variable (u : Scope.Unit) (n : Str)
    (h : ∀ attrs ents, Scope.SpecStmt.tdecl attrs ents ∈ u.stmts → (∃ e ∈ ents, lower e = n) →
          ∃ a ∈ attrs, lower a = chars! "external") :
    n ∉ scopeNames u :=
  Scope.not_scopeVar_of_attr _ u n (fun a => lower a = chars! "external")
    (fun a ha => ⟨by simp [Generated.C08.scopeFilter, Scope.normAttr, Scope.applyOp, ha],
                  Scope.lower_external_kept ha⟩) h

/-- **… and so is an entity named by an EXTERNAL statement** (keyword in any case, with or
    without `::`), provided no name is declared twice: `real :: f` + `EXTERNAL F`. -/
theorem external_statement_never_variable (u : Scope.Unit) (n kw : Str) (names : List Str)
    (hnd : ((Scope.declVars u.stmts).map (fun v => lower v.name)).Nodup)
    (hst : Scope.SpecStmt.astmt kw names ∈ u.stmts) (hkw : lower kw = chars! "external")
    (hn : n ∈ names.map (fun x => lower (strip x))) :
    n ∉ scopeNames u := by
  have hk : Scope.attrKey kw = chars! "external" := by simp only [Scope.attrKey, hkw]; decide
  exact Scope.not_scopeVar_of_stmt _ u n hnd kw names hst hn (by rw [hk]; decide) (by rw [hk]; decide)
    (by rw [hk]; decide)

/-- **A reference to an external function is kept at `correlate`.**  A recorded chain `[n]`
    whose name is no variable of the unit (e.g. by one of the two theorems above), no dummy
    argument, not the result variable and no variable or type of the host stays in `calls` -
    as the procedure of that name if the scope knows one, else as the bare name. -/
theorem external_function_reference_kept (h : Scope.Host) (u : Scope.Unit) (n : Str) (calls : List Chain)
    (hv : n ∉ scopeNames u) (ht : n ∉ h.types) (hhv : n ∉ h.vars) (ha : n ∉ u.args.map lower)
    (hr : ∀ r, u.ret = some r → lower r ≠ n) (hc : [n] ∈ calls) :
    n ∈ keptCalls h u calls := by
  apply Scope.mem_resolve_of_kept _ _ _ _ _ hc
  have hret : n ∉ scopeTab h u "retvar" := by
    simp only [scopeTab, Scope.layer]
    cases hu : u.ret with
    | none => simp
    | some r => simpa using fun hh => hr r hu hh.symm
  rcases Scope.lookup_not_var (scopeTab h u) n (by simpa [scopeTab, Scope.layer] using ht)
      (by simp [scopeTab, Scope.layer]) (by simpa [scopeTab, Scope.layer] using ⟨hhv, hv⟩)
      (by simpa [scopeTab, Scope.layer] using ha) hret (by simpa [scopeTab, Scope.layer] using hv) with hk | hk
  · rw [hk]; decide
  · rw [hk]; decide

/-- **Array elements and other variables are never recorded**: a name that is a variable of the
    unit is removed from `calls`, whatever the host knows under that name - in particular a local
    array hides a host procedure of the same name (`variables` is merged last in the generated
    order, and `FortranVariable` is among the generated removed classes). -/
theorem declared_variable_never_recorded (h : Scope.Host) (u : Scope.Unit) (n : Str) (calls : List Chain)
    (hv : n ∈ scopeNames u) : n ∉ keptCalls h u calls := by
  apply Scope.not_mem_resolve_of_removed
  rw [Scope.lookup_variables _ _ (by simpa [scopeTab, Scope.layer] using hv)]
  exact Scope.removed_var

/-- … the same for dummy arguments (`args`), -/
theorem dummy_argument_never_recorded (h : Scope.Host) (u : Scope.Unit) (a : Str) (calls : List Chain)
    (ha : a ∈ u.args) : lower a ∉ keptCalls h u calls := by
  apply Scope.not_mem_resolve_of_removed
  rw [Scope.lookup_args _ _ (by simp only [scopeTab, Scope.layer]; simpa using ⟨a, ha, rfl⟩)]
  exact Scope.removed_var

/-- … the result variable of a function (also when it is the function name itself: the table
    `retvar` is merged after `all_procs`), -/
theorem result_variable_never_recorded (h : Scope.Host) (u : Scope.Unit) (r : Str) (calls : List Chain)
    (hr : u.ret = some r) : lower r ∉ keptCalls h u calls := by
  apply Scope.not_mem_resolve_of_removed
  rw [Scope.lookup_retvar _ _ (by simp [scopeTab, Scope.layer, hr])]
  exact Scope.removed_var

/-- … and variables of the host / of USEd modules. -/
theorem host_variable_never_recorded (h : Scope.Host) (u : Scope.Unit) (n : Str) (calls : List Chain)
    (hn : n ∈ h.vars) : n ∉ keptCalls h u calls := by
  apply Scope.not_mem_resolve_of_removed
  rw [Scope.lookup_all_vars _ _ (by simp [scopeTab, Scope.layer, hn])]
  exact Scope.removed_var

/-- **Every declared data object is such a variable.**  An entity `e` of a type declaration
    statement that nowhere gets the EXTERNAL attribute - no attribute of a statement declaring it
    lower-cases to `external`, no EXTERNAL statement names it - is removed from `calls`, be it a
    local variable, a dummy argument or the result variable; with any other attributes
    (`dimension(…)`, `allocatable`, `intent(…)`, `parameter`, `save`, …) in any case and order, and
    whether its shape comes from the entity declaration, a DIMENSION attribute or a
    DIMENSION/ALLOCATABLE/POINTER/TARGET statement. -/
theorem declared_data_object_never_recorded (h : Scope.Host) (u : Scope.Unit) (attrs ents : List Str)
    (e : Str) (calls : List Chain)
    (hst : Scope.SpecStmt.tdecl attrs ents ∈ u.stmts) (he : e ∈ ents)
    (hattr : ∀ attrs' ents', Scope.SpecStmt.tdecl attrs' ents' ∈ u.stmts → e ∈ ents' →
              ∀ a ∈ attrs', lower a ≠ chars! "external")
    (hstmt : ∀ kw names, Scope.SpecStmt.astmt kw names ∈ u.stmts →
              lower e ∈ names.map (fun x => lower (strip x)) → Scope.attrKey kw ≠ chars! "external") :
    lower e ∉ keptCalls h u calls := by
  by_cases harg : ∃ a ∈ u.args, lower a = lower e
  · obtain ⟨a, ha, hae⟩ := harg
    rw [← hae]; exact dummy_argument_never_recorded h u a calls ha
  by_cases hret : ∃ r, u.ret = some r ∧ lower r = lower e
  · obtain ⟨r, hr, hre⟩ := hret
    rw [← hre]; exact result_variable_never_recorded h u r calls hr
  apply declared_variable_never_recorded
  apply Scope.scopeVar_of_declared _ u attrs ents e hst he
  · intro a ha hae; exact harg ⟨a, ha, hae⟩
  · intro r hr hre; exact hret ⟨r, hr, hre⟩
  · intro v hv hvn
    obtain ⟨v0, hv0, hname, hsub⟩ := Scope.mem_processVars_attribs hv
    have hv0e : v0.name = e := by rw [← hname]; exact hvn
    simp only [Scope.hasKw, Generated.C08.scopeFilter, List.contains_eq_mem, List.mem_map,
      decide_eq_false_iff_not, not_exists, not_and]
    intro a ha
    have hnorm : Scope.normAttr ["lower"] a = lower a := by simp [Scope.normAttr, Scope.applyOp]
    rw [hnorm]
    rcases hsub a ha with h0 | h0
    · obtain ⟨attrs', ents', hst', hent', hat'⟩ := Scope.mem_declVars hv0
      rw [hat'] at h0
      exact hattr attrs' ents' hst' (by rw [← hv0e]; exact hent') a (List.mem_filter.1 h0).1
    · obtain ⟨kw, names, hst', hk, hn'⟩ := Scope.attrDict_mem h0
      rw [hk, Scope.lower_attrKey]
      exact hstmt kw names hst' (by rw [← hv0e]; exact hn')

/-- **A user procedure the scope knows is kept, as that procedure,** when no variable, dummy
    argument, result variable or type of the same name hides it. -/
theorem procedure_reference_kept (h : Scope.Host) (u : Scope.Unit) (n : Str) (calls : List Chain)
    (hp : n ∈ h.procs) (hv : n ∉ scopeNames u) (ht : n ∉ h.types) (hhv : n ∉ h.vars)
    (ha : n ∉ u.args.map lower) (hr : ∀ r, u.ret = some r → lower r ≠ n) (hc : [n] ∈ calls) :
    n ∈ keptCalls h u calls ∧
      Scope.lookupKind Generated.C08.labelOrder (scopeTab h u) n = .proc := by
  refine ⟨external_function_reference_kept h u n calls hv ht hhv ha hr hc, ?_⟩
  have hret : n ∉ scopeTab h u "retvar" := by
    simp only [scopeTab, Scope.layer]
    cases hu : u.ret with
    | none => simp
    | some r => simpa using fun hh => hr r hu hh.symm
  exact Scope.lookup_proc (scopeTab h u) n (by simpa [scopeTab, Scope.layer] using hp)
    (by simpa [scopeTab, Scope.layer] using ht) (by simp [scopeTab, Scope.layer])
    (by simpa [scopeTab, Scope.layer] using ⟨hhv, hv⟩) (by simpa [scopeTab, Scope.layer] using ha) hret
    (by simpa [scopeTab, Scope.layer] using hv)

/-- Non-vacuity over the generated tables: `REAL, EXTERNAL :: VNORM`, `real, External :: f2`,
    `real :: g` + `EXTERNAL G`, an array declared four ways, a dummy array, a local array hiding
    the host procedure `fb`; references to all of them and to the host procedure `fa`. -/
theorem external_declarations_resolve_exactly :
    let u : Scope.Unit :=
      { stmts := [.tdecl [chars! "EXTERNAL"] [chars! "VNORM"], .tdecl [chars! "External"] [chars! "f2"],
                  .tdecl [] [chars! "g"], .astmt (chars! "EXTERNAL") [chars! "G"],
                  .tdecl [chars! "DIMENSION(10)", chars! "Save"] [chars! "A1"], .tdecl [] [chars! "a2", chars! "fb"],
                  .tdecl [] [chars! "a3"], .astmt (chars! "dimension") [chars! "a3"],
                  .tdecl [chars! "intent(in)"] [chars! "d"], .tdecl [chars! "allocatable"] [chars! "a4"]],
        args := [chars! "D"] }
    let h : Scope.Host := { procs := [chars! "fa", chars! "fb"], types := [chars! "t1"], vars := [chars! "garr"] }
    scopeNames u = [chars! "a1", chars! "a2", chars! "fb", chars! "a3", chars! "a4"] ∧
    keptCalls h u [[chars! "vnorm"], [chars! "a1"], [chars! "f2"], [chars! "g"], [chars! "a2"], [chars! "fb"],
                   [chars! "a3"], [chars! "d"], [chars! "fa"], [chars! "t1"], [chars! "garr"], [chars! "a4"],
                   [chars! "exts"]]
      = [chars! "vnorm", chars! "f2", chars! "g", chars! "fa", chars! "exts"] := by
  decide +kernel

/-- Finding C08-typed-external-function-dropped: a function whose type is declared without
    EXTERNAL (`real :: ext`, legal) is a variable of the scope, and its reference is removed. -/
theorem typed_function_without_external_witness :
    keptCalls {} { stmts := [.tdecl [] [chars! "ext"]] } [[chars! "ext"]] = [] := by decide +kernel

/-- Finding C08-implicitly-typed-array-recorded: an array shaped by a DIMENSION statement and
    typed implicitly is no variable of the scope; its element reference stays as a call. -/
theorem implicitly_typed_array_witness :
    keptCalls {} { stmts := [.astmt (chars! "dimension") [chars! "w2"]] } [[chars! "w2"]] = [chars! "w2"] := by
  decide +kernel

/-! ### Round 5: which names are never recorded (the deny-list the implementation applies, probed
    on the real `_add_procedure_calls` on every run, against the pinned specification
    `CallsSpec.neverRecorded`), and statements continued over several physical lines -/

/-- **The names withheld from `calls` are exactly the specified intrinsic / keyword names.**  The
    deny-list the implementation applies (`Generated.C08.intrinsics`: probed on the real
    `_add_procedure_calls` with every entry of its tables, the specified names and the generator's
    identifiers; sorted) equals the pinned specification `neverRecorded`.  Adding a name - however
    plausible an intrinsic it is - makes references to a *user* procedure of that name vanish;
    dropping one makes references to that intrinsic appear as calls; either makes this theorem
    fail. -/
theorem deny_list_is_the_specified_names : Generated.C08.intrinsics = neverRecorded := by decide +kernel

/-- **Only intrinsic procedures and language keywords are withheld.** -/
theorem never_recorded_names_are_specified : ∀ n ∈ intr, n ∈ neverRecorded := by
  intro n hn; rw [intr, deny_list_is_the_specified_names] at hn; exact hn

/-- **Every specified intrinsic / keyword name is withheld.** -/
theorem specified_names_are_never_recorded : ∀ n ∈ neverRecorded, n ∈ intr := by
  intro n hn; rw [intr, deny_list_is_the_specified_names]; exact hn

/-- **A reference to a user procedure is recorded, whatever the procedure is called** - as long as
    its name is not one of the specified intrinsic / keyword names: if the scanner finds a chain
    ending in `l` in the statement, `l` ends a recorded chain afterwards.  (No hypothesis on the
    generated table: `deny_list_is_the_specified_names` discharges it.) -/
theorem user_procedure_reference_recorded (asc : Assocs) (line : Str) (calls : List Chain) (l : Str)
    (hl : l ∉ neverRecorded)
    (hf : ∃ g ∈ chainStrings line, lastOf (substHead asc (chainOf g)) = l) :
    l ∈ (addProcedureCalls intr asc line calls).map lastOf := by
  rw [statement_records_iff]
  exact Or.inr ⟨fun h => hl (never_recorded_names_are_specified l h), hf⟩

/-- … and **no specified name is ever recorded**, in any unit body (over the specification, not
    over the generated table). -/
theorem specified_name_never_recorded (lines : List Str) (n : Str) (hn : n ∈ neverRecorded) :
    ∀ c ∈ recorded lines, lastOf c ≠ n := by
  intro c hc h
  exact intrinsics_never_recorded lines c hc (h ▸ specified_names_are_never_recorded n hn)

/-- Non-vacuity over the generated table: user procedures whose names merely resemble intrinsics
    are recorded, the intrinsics beside them are not. -/
example : recordedOf ["call update_all(x)", "y = norm_of(v) + sum(v) + reduce_all(maxval(v))", "call random_number(x)"]
    = [["update_all"], ["norm_of"], ["reduce_all"]] := by decide +kernel

/-- **Calls on continued lines are recorded as if the statement stood on one line - exactly.**
    Take the statement(s) written on one physical line `l1`, and the same text cut with `&` … `&`
    at any positions - between `call` and the procedure name, in the middle of a name, inside an
    argument list - into a first line `x r &` (`r` ends with whatever blanks stand in front of the
    `&`), any number of lines `& piece &` mixed with blank lines, comment lines and `&`-only
    lines, and a last line `& b`.  Both layouts record the same calls: the text in front of a
    trailing `&` (blanks included) and the text right behind a leading `&` are joined with nothing
    removed and nothing inserted, so `call &` / `&name` stays `call name` and `na&` / `&me(x)` stays
    `name(x)`.  (Reader model `Ford.readAll`, shared with C02 and tied to ford/reader.py by the
    unit stream `c08.phys`; the hypotheses say that the lines carry no doc comment and what their
    code parts are, see `C02.code_part_*`.)  No bound on the number or length of the pieces. -/
theorem continued_lines_record_as_one_line (l0 l1 : Str) (x : Char) (r : Str) (mids : List Mid)
    (lines : List Str) (ln b : Str) (rest : List Str)
    (h0 : NoDoc Marks.default false l0) (hc0 : codeOf false l0 = x :: r ++ ['&']) (hx : x ≠ '&')
    (hd : ∀ mid ∈ mids, mid.direct)
    (hr : Rendered Marks.default (' ' :: x :: r) mids lines)
    (hn : NoDoc Marks.default (unterminated (' ' :: x :: r ++ (mids.map Mid.text).flatten)) ln)
    (hcn : codeOf (unterminated (' ' :: x :: r ++ (mids.map Mid.text).flatten)) ln = '&' :: b)
    (h1 : NoDoc Marks.default false l1) (hc1 : codeOf false l1 = x :: r ++ (mids.map Mid.text).flatten ++ b)
    (hb : isBlank b = false) (hl : b.getLast? ≠ some '&')
    (hJ : itemsOf (' ' :: x :: r ++ (mids.map Mid.text).flatten ++ b) ≠ []) :
    recordedPhysical (l0 :: lines ++ ln :: rest) = recordedPhysical (l1 :: rest) := by
  have h := split_exact Marks.default l0 l1 x r mids lines ln b rest h0 hc0 hx hd hr hn hcn h1 hc1 hb hl hJ
  have hq : (qs [] false : RS) = {} := rfl
  simp only [recordedPhysical, physStatements, readAll, ← hq, h]

/-- Non-vacuity over the generated tables: the blank between `call` and the name stands only in
    front of the trailing `&`; a name cut in the middle; a comment behind the `&`; a CALL without
    argument list; the same statements on one line each. -/
theorem continued_call_lines_record_exactly :
    recordedOfPhysical ["if (ready(n)) call &  ! next", "    &update_all(field, n)", "call &", "&finish",
                        "x = wei&", "  ! in between", " &ght(1) + other  &", "  (2)"]
      = [["update_all"], ["ready"], ["finish"], ["weight"], ["other"]] ∧
    recordedOfPhysical ["if (ready(n)) call update_all(field, n)", "call finish", "x = weight(1) + other (2)"]
      = [["update_all"], ["ready"], ["finish"], ["weight"], ["other"]] := by
  decide +kernel

/-! ### Round 6: chains of any length (`_find_chain_item`), and fixed-form source -/

open Chain in
/-- **A component reached through a chain of any length is never recorded** ("array elements and
    other variables ... are never recorded as calls").  `o` is a variable of the unit whose type
    is the visible derived type `t0`; `ls` is a path of components through derived types of any
    length (`a % inner`, `oa(i) % cells(k)`: the subscript lists are gone at this point) that ends
    in type `t`; `c` is a component of `t` (an array component referenced with a subscript list,
    which is why the scanner recorded the chain).  Whatever else is called `c` - a module
    procedure, a binding of `t`, a type - the chain `o % ls % c` designates the variable and
    `correlate` drops it.  Over the generated merge order of `get_label_item` (the component table
    is merged last) and the generated removed classes. -/
theorem component_through_chain_never_recorded (w : World) (root : Str → Option Item) (o ty0 : Str)
    (t0 t : TypeDef) (ls : List Str) (c tyc : Str)
    (hr : root o = some (.var o ty0)) (h0 : findType w ty0 = some t0) (hp : CompPath w t0 ls t)
    (hc : assoc t.comps c = some tyc) :
    keepChain Generated.C08.labelOrder Generated.C08.removedKinds w root (o :: (ls ++ [c])) = none := by
  simp only [keepChain, findChain_path w root o ty0 t0 t ls c hr h0 hp, typeItem_comp w t c tyc hc]
  simp [itemRemoved, Scope.isRemoved, Generated.C08.removedKinds]

open Chain in
/-- **A type-bound procedure invoked through a chain of any length is recorded as that binding**
    ("resolved as in C07"): same path as above, `c` is a binding of the reached type `t` declared
    by type `owner` (inherited bindings are in the table of the extending type after its own
    `correlate`), and no component, parent type or visible type carries the label.  The chain is
    kept, as the bound procedure - not as a bare name, and not as an unrelated module procedure
    that happens to be called `c` (bindings are merged after `all_procs`). -/
theorem binding_through_chain_resolved (w : World) (root : Str → Option Item) (o ty0 : Str)
    (t0 t : TypeDef) (ls : List Str) (c owner : Str)
    (hr : root o = some (.var o ty0)) (h0 : findType w ty0 = some t0) (hp : CompPath w t0 ls t)
    (hc : assoc t.comps c = none) (hpar : t.parents.contains c = false) (ht : findType w c = none)
    (hb : assoc t.bound c = some owner) :
    keepChain Generated.C08.labelOrder Generated.C08.removedKinds w root (o :: (ls ++ [c]))
      = some (.item (.bound owner c)) := by
  simp only [keepChain, findChain_path w root o ty0 t0 t ls c hr h0 hp,
    typeItem_bound w t c owner hc hpar ht hb]
  simp [itemRemoved, Generated.C08.removedKinds]

open Chain in
/-- **A binding invoked through the result of a function is resolved** (the chain FORD records for
    `associate (p => make(2))` ... `p % get()` is `make % get`: the selector is substituted for
    the associate name).  `f` is a function of the scope whose result variable has the visible
    derived type `t0`; then as in `binding_through_chain_resolved`.  The real `_find_chain_item`
    raises instead when `f` has not been correlated yet (finding
    `C08-chain-through-uncorrelated-function-raises`; with the candidate repair it returns what
    this theorem says). -/
theorem binding_through_function_result_resolved (w : World) (root : Str → Option Item) (f ty0 : Str)
    (t0 t : TypeDef) (ls : List Str) (c owner : Str)
    (hr : root f = some (.proc f (some ty0))) (h0 : findType w ty0 = some t0) (hp : CompPath w t0 ls t)
    (hc : assoc t.comps c = none) (hpar : t.parents.contains c = false) (ht : findType w c = none)
    (hb : assoc t.bound c = some owner) :
    keepChain Generated.C08.labelOrder Generated.C08.removedKinds w root (f :: (ls ++ [c]))
      = some (.item (.bound owner c)) := by
  simp only [keepChain, findChain_path_fn w root f ty0 t0 t ls c hr h0 hp,
    typeItem_bound w t c owner hc hpar ht hb]
  simp [itemRemoved, Generated.C08.removedKinds]

open Chain in
/-- non-vacuity: `mk_t1 % get` and `mk_t1 % cells % fetch` over the generated tables -/
example :
    let t2 : TypeDef := { name := chars! "t2", bound := [(chars! "fetch", chars! "t2")] }
    let t1 : TypeDef := { name := chars! "t1", bound := [(chars! "get", chars! "t1")], comps := [(chars! "cells", chars! "t2")] }
    let w : World := { types := [t1, t2], procs := [(chars! "mk_t1", some (chars! "t1"))] }
    let h : Scope.Host := { procs := [chars! "mk_t1"], types := [chars! "t1", chars! "t2"] }
    keptAll w h { stmts := [] } [] [(chars! "mk_t1", some (chars! "t1"))]
        [[chars! "mk_t1"], [chars! "mk_t1", chars! "get"], [chars! "mk_t1", chars! "cells", chars! "fetch"]]
      = [.item (.proc (chars! "mk_t1") (some (chars! "t1"))), .item (.bound (chars! "t1") (chars! "get")),
         .item (.bound (chars! "t2") (chars! "fetch"))] := by
  decide +kernel

open Chain in
/-- **A chain whose first label is unknown in the scope stays as its last label** (a reference to
    a procedure FORD has not seen is kept by name, whatever the length of the chain). -/
theorem unknown_root_chain_kept_by_name (order removed : List String) (w : World) (root : Str → Option Item)
    (o : Str) (rest : Chain) (hr : root o = none) :
    keepChain order removed w root (o :: rest) = some (.name (lastOf (o :: rest))) := by
  cases rest with
  | nil => simp [keepChain, findChain, hr]
  | cons l r => simp [keepChain, findChain, hr]

open Chain in
/-- Non-vacuity over the generated tables: a unit with an array of objects `oa` of type `t1` and
    an object `b` of type `t2` (which extends `t0`); `t1` has the component array `cells` of type
    `t2`.  `oa(i) % cells(k) % fetch()` is the binding `fetch` of `t2`, `oa(i) % vals(j)` and
    `oa(i) % cells(k) % q(1)` (inherited component) are dropped, `b % show()` is the binding
    inherited from `t0`, `b % t0 % q(2)` (parent component) is dropped, `oa(i) % nothing(1)` stays
    as the name, the module function `fa` stays as the procedure. -/
example :
    let t0 : TypeDef := { name := chars! "t0", bound := [(chars! "show", chars! "t0")],
                          comps := [(chars! "val", chars! "integer"), (chars! "q", chars! "real")] }
    let t2 : TypeDef := { name := chars! "t2", bound := [(chars! "fetch", chars! "t2"), (chars! "show", chars! "t0")],
                          comps := [(chars! "w", chars! "real"), (chars! "val", chars! "integer"), (chars! "q", chars! "real")],
                          parents := [chars! "t0"] }
    let t1 : TypeDef := { name := chars! "t1", bound := [(chars! "get", chars! "t1")],
                          comps := [(chars! "vals", chars! "real"), (chars! "cells", chars! "t2")] }
    let w : World := { types := [t0, t1, t2], procs := [(chars! "fa", some (chars! "real"))] }
    let u : Scope.Unit := { stmts := [.tdecl [] [chars! "oa"], .tdecl [] [chars! "b"]] }
    let h : Scope.Host := { procs := [chars! "fa"], types := [chars! "t0", chars! "t1", chars! "t2"] }
    keptAll w h u [(chars! "oa", chars! "t1"), (chars! "b", chars! "t2")] []
        [[chars! "oa", chars! "cells", chars! "fetch"], [chars! "oa", chars! "vals"], [chars! "oa", chars! "cells", chars! "q"],
         [chars! "b", chars! "show"], [chars! "b", chars! "t0", chars! "q"], [chars! "oa", chars! "nothing"], [chars! "fa"]]
      = [.item (.bound (chars! "t2") (chars! "fetch")), .item (.bound (chars! "t0") (chars! "show")),
         .name (chars! "nothing"), .item (.proc (chars! "fa") none)] := by
  decide +kernel

open Fixed in
/-- **A fixed-form deck records exactly what its free-form equivalent records** ("on continued
    lines", for source written in columns).  For every well-formed deck - any number of initial
    cards with a label field, continuation cards with any non-blank, non-zero character in column
    6, comment cards of every style and blank cards in between, any text in columns 73+ - the
    statements the reader gets from the converter are the statements of the equivalent free-form
    file `renderFree` (label in front of the statement, ` &` on every continued line, and - limit
    on - the text of columns 73+ behind a `!` that stands in column 73 or later), hence the same
    calls are recorded.  (Converter model `Fixed.convertToFree`, shared with C14 and tied to
    ford/fixed2free2.py by the unit stream `c08.fixed`; corollary of C14's simulation lemma.) -/
theorem fixed_deck_records_as_free_equivalent (v : Variant) (lim : Bool) (p : List Item) (h : WF v p) :
    recordedFixed v lim (renderFixed p) = recordedPhysical ((renderFree v lim p).map dropNL) := by
  have hs : convertToFree v lim (renderFixed p) = renderFree v lim p := by
    have := convGo_sim v lim p [] h.1 (Or.inr h.2)
    simpa [convertToFree, h.2] using this
  simp [recordedFixed, fixedStatements, recordedPhysical, hs]

open Fixed in
/-- **Text in columns 73+ of a continued card is commentary; the statement goes on.**  Limit on
    (the default).  A card whose statement field (label + columns 7-72, trailing blanks removed)
    is `ind0 x r0` and that has ANY text in columns 73+ (`body0.length > 66`: card sequence
    numbers, a remark, quotes, `&`, `!` ...), continued by a card with statement field `ind1 y b0`
    and again any text in columns 73+, records exactly what the free-form lines `x r0 &` / `y b0`
    record: the continuation mark the converter inserts stays in front of the overflow comment,
    the reader joins the two statement fields with one blank and nothing of the sequence fields
    reaches the statement.  (`ind0`, `ind1`: indentation; the fields are comment-free and
    quote-closed - `Atoms`, the reader's own notion - and do not start with `&` / `#`.) -/
theorem sequence_field_cards_record_as_free_form (v : Variant) (hv : v.spacedExcess = true)
    (lab body0 body1 ind0 ind1 : Str) (x y : Char) (r0 b0 : Str) (rest : List Str)
    (hl0 : body0.length > 66) (hl1 : body1.length > 66)
    (h0 : rstrip (lab ++ body0.take 66) = ind0 ++ x :: r0) (hi0 : isBlank ind0 = true)
    (h1 : rstrip (body1.take 66) = ind1 ++ y :: b0) (hi1 : isBlank ind1 = true)
    (hx : isSpace x = false) (hxa : x ≠ '&') (hxh : x ≠ '#') (hr0 : rstrip (x :: r0) = x :: r0)
    (hy : isSpace y = false) (hya : y ≠ '&') (hyh : y ≠ '#') (hb0 : rstrip (y :: b0) = y :: b0)
    (hlast : (y :: b0).getLast? ≠ some '&') (ha0 : Atoms (x :: r0)) (ha1 : Atoms (y :: b0))
    (hJ : itemsOf (x :: r0 ++ ' ' :: y :: b0) ≠ []) :
    recordedPhysical (dropNL (freeCode v true lab body0 true) :: dropNL (freeCode v true [] body1 false) :: rest)
      = recordedPhysical ((x :: (r0 ++ [' ', '&'])) :: (y :: b0) :: rest) := by
  have hamp : Atoms (x :: (r0 ++ [' ', '&'])) := by
    have e : x :: (r0 ++ [' ', '&']) = (x :: r0) ++ [' ', '&'] := by simp
    rw [e]
    exact atoms_append _ _ ha0 (.plain ' ' _ (by decide) (by decide) (.plain '&' _ (by decide) (by decide) .nil))
  have hramp : rstrip (x :: (r0 ++ [' ', '&'])) = x :: (r0 ++ [' ', '&']) := by
    have e : x :: (r0 ++ [' ', '&']) = (x :: r0) ++ [' ', '&'] := by simp
    rw [e, rstrip_amp]
  -- the two cards
  obtain ⟨n0, c0⟩ := long_card_code v hv lab body0 true ind0 x (r0 ++ [' ', '&']) hl0
    (by simp [h0]) hi0 hx hxh hramp hamp
  obtain ⟨n1, c1⟩ := long_card_code v hv [] body1 false ind1 y b0 hl1
    (by simpa using h1) hi1 hy hyh hb0 ha1
  -- the two free-form lines
  obtain ⟨m0, d0⟩ := plain_line_code x (r0 ++ [' ', '&']) hx hxh hramp hamp
  obtain ⟨m1, d1⟩ := plain_line_code y b0 hy hyh hb0 ha1
  have hq : (qs [] false : RS) = {} := rfl
  simp only [recordedPhysical, physStatements, readAll, ← hq,
    two_line_join _ _ x y r0 b0 rest n0 c0 n1 c1 hx hxa hr0 ha0 hy hya hlast hJ,
    two_line_join _ _ x y r0 b0 rest m0 d0 m1 d1 hx hxa hr0 ha0 hy hya hlast hJ]

/-- Non-vacuity over the generated tables: a deck with card sequence numbers in columns 73-80.  The
    argument list of `F` is continued on the next card, the FORMAT statement too: the calls are
    `f`, `g`, `report`, and nothing of the FORMAT statement. -/
theorem fixed_cards_with_sequence_field_record_exactly :
    recordedOfFixed ["      Y = F(X,                                                          DK000200",
                     "     &      G(Z))                                                       DK000210",
                     "C     call hidden(1)",
                     "      CALL REPORT(Y)                                                    DK000220",
                     " 9000 FORMAT (1X, 'RESULT', F10.3,                                      DK000230",
                     "     1        2(1X, I3))                                                DK000240"]
      = [["f"], ["g"], ["report"]] := by
  decide +kernel

end Ford.C08
