/-
  C08 — recorded calls are exactly the user procedures a unit invokes.
  Property theorems only; helper lemmas live in FordModel/Lemmas.
-/
import FordModel.Calls
import FordModel.Generated.C08
namespace Ford.C08
open Ford Ford.Calls

/-- Keywords that are followed by a parenthesis in executable statements (and therefore look
    like references to `CALL_RE`) are all in the generated INTRINSICS table, so the filter of
    `_add_procedure_calls` drops them. -/
theorem keywords_filtered :
    ∀ k ∈ ["if", "where", "case", "while", "concurrent", "forall", "allocate", "deallocate", "write",
           "read", "open", "close", "inquire", "rewind", "backspace", "flush", "wait", "nullify",
           "associate", "is", "type", "class", "stop", "print", "character", "real", "integer",
           "logical", "complex", "dimension", "select", "rank", "critical", "lock", "unlock",
           "elseif", "result", "len", "kind"],
      k ∈ Generated.C08.intrinsics := by decide +kernel

end Ford.C08
