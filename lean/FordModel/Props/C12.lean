/-
  C12 — output is a deterministic function of the inputs.
  Property theorems only; helper lemmas live in FordModel/Lemmas/Order.lean.
  Sets / hash-ordered iteration are modelled as adversarial permutations: a
  statement "for all l₁ ~ l₂" quantifies over every hash seed and every
  enumeration order of the file system.
-/
import FordModel.Order
import FordModel.Lemmas.Order
namespace Ford.C12
open Ford Ford.Order

/-! ## `sorted(...)` stages -/

/-- Specification of the model of Python's `sorted`: the result is ordered by the
    key (code-point lexicographic `<=`) and is a permutation of the input. -/
theorem sorted_spec {α : Type} (key : α → Str) (l : List α) :
    (sortOn key l).Pairwise (fun a b => strLe (key a) (key b) = true) ∧ (sortOn key l).Perm l :=
  ⟨sortOn_sorted key l, sortOn_perm_self key l⟩

/-- Clause "regardless of string-hash randomisation" for every stage that sorts a
    set before iterating it (graph node sets, `toposort`'s levels, ...): whatever
    order the set is iterated in (any permutation), sorting on a key that
    distinguishes the elements yields one and the same list. -/
theorem sorted_stage_order_irrelevant {α : Type} (key : α → Str) (l₁ l₂ : List α)
    (hp : l₁.Perm l₂) (hkey : ∀ a b, a ∈ l₁ → b ∈ l₁ → key a = key b → a = b) :
    sortOn key l₁ = sortOn key l₂ :=
  sortOn_perm key l₁ l₂ hp hkey

/-- Graph emission: node sets hold nodes with pairwise different `ident`
    (`BaseNode.__eq__`/`__hash__` are on `ident`), so the emitted node sequence
    does not depend on the iteration order of the set. -/
theorem graph_nodes_emitted_in_fixed_order (n₁ n₂ : List Node) (hp : n₁.Perm n₂)
    (hid : (n₁.map (·.ident)).Nodup) : emitNodes n₁ = emitNodes n₂ :=
  sortOn_perm_of_nodup _ n₁ n₂ hp hid

/-- Every loop over a node collection in `ford/graphs.py` (table regenerated from
    the source on every run) goes through `sorted(...)`. -/
theorem graph_node_sites_all_sorted : ∀ s ∈ Gen.C12.nodeIterSites, s.2 = true := by decide

/-! ## file enumeration order -/

/-- Clause "regardless of the order in which the file system enumerates source
    files", repaired variant: once the file set is sorted by path before it is
    parsed, *everything* downstream (`down` is arbitrary: numbering, project lists,
    search index, copies, pages) is the same for every enumeration order. -/
theorem deterministic_when_files_sorted {β : Type} (down : List SrcFile → β) (e₁ e₂ : List SrcFile)
    (hp : e₁.Perm e₂) (hpaths : (e₁.map (·.path)).Nodup) :
    down (parseOrder .repaired e₁) = down (parseOrder .repaired e₂) := by
  simp only [parseOrder]
  rw [sortOn_perm_of_nodup _ e₁ e₂ hp hpaths]

/-- ... in particular the modelled site (identifiers/URLs, search-index order, src/ copies). -/
theorem site_deterministic_repaired (e₁ e₂ : List SrcFile) (hp : e₁.Perm e₂)
    (hpaths : (e₁.map (·.path)).Nodup) : site .repaired e₁ = site .repaired e₂ :=
  deterministic_when_files_sorted siteOf e₁ e₂ hp hpaths

/-- The variant switch is read from the working tree (`fileIterSorted` is generated
    from the AST of `Project.__init__`): if the tree sorts the file set, the tree's
    site is deterministic. -/
theorem tree_site_deterministic_of_sorted (h : Gen.C12.fileIterSorted = true) (e₁ e₂ : List SrcFile)
    (hp : e₁.Perm e₂) (hpaths : (e₁.map (·.path)).Nodup) :
    site variantOfTree e₁ = site variantOfTree e₂ := by
  simp only [variantOfTree, h, if_true]
  exact site_deterministic_repaired e₁ e₂ hp hpaths

private def wa : SrcFile :=
  { path := "src/a.f90".toList, base := "a.f90".toList, content := "A".toList,
    ent := ⟨1, "sourcefile".toList, "a.f90".toList⟩,
    units := [{ list := "modules".toList, ent := ⟨2, "module".toList, "ma".toList⟩,
                inner := [{ list := "subroutines".toList, ent := ⟨3, "proc".toList, "foo".toList⟩ }] }],
    top := [] }
private def wb : SrcFile :=
  { path := "src/b.f90".toList, base := "b.f90".toList, content := "B".toList,
    ent := ⟨4, "sourcefile".toList, "b.f90".toList⟩,
    units := [{ list := "modules".toList, ent := ⟨5, "module".toList, "mb".toList⟩,
                inner := [{ list := "subroutines".toList, ent := ⟨6, "proc".toList, "foo".toList⟩ }] }],
    top := [] }

/-- As the code is (the set is iterated unsorted): two files that both define a
    procedure `foo`; the two enumeration orders give different URL assignments
    (`proc/foo.html` vs `proc/foo~2.html`) and a different search-index order. -/
theorem file_order_witness :
    (site .asIs [wa, wb]).idents ≠ (site .asIs [wb, wa]).idents ∧
    (site .asIs [wa, wb]).search ≠ (site .asIs [wb, wa]).search ∧
    site .repaired [wa, wb] = site .repaired [wb, wa] :=
  ⟨by decide, by decide,
   site_deterministic_repaired [wa, wb] [wb, wa] (List.Perm.swap _ _ _) (by decide)⟩

/-! ## first-come numbering (NameSelector) -/

/-- What holds for both variants of the counter key (`lk = false`: name as written, the
    code before 8dec555; `lk = true`: lower-cased name): if no two entities share the key
    `(get_dir(), name)`, every entity gets number 1 (its plain lower-cased name) whatever the
    order of the `get_name` requests — so its URL is independent of file order and hash seed. -/
theorem numbering_order_irrelevant_partial (lk : Bool) (reqs : List Ent)
    (hkeys : ∀ a b, a ∈ reqs → b ∈ reqs → a.keyAs lk = b.keyAs lk → a.uid = b.uid)
    (e : Ent) (he : e ∈ reqs) : numOf (numberNWith lk reqs) e.uid = some 1 := by
  unfold numOf numberNWith
  obtain ⟨p, hp, hpe⟩ := numberAux_mem (lk := lk) [] reqs e he (by simp)
  cases hf : (numberAux lk [] reqs).find? (fun p => p.1.uid == e.uid) with
  | none =>
    have := List.find?_eq_none.mp hf p hp
    simp [hpe] at this
  | some q =>
    have hq := List.mem_of_find?_eq_some hf
    have := numberAux_unique (lk := lk) [] reqs (by simpa using hkeys) q hq
    simp [this]

/-- ... hence any two request orders (any two runs) agree on every entity. -/
theorem numbering_two_runs_agree_partial (lk : Bool) (r₁ r₂ : List Ent) (hp : r₁.Perm r₂)
    (hkeys : ∀ a b, a ∈ r₁ → b ∈ r₁ → a.keyAs lk = b.keyAs lk → a.uid = b.uid)
    (e : Ent) (he : e ∈ r₁) : numOf (numberNWith lk r₁) e.uid = numOf (numberNWith lk r₂) e.uid := by
  rw [numbering_order_irrelevant_partial lk r₁ hkeys e he]
  rw [numbering_order_irrelevant_partial lk r₂
    (fun a b ha hb => hkeys a b (hp.mem_iff.mpr ha) (hp.mem_iff.mpr hb)) e (hp.mem_iff.mp he)]

/-- ... in particular for the NameSelector of the working tree (the key variant is read
    from the AST of `get_name` on every run). -/
theorem tree_numbering_two_runs_agree_partial (r₁ r₂ : List Ent) (hp : r₁.Perm r₂)
    (hkeys : ∀ a b, a ∈ r₁ → b ∈ r₁ → a.key = b.key → a.uid = b.uid)
    (e : Ent) (he : e ∈ r₁) : numOf (numberN r₁) e.uid = numOf (numberN r₂) e.uid :=
  numbering_two_runs_agree_partial Gen.C12.countKeyLower r₁ r₂ hp hkeys e he

/-- An identifier, once handed out, never changes during a run: the numbering of a
    request sequence is a prefix of the numbering of any extension of it. -/
theorem numbering_stable (lk : Bool) (r₁ r₂ : List Ent) :
    ∃ rest, numberNWith lk (r₁ ++ r₂) = numberNWith lk r₁ ++ rest := by
  obtain ⟨s, hs⟩ := numberAux_append (lk := lk) [] r₁ r₂
  exact ⟨numberAux lk s r₂, hs⟩

/-- Two different items never get the same number under the same counter key, for every
    request sequence.  With the lower-cased key (`lk = true`) this is what separates `Foo`
    from `foo`: same key, hence different numbers, hence `foo` and `foo~2`. -/
theorem numbering_same_key_distinct_numbers (lk : Bool) (reqs : List Ent) (p q : Ent × Nat)
    (hp : p ∈ numberNWith lk reqs) (hq : q ∈ numberNWith lk reqs)
    (hk : p.1.keyAs lk = q.1.keyAs lk) (hn : p.2 = q.2) : p = q :=
  numberAux_distinct (lk := lk) [] reqs p q hp hq hk hn

/-- Names that differ only in case: counted under the name as written both become `foo`
    (one page, one graph node, one graph file for two entities — the root of the findings
    C12-case-collision-hash-order and C12-parallel-graph-file-race); counted under the
    lower-cased name they become `foo` and `foo~2`. -/
theorem case_variants_witness :
    numberWith false [⟨1, "proc".toList, "Foo".toList⟩, ⟨2, "proc".toList, "foo".toList⟩]
      = [(⟨1, "proc".toList, "Foo".toList⟩, "foo".toList), (⟨2, "proc".toList, "foo".toList⟩, "foo".toList)] ∧
    numberWith true [⟨1, "proc".toList, "Foo".toList⟩, ⟨2, "proc".toList, "foo".toList⟩]
      = [(⟨1, "proc".toList, "Foo".toList⟩, "foo".toList), (⟨2, "proc".toList, "foo".toList⟩, "foo~2".toList)] := by
  decide

/-- The defect: with two equally named entities in one directory the numbering is
    first-come, so the request order (file order, hash order) decides who is `foo`
    and who is `foo~2`. -/
theorem numbering_first_come_witness :
    number [⟨1, "proc".toList, "foo".toList⟩, ⟨2, "proc".toList, "foo".toList⟩]
      = [(⟨1, "proc".toList, "foo".toList⟩, "foo".toList), (⟨2, "proc".toList, "foo".toList⟩, "foo~2".toList)] ∧
    number [⟨2, "proc".toList, "foo".toList⟩, ⟨1, "proc".toList, "foo".toList⟩]
      = [(⟨2, "proc".toList, "foo".toList⟩, "foo".toList), (⟨1, "proc".toList, "foo".toList⟩, "foo~2".toList)] := by
  decide

/-! ## `uses` is a set -/

/-- Repaired variant (iterate `uses` through a sort): the "Uses" list is the same
    for every iteration order of the set. -/
theorem uses_list_order_irrelevant_when_sorted (ω₁ ω₂ : List Str) (hp : ω₁.Perm ω₂) :
    usesShown true ω₁ = usesShown true ω₂ := by
  simp only [usesShown, if_true]
  exact sortOn_perm id ω₁ ω₂ hp (fun a b _ _ h => h)

/-- As the code is, the list is deterministic for units with at most one used module. -/
theorem uses_list_partial (ω₁ ω₂ : List Str) (hp : ω₁.Perm ω₂) (h1 : ω₁.length ≤ 1) :
    usesShown false ω₁ = usesShown false ω₂ := by
  simp only [usesShown]
  match ω₁, ω₂, hp, h1 with
  | [], _, hp, _ => simp [List.nil_perm.mp hp]
  | [a], _, hp, _ => simp [List.singleton_perm.mp hp]
  | _ :: _ :: _, _, _, h1 => simp at h1

/-- ... and order-dependent as soon as two modules are used. -/
theorem uses_list_order_witness :
    usesShown false ["mb".toList, "mc".toList] ≠ usesShown false ["mc".toList, "mb".toList] ∧
    usesShown true ["mb".toList, "mc".toList] = usesShown true ["mc".toList, "mb".toList] :=
  ⟨by decide, uses_list_order_irrelevant_when_sorted _ _ (List.Perm.swap _ _ _)⟩

/-! ## what an earlier run left in the output directory -/

/-- Clause "regardless of what an earlier run left in the output directory": for
    every statement list that removes the output directory before its first write,
    the content below `out` after the run is the same for any two prior file systems. -/
theorem stale_output_irrelevant_steps (steps : List Str) (h : removeFirst steps = true) (out : Path)
    (ws : List (List (Path × Str))) (fs₁ fs₂ : FS) (p : Path) (hp : isUnder out p = true) :
    look (run (stepsOps out steps ws) fs₁) p = look (run (stepsOps out steps ws) fs₂) p := by
  induction steps generalizing ws with
  | nil => simp [removeFirst] at h
  | cons s ss ih =>
    unfold stepsOps
    unfold removeFirst at h
    by_cases h1 : (s == kwRemove) = true
    · simp only [h1, if_true, run, List.foldl_cons]
      apply look_run_congr
      simp [look_apply_rmtree, hp]
    · by_cases h2 : (s == kwWrite) = true
      · simp [h1, h2] at h
      · simp only [h1, h2, if_false, Bool.false_eq_true] at h ⊢
        exact ih h ws

/-- ... and what a run of the tree does at the output directory (event list observed on every check:
    a real run over a stale output directory with the file-system primitives wrapped) is such a list. -/
theorem stale_output_irrelevant (out : Path) (ws : List (List (Path × Str))) (fs₁ fs₂ : FS) (p : Path)
    (hp : isUnder out p = true) :
    look (run (writeoutOps out ws) fs₁) p = look (run (writeoutOps out ws) fs₂) p :=
  stale_output_irrelevant_steps Gen.C12.writeoutSteps (by decide) out ws fs₁ fs₂ p hp

/-- ... also when a plain file stands where the output directory goes (second observed run). -/
theorem stale_output_irrelevant_plain_file (out : Path) (ws : List (List (Path × Str))) (fs₁ fs₂ : FS) (p : Path)
    (hp : isUnder out p = true) :
    look (run (stepsOps out Gen.C12.writeoutStepsPlainFile ws) fs₁) p
      = look (run (stepsOps out Gen.C12.writeoutStepsPlainFile ws) fs₂) p :=
  stale_output_irrelevant_steps Gen.C12.writeoutStepsPlainFile (by decide) out ws fs₁ fs₂ p hp

/-- Without the removal a stale file survives (why `removeFirst` is needed). -/
theorem stale_output_witness :
    look (run (stepsOps ["doc".toList] ["write".toList] [[(["a".toList], "x".toList)]])
      [(["doc".toList, "old".toList], "stale".toList)]) ["doc".toList, "old".toList] = some "stale".toList ∧
    look (run (stepsOps ["doc".toList] ["removeOut".toList, "write".toList] [[(["a".toList], "x".toList)]])
      [(["doc".toList, "old".toList], "stale".toList)]) ["doc".toList, "old".toList] = none := by decide

/-! ## number of worker processes -/

/-- Clause "regardless of the number of worker processes": the graph files written
    by `output_graphs` are the same for every `parallel` value and every completion
    order of the workers, because the tasks write pairwise different files. -/
theorem parallel_irrelevant (n₁ n₂ : Nat) (sched₁ sched₂ : List (Path × Str) → List (Path × Str))
    (h₁ : ∀ t, (sched₁ t).Perm t) (h₂ : ∀ t, (sched₂ t).Perm t)
    (tasks : List (Path × Str)) (hnd : (tasks.map (·.1)).Nodup) (fs : FS) (p : Path) :
    look (run (graphWrites n₁ sched₁ tasks) fs) p = look (run (graphWrites n₂ sched₂ tasks) fs) p := by
  have key : ∀ (l : List (Path × Str)), l.Perm tasks →
      look (run (l.map (fun w => Op.write w.1 w.2)) fs) p =
      look (run (tasks.map (fun w => Op.write w.1 w.2)) fs) p := by
    intro l hl
    rw [look_run_writes, look_run_writes]
    have hr : l.reverse.Perm tasks.reverse :=
      (List.reverse_perm l).trans (hl.trans (List.reverse_perm tasks).symm)
    have hndl : (l.reverse.map (·.1)).Nodup :=
      ((hr.trans (List.reverse_perm tasks)).map _).nodup_iff.mpr hnd
    rw [find?_perm_nodup l.reverse tasks.reverse hr hndl p]
  unfold graphWrites
  have a : ∀ (n : Nat) (sched : List (Path × Str) → List (Path × Str)), (∀ t, (sched t).Perm t) →
      ((if (n == 0) = true then tasks else sched tasks)).Perm tasks := by
    intro n sched hs
    split
    · exact List.Perm.refl _
    · exact hs tasks
  rw [key _ (a n₁ sched₁ h₁), key _ (a n₂ sched₂ h₂)]

/-- The serial and the `process_map` branch of `output_graphs` write the same graphs
    of the same collections (both tables regenerated from the source). -/
theorem parallel_branches_same_graphs : Gen.C12.serialGraphs = Gen.C12.parallelGraphs := by decide

/-- The hypothesis is needed: two tasks writing the same file make the schedule visible. -/
theorem parallel_collision_witness :
    look (run (graphWrites 0 id [(["g".toList], "1".toList), (["g".toList], "2".toList)]) []) ["g".toList]
      ≠ look (run (graphWrites 2 List.reverse [(["g".toList], "1".toList), (["g".toList], "2".toList)]) [])
          ["g".toList] := by decide

/-! ## copies of the sources -/

/-- `src/<basename>` copies: with pairwise different basenames the copied tree does
    not depend on the file order ... -/
theorem src_copies_order_irrelevant_partial (f₁ f₂ : List SrcFile) (hp : f₁.Perm f₂)
    (hb : (f₁.map (·.base)).Nodup) (fs : FS) (p : Path) :
    look (run (srcCopyOps f₁) fs) p = look (run (srcCopyOps f₂) fs) p := by
  have e : ∀ f : List SrcFile, srcCopyOps f =
      (f.map (fun x => ((["src".toList, x.base] : Path), x.content))).map (fun w => Op.write w.1 w.2) := by
    intro f; simp [srcCopyOps]
  rw [e, e, look_run_writes, look_run_writes]
  have hr : (f₁.map (fun x => ((["src".toList, x.base] : Path), x.content))).reverse.Perm
      (f₂.map (fun x => ((["src".toList, x.base] : Path), x.content))).reverse :=
    (List.reverse_perm _).trans ((hp.map _).trans (List.reverse_perm _).symm)
  have hnd : ((f₁.map (fun x => ((["src".toList, x.base] : Path), x.content))).reverse.map (·.1)).Nodup := by
    rw [List.map_reverse, (List.reverse_perm _).nodup_iff, List.map_map]
    have : ((fun x : Path × Str => x.1) ∘ fun x : SrcFile => ((["src".toList, x.base] : Path), x.content))
        = (fun b => ["src".toList, b]) ∘ (·.base) := rfl
    rw [this, ← List.map_map]
    exact nodup_map_inj (fun b : Str => (["src".toList, b] : Path)) (fun a b h => by simpa using h) _ hb
  rw [find?_perm_nodup _ _ hr hnd p]

/-- ... and with two files of the same basename the survivor is decided by the order. -/
theorem src_copies_order_witness :
    look (run (srcCopyOps [wa, { wb with base := "a.f90".toList }]) []) ["src".toList, "a.f90".toList]
      ≠ look (run (srcCopyOps [{ wb with base := "a.f90".toList }, wa]) []) ["src".toList, "a.f90".toList] := by
  decide

/-! ## include directories -/

/-- Specification of the include look-up (`FortranReader.include`): the file is taken from the including
    file's own directory if it is there, else from the *first* directory of the list that holds it. -/
theorem include_first_hit_wins (has : Str → Bool) (own d : Str) (dirs : List Str)
    (h : resolveInclude has own dirs = some d) :
    has d = true ∧ ((d = own) ∨ (has own = false ∧ ∃ pre post, dirs = pre ++ d :: post ∧ ∀ x ∈ pre, has x = false)) := by
  unfold resolveInclude at h
  rw [List.find?_cons] at h
  cases ho : has own with
  | true =>
    rw [ho] at h
    simp at h
    subst h
    exact ⟨ho, Or.inl rfl⟩
  | false =>
    rw [ho] at h
    simp only at h
    obtain ⟨hd, pre, post, he, hpre⟩ := List.find?_eq_some_iff_append.mp h
    refine ⟨hd, Or.inr ⟨rfl, pre, post, he, ?_⟩⟩
    intro x hx
    simpa using hpre x hx

/-- Clause "regardless of string-hash randomisation" for `include` files, as the tree is: the reader keeps
    and probes the configured directories in the order given (switch regenerated from the AST of
    `FortranReader.__init__` / `include` on every run), so the file that is documented does not depend on
    any iteration order `ω` — whatever the directories hold. -/
theorem include_resolution_tree_deterministic (ω₁ ω₂ : List Str → List Str) (has : Str → Bool) (own : Str)
    (cfg : List Str) : resolveIncludeTree ω₁ has own cfg = resolveIncludeTree ω₂ has own cfg := by
  have h : Gen.C12.incDirsOrdered = true := by decide
  simp [resolveIncludeTree, incDirsKept, h]

/-- What holds even when the directories go through a hash-ordered collection: if at most one of them holds
    the file, every iteration order finds the same file ... -/
theorem include_resolution_perm_partial (has : Str → Bool) (own : Str) (d₁ d₂ : List Str) (hp : d₁.Perm d₂)
    (hu : ∀ a b, a ∈ d₁ → b ∈ d₁ → has a = true → has b = true → a = b) :
    resolveInclude has own d₁ = resolveInclude has own d₂ := by
  unfold resolveInclude
  rw [List.find?_cons, List.find?_cons]
  cases has own with
  | true => rfl
  | false => exact find?_perm_unique has d₁ d₂ hp hu

/-- ... and a file next to the including source file always wins. -/
theorem include_own_dir_first (has : Str → Bool) (own : Str) (d₁ d₂ : List Str) (h : has own = true) :
    resolveInclude has own d₁ = resolveInclude has own d₂ := by
  simp [resolveInclude, List.find?_cons, h]

/-- Two directories holding the file, iterated in hash order: the documented file depends on the order. -/
theorem include_resolution_order_witness :
    resolveInclude (fun d => d != "src".toList) "src".toList (incDirsKept false List.reverse ["a".toList, "b".toList])
      ≠ resolveInclude (fun d => d != "src".toList) "src".toList (incDirsKept false id ["a".toList, "b".toList]) ∧
    resolveInclude (fun d => d != "src".toList) "src".toList (incDirsKept true List.reverse ["a".toList, "b".toList])
      = resolveInclude (fun d => d != "src".toList) "src".toList (incDirsKept true id ["a".toList, "b".toList]) := by
  decide

/-! ## inherited components and type-bound procedures -/

/-- The inherited bindings keep the parent's declaration order ... -/
theorem inherited_bindings_source_order (parent own : List Binding) :
    (inheritedBindings parent own).Sublist parent := by
  unfold inheritedBindings
  exact List.filter_sublist

/-- ... and are exactly the parent's bindings that are neither private nor overridden. -/
theorem inherited_bindings_mem (parent own : List Binding) (bp : Binding) :
    bp ∈ inheritedBindings parent own ↔ bp ∈ parent ∧ bp.priv = false ∧ overrides own bp = false := by
  simp [inheritedBindings, List.mem_filter]

/-- Source order is the *only* admissible result: any enumeration of the inherited bindings (for instance the
    iteration order of a set of them) that respects the parent's declaration order is the model's list.  So
    "the page lists them in declaration order" leaves no freedom that a hash seed could fill. -/
theorem inherited_bindings_only_source_order (parent own l : List Binding) (hn : parent.Nodup)
    (hperm : l.Perm (inheritedBindings parent own)) (hsub : l.Sublist parent) :
    l = inheritedBindings parent own :=
  sublist_perm_eq hsub (inherited_bindings_source_order parent own) hperm hn

/-- Clause "regardless of string-hash randomisation" for the bindings and components a type shows, as the tree
    is: the loops of `FortranType.correlate` that collect inherited entities walk the parent's lists (switch
    regenerated from the AST on every run), so no iteration order `ω` is visible — for a single type ... -/
theorem type_bindings_tree_deterministic (ω₁ ω₂ : List Binding → List Binding) (parent own : List Binding) :
    typeBindings Gen.C12.inheritedIterOrdered ω₁ parent own = typeBindings Gen.C12.inheritedIterOrdered ω₂ parent own ∧
    typeComps Gen.C12.inheritedIterOrdered ω₁ parent own = typeComps Gen.C12.inheritedIterOrdered ω₂ parent own := by
  have h : Gen.C12.inheritedIterOrdered = true := by decide
  simp [typeBindings, typeComps, h]

/-- ... and along an inheritance chain of any depth. -/
theorem chain_bindings_tree_deterministic (ω₁ ω₂ : List Binding → List Binding) (levels : List (List Binding)) :
    chainBindings Gen.C12.inheritedIterOrdered ω₁ levels = chainBindings Gen.C12.inheritedIterOrdered ω₂ levels ∧
    chainComps Gen.C12.inheritedIterOrdered ω₁ levels = chainComps Gen.C12.inheritedIterOrdered ω₂ levels := by
  have h : Gen.C12.inheritedIterOrdered = true := by decide
  simp [chainBindings, chainComps, typeBindings, typeComps, h]

/-- What holds even when the inherited bindings are collected from a hash-ordered collection: with at most
    one inherited binding there is only one order. -/
theorem type_bindings_perm_partial (ω₁ ω₂ : List Binding → List Binding) (hω₁ : ∀ l, (ω₁ l).Perm l)
    (hω₂ : ∀ l, (ω₂ l).Perm l) (parent own : List Binding) (h1 : (inheritedBindings parent own).length ≤ 1) :
    typeBindings false ω₁ parent own = typeBindings false ω₂ parent own := by
  simp only [typeBindings, Bool.false_eq_true, if_false]
  have key : ∀ ω : List Binding → List Binding, (∀ l, (ω l).Perm l) →
      ω (inheritedBindings parent own) = inheritedBindings parent own := by
    intro ω hω
    have hp := hω (inheritedBindings parent own)
    match hi : inheritedBindings parent own, hp, h1 with
    | [], hp, _ => exact List.perm_nil.mp hp
    | [a], hp, _ => exact List.perm_singleton.mp hp
    | _ :: _ :: _, _, h1 => simp at h1
  rw [key ω₁ hω₁, key ω₂ hω₂]

/-- Two inherited bindings collected in hash order: the page of the child lists them in either order. -/
theorem type_bindings_order_witness :
    typeBindings false List.reverse [⟨"area".toList, false⟩, ⟨"show".toList, false⟩, ⟨"init".toList, true⟩]
        [⟨"Show".toList, false⟩, ⟨"scale".toList, false⟩]
      = [⟨"area".toList, false⟩, ⟨"Show".toList, false⟩, ⟨"scale".toList, false⟩] ∧
    typeBindings false List.reverse [⟨"area".toList, false⟩, ⟨"show".toList, false⟩] []
      ≠ typeBindings false id [⟨"area".toList, false⟩, ⟨"show".toList, false⟩] [] ∧
    typeBindings true List.reverse [⟨"area".toList, false⟩, ⟨"show".toList, false⟩] []
      = typeBindings true id [⟨"area".toList, false⟩, ⟨"show".toList, false⟩] [] := by
  decide

/-! ## what an earlier run left in the output directory is not read either -/

/-- Clause "regardless of what an earlier run left in the output directory", input side: `find_all_files`
    returns the same files for any two file systems that differ only below a directory on the exclude list —
    so the copies of the sources (`src/*.f90`) or any other stale output below an excluded output directory are
    never parsed, even when that directory lies inside a source directory. -/
theorem stale_output_never_read (srcDirs excl : List Path) (exts : List Str) (out : Path) (h : out ∈ excl)
    (fs₁ fs₂ : FS)
    (hfs : (fs₁.map (·.1)).filter (fun p => !isBelow out p) = (fs₂.map (·.1)).filter (fun p => !isBelow out p)) :
    findSources srcDirs excl exts fs₁ = findSources srcDirs excl exts fs₂ := by
  rw [findSources_eq_filter_notBelow srcDirs excl exts out h fs₁,
      findSources_eq_filter_notBelow srcDirs excl exts out h fs₂, hfs]

/-- However the output directory is configured (table probed on every run through the real `load_settings`,
    `parse_arguments` and `find_all_files`: project file / default / command line, with and without
    `project_url`), it ends up excluded from the source search — or the configuration is the one of an open
    finding.  A change that excludes it only under some condition makes this fail. -/
theorem output_dir_excluded_however_configured :
    ∀ c ∈ Gen.C12.outputDirExcludedIn, c.2 = true ∨ c.1 ∈ defectiveOutDirConfigs := by
  decide

/-- ... hence, as the tree is, for every probed configuration outside the open finding: what the output
    directory holds before the run does not change the set of files that are parsed. -/
theorem stale_output_never_read_tree (cfg : Str) (hc : cfg ∈ Gen.C12.outputDirExcludedIn.map (·.1))
    (hd : cfg ∉ defectiveOutDirConfigs) (srcDirs userExcl : List Path) (out : Path) (exts : List Str)
    (fs₁ fs₂ : FS)
    (hfs : (fs₁.map (·.1)).filter (fun p => !isBelow out p) = (fs₂.map (·.1)).filter (fun p => !isBelow out p)) :
    findSourcesTree cfg srcDirs userExcl out exts fs₁ = findSourcesTree cfg srcDirs userExcl out exts fs₂ := by
  have key : ∀ c ∈ Gen.C12.outputDirExcludedIn.map (·.1), c ∉ defectiveOutDirConfigs → outDirExcluded c = true := by
    decide
  have he := key cfg hc hd
  unfold findSourcesTree excludeDirsTree
  rw [he]
  exact stale_output_never_read srcDirs (userExcl ++ [out]) exts out (by simp) fs₁ fs₂ hfs

/-- Why the exclusion is needed: an output directory inside the source directory that still holds the copy of
    a source file from an earlier run — not excluded, the copy is parsed as a second source file. -/
theorem stale_output_read_witness :
    findSources [[cs! "src"]] [] [cs! "f90"]
        [([cs! "src", cs! "a.f90"], []), ([cs! "src", cs! "html", cs! "src", cs! "a.f90"], [])]
      = [[cs! "src", cs! "a.f90"], [cs! "src", cs! "html", cs! "src", cs! "a.f90"]] ∧
    findSources [[cs! "src"]] [[cs! "src", cs! "html"]] [cs! "f90"]
        [([cs! "src", cs! "a.f90"], []), ([cs! "src", cs! "html", cs! "src", cs! "a.f90"], [])]
      = findSources [[cs! "src"]] [[cs! "src", cs! "html"]] [cs! "f90"] [([cs! "src", cs! "a.f90"], [])] := by
  decide

/-! ## the order of the extension list (built from a set union) -/

/-- Deciding the kind of a file (free / fixed form, preprocessed or not, extra file type, skipped) from the
    *last suffix* of its name by membership tests: the order in which `settings.extensions` — a
    `list(set(..) | set(..))` — lists the extensions is invisible. -/
theorem file_kind_by_suffix_order_irrelevant (c : ExtCfg) (e' : List Str) (hp : e'.Perm c.exts) (name : Str) :
    fileKind true { c with exts := e' } name = fileKind true c name := by
  simp only [fileKind, extensionOf, if_true]
  rw [contains_perm (hp.append_right c.fixed)]

/-- Clause "regardless of string-hash randomisation" for the extension list, as the tree is (switch probed on
    the real `Project.__init__` on every run): whether a file is parsed, preprocessed, read as fixed form or
    treated as an extra file does not depend on the order `ω` of the set union. -/
theorem file_kind_tree_deterministic (ω₁ ω₂ : List Str → List Str) (h₁ : ∀ l, (ω₁ l).Perm l)
    (h₂ : ∀ l, (ω₂ l).Perm l) (c : ExtCfg) (name : Str) : fileKindTree ω₁ c name = fileKindTree ω₂ c name := by
  have h : Gen.C12.extensionBySuffix = true := by decide
  unfold fileKindTree
  rw [h, file_kind_by_suffix_order_irrelevant c (ω₁ c.exts) (h₁ c.exts) name,
      file_kind_by_suffix_order_irrelevant c (ω₂ c.exts) (h₂ c.exts) name]

/-- What holds even when the first configured extension the name ends with wins: if the name ends with at most
    one configured extension, the order of the list is still invisible ... -/
theorem file_kind_first_match_partial (c : ExtCfg) (e' : List Str) (hp : e'.Perm c.exts) (name : Str)
    (hu : ∀ a b, a ∈ c.exts ++ c.fixed ++ c.extra → b ∈ c.exts ++ c.fixed ++ c.extra →
      endsWithExt name a = true → endsWithExt name b = true → a = b) :
    fileKind false { c with exts := e' } name = fileKind false c name := by
  have hperm : (e' ++ c.fixed ++ c.extra).Perm (c.exts ++ c.fixed ++ c.extra) :=
    (hp.append_right c.fixed).append_right c.extra
  have hf : (e' ++ c.fixed ++ c.extra).find? (endsWithExt name) = (c.exts ++ c.fixed ++ c.extra).find? (endsWithExt name) :=
    find?_perm_unique _ _ _ hperm
      (fun a b ha hb => hu a b (hperm.mem_iff.mp ha) (hperm.mem_iff.mp hb))
  simp only [fileKind, extensionOf, Bool.false_eq_true, if_false, hf]
  rw [contains_perm (hp.append_right c.fixed)]

/-- ... and visible as soon as one configured extension is a dotted suffix of another (`f90` / `pp.f90`):
    `x.pp.f90` is preprocessed or not depending on the hash order.  By the last suffix it never is. -/
theorem file_kind_first_match_order_witness :
    fileKind false ⟨[cs! "f90", cs! "pp.f90"], [], [cs! "pp.f90"], []⟩ (cs! "x.pp.f90") = .fortran false false ∧
    fileKind false ⟨[cs! "pp.f90", cs! "f90"], [], [cs! "pp.f90"], []⟩ (cs! "x.pp.f90") = .fortran true false ∧
    fileKind true ⟨[cs! "f90", cs! "pp.f90"], [], [cs! "pp.f90"], []⟩ (cs! "x.pp.f90") = .fortran false false ∧
    fileKind true ⟨[cs! "pp.f90", cs! "f90"], [], [cs! "pp.f90"], []⟩ (cs! "x.pp.f90") = .fortran false false := by
  decide

/-! ## hash-ordered collections turned into sequences, anywhere in the package -/

/-- Every place in `ford/*.py` where a syntactically hash-ordered collection (set, set operator on sets or dict
    views, a name or attribute bound to one) is iterated, listed, joined or unpacked (table regenerated from the
    sources on every run) goes through `sorted(...)`, or is one of the sites reviewed as order-insensitive, or is
    the site of an open finding.  A new `list(set(..))` / `for x in a.keys() - b` makes this fail. -/
theorem hash_iter_sites_all_reviewed :
    ∀ s ∈ Gen.C12.hashIterSites,
      s.2 = true ∨ s.1 ∈ reviewedHashIterSites ∨ s.1 ∈ defectiveHashIterSites := by
  decide

/-! ## the key `sorted()` compares -/

/-- Clause "regardless of string-hash randomisation" for every `sorted(<set of graph nodes>)`, as the tree is:
    `BaseNode.__lt__` compares the identifier the set is keyed by (switch regenerated from the AST on every
    run), so whatever order the set is iterated in, the nodes are emitted in one order - also when several
    nodes carry the same label. -/
theorem graph_nodes_tree_deterministic (n₁ n₂ : List Node) (hp : n₁.Perm n₂)
    (hid : (n₁.map (·.ident)).Nodup) : emitNodesTree n₁ = emitNodesTree n₂ := by
  have h : Gen.C12.nodeLtByIdent = true := by decide
  have hk : nodeKeyOf true = (·.ident) := by funext n; simp [nodeKeyOf]
  simp only [emitNodesTree, emitNodesBy, h, hk]
  exact sortOn_perm_of_nodup _ n₁ n₂ hp hid

/-- ... and the same for `sorted(<set of entities>)` (`FortranBase.__lt__`; toposort levels, `graph_all`),
    for sets whose members have pairwise different identifiers. -/
theorem entities_sorted_tree_deterministic (e₁ e₂ : List Node) (hp : e₁.Perm e₂)
    (hid : (e₁.map (·.ident)).Nodup) : sortEntitiesTree e₁ = sortEntitiesTree e₂ := by
  have h : Gen.C12.entityLtByIdent = true := by decide
  have hk : nodeKeyOf true = (·.ident) := by funext n; simp [nodeKeyOf]
  simp only [sortEntitiesTree, emitNodesBy, h, hk]
  exact sortOn_perm_of_nodup _ e₁ e₂ hp hid

/-- What holds for any compared key: node sets in which the key happens to distinguish the members. -/
theorem graph_nodes_any_key_partial (byIdent : Bool) (n₁ n₂ : List Node) (hp : n₁.Perm n₂)
    (hk : (n₁.map (nodeKeyOf byIdent)).Nodup) : emitNodesBy byIdent n₁ = emitNodesBy byIdent n₂ :=
  sortOn_perm_of_nodup _ n₁ n₂ hp hk

/-- Ordered by the label, two equally named procedures of different modules come out in the iteration order
    of the set; ordered by the identifier they do not. -/
theorem graph_nodes_label_key_witness :
    emitNodesBy false [⟨cs! "proc~helper", cs! "helper"⟩, ⟨cs! "proc~helper~2", cs! "Helper"⟩]
      ≠ emitNodesBy false [⟨cs! "proc~helper~2", cs! "Helper"⟩, ⟨cs! "proc~helper", cs! "helper"⟩] ∧
    emitNodesBy true [⟨cs! "proc~helper", cs! "helper"⟩, ⟨cs! "proc~helper~2", cs! "Helper"⟩]
      = emitNodesBy true [⟨cs! "proc~helper~2", cs! "Helper"⟩, ⟨cs! "proc~helper", cs! "helper"⟩] := by
  refine ⟨?_, graph_nodes_any_key_partial true _ _ (List.Perm.swap _ _ _) (by decide)⟩
  rw [emitNodesBy, emitNodesBy, sortOn_of_sorted _ _ (by decide), sortOn_of_sorted _ _ (by decide)]
  decide

/-- Every class of `ford/*.py` that defines an order (table regenerated on every run) compares the identifier,
    and where the class also defines the identity of its objects in a set (`__eq__`, `__hash__`) it is the same
    attribute: the order distinguishes whatever the set distinguishes. -/
theorem order_defs_compare_the_set_identity :
    ∀ d ∈ Gen.C12.orderDefs, d.2.1 = cs! "ident" ∧ (d.2.2.1 = [] ∨ d.2.2.1 = d.2.1) ∧ (d.2.2.2 = [] ∨ d.2.2.2 = d.2.1) := by
  decide

/-- Every `sorted()` / `.sort()` / keyed `min`, `max` of `ford/*.py` and every sort filter of the templates
    (table regenerated on every run) uses the natural order of its elements (no `key=`, not reversed), or is one
    of the keyed sorts reviewed as working on an input whose order is itself determined.  In particular no sort of
    a set or of a directory listing has a key. -/
theorem sort_sites_natural_or_reviewed :
    ∀ s ∈ Gen.C12.sortSites,
      (s.2.2.1 = [] ∧ s.2.2.2 = []) ∨
      (s.2.1 = cs! "other" ∧ s.2.2.2 = [] ∧ (s.1, s.2.2.1) ∈ reviewedKeyedSorts) := by
  decide

/-! ## page directories -/

/-- Clause "regardless of the order in which the file system enumerates" for the page tree, as the tree is:
    the listing of a page directory is sorted by the entry names themselves (switch regenerated from the AST of
    `get_page_tree` on every run) and the names in one directory are pairwise different, so the entries are
    walked in one order whatever `os.listdir` returns - for every `ordered_subpage` list. -/
theorem page_entries_tree_deterministic (ordered e₁ e₂ : List Str) (hp : e₁.Perm e₂) (hnd : e₁.Nodup) :
    pageFileListTree ordered e₁ = pageFileListTree ordered e₂ := by
  have h : Gen.C12.pageListNatural = true := by decide
  have hk : pageKey true = id := by funext n; simp [pageKey]
  simp only [pageFileListTree, pageFileList, h, hk]
  rw [sortOn_perm_of_nodup id e₁ e₂ hp (by simpa using hnd)]

/-- What holds for a keyed listing too: directories in which the key distinguishes the entries. -/
theorem page_entries_any_key_partial (natural : Bool) (ordered e₁ e₂ : List Str) (hp : e₁.Perm e₂)
    (hk : (e₁.map (pageKey natural)).Nodup) : pageFileList natural ordered e₁ = pageFileList natural ordered e₂ := by
  simp only [pageFileList]
  rw [sortOn_perm_of_nodup _ e₁ e₂ hp hk]

/-- The walk starts with the user's `ordered_subpage` entries (those that are shown), in the order given:
    the listing only decides the rest. -/
theorem page_entries_user_order_first (natural : Bool) (o : Str) (ordered enum : List Str) :
    ∃ rest, pageFileList natural (o :: ordered) enum = (if pageVisible o then [o] else []) ++ rest := by
  simp only [pageFileList, List.isEmpty_cons, Bool.false_eq_true, if_false, List.cons_append, dedupAux,
    List.contains_nil, List.filter_cons]
  split <;> exact ⟨_, rfl⟩

/-- Sorted by the lower-cased stem, a page `usage.md` next to a sub-directory `usage` (or `FAQ.md` next to
    `faq.md`) is walked in the order of the file system; sorted by name it is not. -/
theorem page_entries_stem_key_witness :
    pageFileList false [] [cs! "index.md", cs! "usage.md", cs! "usage"]
      ≠ pageFileList false [] [cs! "index.md", cs! "usage", cs! "usage.md"] ∧
    pageFileList false [] [cs! "FAQ.md", cs! "faq.md"] ≠ pageFileList false [] [cs! "faq.md", cs! "FAQ.md"] ∧
    pageFileList true [] [cs! "index.md", cs! "usage.md", cs! "usage"]
      = pageFileList true [] [cs! "index.md", cs! "usage", cs! "usage.md"] := by
  refine ⟨?_, ?_, page_entries_any_key_partial true [] _ _ ((List.Perm.swap _ _ _).cons _) (by decide)⟩
  · simp only [pageFileList]
    rw [sortOn_of_sorted _ _ (by decide), sortOn_of_sorted _ _ (by decide)]
    decide
  · simp only [pageFileList]
    rw [sortOn_of_sorted _ _ (by decide), sortOn_of_sorted _ _ (by decide)]
    decide

/-! ## round 6: the colours of graph edges -/

/-- Clause "regardless of string-hash randomisation" for the colours of the edges of a graph hop
    (`coloured_edges`), as the tree is (switch probed on the real `FortranGraph.add_nodes` on every run): the
    colour number of a node is its position in the *sorted* hop, so for every two iteration orders of the node set
    (`n₁ ~ n₂`) and whatever the set hands out (`ω₁`, `ω₂`), every edge gets the same colour. -/
theorem edge_colours_tree_deterministic (ω₁ ω₂ : List Node → List Node) (n₁ n₂ : List Node) (hp : n₁.Perm n₂)
    (hid : (n₁.map (·.ident)).Nodup) : hopColoursTree ω₁ n₁ = hopColoursTree ω₂ n₂ := by
  have h : Gen.C12.edgeColourBySortedIndex = true := by decide
  simp only [hopColoursTree, hopColours, h, if_true]
  rw [graph_nodes_tree_deterministic n₁ n₂ hp hid]

/-- The emission order never depends on how the colours are numbered: with either rule the nodes of the hop come
    out in the one sorted order (only the colour numbers can move). -/
theorem edge_colours_emission_order (b : Bool) (ω : List Node → List Node) (nodes : List Node) :
    (hopColours b ω nodes).map (·.1) = (emitNodesTree nodes).map (·.ident) := by
  simp [hopColours, Function.comp_def]

/-- What numbering by iteration order still guarantees: a hop with at most one node. -/
theorem edge_colours_iteration_order_partial (ω₁ ω₂ : List Node → List Node) (nodes : List Node)
    (h₁ : ∀ l, (ω₁ l).Perm l) (h₂ : ∀ l, (ω₂ l).Perm l) (hlen : nodes.length ≤ 1) :
    hopColours false ω₁ nodes = hopColours false ω₂ nodes := by
  match nodes, hlen with
  | [], _ =>
    have e₁ := (h₁ []).eq_nil
    have e₂ := (h₂ []).eq_nil
    simp [hopColours, e₁, e₂]
  | [a], _ =>
    have e₁ := List.perm_singleton.mp (h₁ [a])
    have e₂ := List.perm_singleton.mp (h₂ [a])
    simp [hopColours, e₁, e₂]

/-- Numbering the nodes by enumerating the set: the two iteration orders of a two-node hop give every edge the
    other colour; numbering the sorted list gives one colouring. -/
theorem edge_colours_set_order_witness :
    hopColours false id [⟨cs! "proc~assemble", cs! "assemble"⟩, ⟨cs! "proc~solve", cs! "solve"⟩]
      ≠ hopColours false List.reverse [⟨cs! "proc~assemble", cs! "assemble"⟩, ⟨cs! "proc~solve", cs! "solve"⟩] ∧
    hopColours true id [⟨cs! "proc~assemble", cs! "assemble"⟩, ⟨cs! "proc~solve", cs! "solve"⟩]
      = hopColours true List.reverse [⟨cs! "proc~assemble", cs! "assemble"⟩, ⟨cs! "proc~solve", cs! "solve"⟩] := by
  have h : Gen.C12.nodeLtByIdent = true := by decide
  refine ⟨?_, by simp [hopColours]⟩
  simp only [hopColours, emitNodesTree, emitNodesBy, h]
  rw [sortOn_of_sorted _ _ (by decide)]
  decide

/-! ## round 6: source files reachable under more than one path -/

/-- The model of round 5 is the `firstCome = false` instance on the paths of the file system. -/
theorem find_sources_listed_eq_findSources (real : Path → Path) (srcDirs excl : List Path) (exts : List Str) (fs : FS) :
    findSourcesListed false real srcDirs excl exts (fs.map (·.1)) = findSources srcDirs excl exts fs := by
  simp [findSourcesListed, findSources]

/-- Clause "regardless of ... the order in which the file system enumerates source files" for the *set* of source
    files, as the tree is (switch probed on the real `find_all_files` over a directory with symbolic links,
    enumerated in two orders, on every run): two enumeration orders of the same directory entries give the same
    files (as a set: one a permutation of the other) - also when several paths lead to one file. -/
theorem find_sources_enumeration_order_irrelevant_tree (real : Path → Path) (srcDirs excl : List Path) (exts : List Str)
    (l₁ l₂ : List Path) (hp : l₁.Perm l₂) :
    (findSourcesListedTree real srcDirs excl exts l₁).Perm (findSourcesListedTree real srcDirs excl exts l₂) := by
  have h : Gen.C12.sourceAliasesFirstCome = false := by decide
  simp only [findSourcesListedTree, findSourcesListed, h]
  exact hp.filter _

/-- ... and therefore the order in which the files are parsed (the sorted set) is one list for every enumeration
    order of a directory without repeated entries. -/
theorem parse_order_enumeration_irrelevant_tree (real : Path → Path) (srcDirs excl : List Path) (exts : List Str)
    (key : Path → Str) (hkey : ∀ a b, key a = key b → a = b)
    (l₁ l₂ : List Path) (hp : l₁.Perm l₂) :
    sortOn key (findSourcesListedTree real srcDirs excl exts l₁) = sortOn key (findSourcesListedTree real srcDirs excl exts l₂) :=
  sortOn_perm key _ _ (find_sources_enumeration_order_irrelevant_tree real srcDirs excl exts l₁ l₂ hp)
    (fun a b _ _ hab => hkey a b hab)

/-- Keeping the first path of every file is harmless exactly when no file has two paths: if `real` is injective on
    the listing, nothing is dropped. -/
theorem find_sources_first_come_partial (real : Path → Path) (seen l : List Path)
    (hnd : (l.map real).Nodup) (hs : ∀ p ∈ l, real p ∉ seen) : dedupByReal real seen l = l := by
  induction l generalizing seen with
  | nil => simp [dedupByReal]
  | cons p ps ih =>
    have hp : seen.contains (real p) = false := by
      simpa using hs p (by simp)
    simp only [dedupByReal, hp]
    simp only [List.map_cons, List.nodup_cons] at hnd
    rw [ih (real p :: seen) hnd.2]
    · simp
    · intro q hq
      simp only [List.mem_cons, not_or]
      refine ⟨?_, hs q (by simp [hq])⟩
      intro e
      exact hnd.1 (e ▸ List.mem_map_of_mem hq)

/-- First-come among the paths of one file: `compat/blas_axpy.f90` is a link to `legacy/axpy.f90`; listed in two
    orders, two different files are documented.  With every path kept the two listings give the same set. -/
theorem find_sources_first_come_order_witness :
    let a : Path := [cs! "src", cs! "legacy", cs! "axpy.f90"]
    let b : Path := [cs! "src", cs! "compat", cs! "blas_axpy.f90"]
    let real : Path → Path := fun p => if p == b then a else p
    findSourcesListed true real [[cs! "src"]] [] [cs! "f90"] [a, b] = [a] ∧
    findSourcesListed true real [[cs! "src"]] [] [cs! "f90"] [b, a] = [b] ∧
    findSourcesListed false real [[cs! "src"]] [] [cs! "f90"] [a, b] = [a, b] ∧
    findSourcesListed false real [[cs! "src"]] [] [cs! "f90"] [b, a] = [b, a] := by
  decide

/-! ## round 6: `sort:` - the entity lists sorted by a key that leaves ties -/

/-- Every value the `sort` option may take (keys of `SORT_KEY_FUNCTIONS`, regenerated from the source on every
    run) is `src` or has its key function in the model. -/
theorem sort_modes_all_modelled :
    ∀ m ∈ Gen.C12.sortModes, m = cs! "src" ∨ (sortKeyFn m).isSome = true := by
  decide

/-- `sort: src` (the default) leaves every list in source order. -/
theorem sort_components_src_identity (l : List Comp) : sortComponents (cs! "src") l = l := by
  have h : sortKeyFn (lower (cs! "src")) = none := by decide
  simp [sortComponents, h]

/-- Sorting loses and invents nothing: the sorted list is a permutation of the source-order list. -/
theorem sort_components_perm (mode : Str) (l : List Comp) : (sortComponents mode l).Perm l := by
  unfold sortComponents
  split
  · exact sortOn_perm_self _ l
  · exact List.Perm.refl l

/-- ... and it is ordered by the key of the mode. -/
theorem sort_components_ordered (mode : Str) (key : Comp → Str) (h : sortKeyFn (lower mode) = some key) (l : List Comp) :
    (sortComponents mode l).Pairwise (fun a b => strLe (key a) (key b) = true) := by
  simp only [sortComponents, h]
  exact sortOn_sorted key l

/-- The part of the clause "output is a function of the inputs" that a key with ties (`permission`, `type`: many
    entities share a key) rests on: `list.sort` is stable, so the entities that share a key value `k` keep exactly
    their source order - no other order (hash, enumeration) can enter through the ties.  For every mode, every
    list, every key value. -/
theorem sort_components_ties_keep_source_order (mode : Str) (key : Comp → Str) (h : sortKeyFn (lower mode) = some key)
    (l : List Comp) (k : Str) :
    (sortComponents mode l).filter (fun c => key c == k) = l.filter (fun c => key c == k) := by
  simp only [sortComponents, h, sortOn]
  have hsub : (l.filter (fun c => key c == k)).Sublist (l.mergeSort (fun a b => strLe (key a) (key b))) := by
    apply List.sublist_mergeSort (le := fun a b => strLe (key a) (key b))
      (fun a b c => strLe_trans _ _ _) (fun a b => strLe_total _ _)
    · rw [List.pairwise_filter]
      apply List.pairwise_of_forall
      intro a b ha hb
      simp only [beq_iff_eq] at ha hb
      rw [ha, hb]; exact strLe_refl k
    · exact List.filter_sublist
  have h2 := hsub.filter (fun c => key c == k)
  rw [List.filter_filter] at h2
  simp only [Bool.and_self] at h2
  exact (h2.eq_of_length (by
    rw [← List.countP_eq_length_filter, ← List.countP_eq_length_filter]
    exact ((List.mergeSort_perm l _).countP_eq _).symm)).symm

/-- Why the lists handed to the sort must themselves be in a determined (source) order: two entities of equal
    permission, given in two orders, come out in two orders under `sort: permission`. -/
/- (the last conjunct: under `alpha` the names tell the two apart, and both orders give one list) -/
theorem sort_components_input_order_witness :
    let v : VarSig := ⟨cs! "integer", [], [], []⟩
    let a : Comp := ⟨1, cs! "beta", cs! "variable", cs! "public", v, [], none⟩
    let b : Comp := ⟨2, cs! "alpha", cs! "variable", cs! "public", v, [], none⟩
    sortComponents (cs! "permission") [a, b] = [a, b] ∧ sortComponents (cs! "permission") [b, a] = [b, a] ∧
    sortComponents (cs! "alpha") [a, b] = sortComponents (cs! "alpha") [b, a] := by
  have hp : sortKeyFn (lower (cs! "permission")) = some (fun c => showNat (permRank c.permission)) := by rfl
  have ha : sortKeyFn (lower (cs! "alpha")) = some (·.name) := by rfl
  refine ⟨?_, ?_, ?_⟩
  · simp only [sortComponents, hp]; exact sortOn_of_sorted _ _ (by decide)
  · simp only [sortComponents, hp]; exact sortOn_of_sorted _ _ (by decide)
  · simp only [sortComponents, ha]
    exact sortOn_perm_of_nodup _ _ _ (List.Perm.swap _ _ _) (by decide)

end Ford.C12
